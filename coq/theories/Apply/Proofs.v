(** Proofs about the model of [MatchResult::{apply, append, wrap}] and [root_parse]. *)
From Coq Require Import Sorting.Sorted.
From Sq Require Import Base.Bytes Apply.Model.

Arguments N.add : simpl never.
Arguments N.sub : simpl never.
Arguments N.eqb : simpl never.
Arguments N.ltb : simpl never.
Arguments N.leb : simpl never.
Arguments N.of_nat : simpl never.
Arguments N.to_nat : simpl never.

(** ** slices *)
Definition ids (ts : list tok) (a b : N) : list N := map t_id (slice_raw ts a b).

Lemma firstn_plus {A} (n m : nat) (l : list A) :
  firstn (n + m) l = firstn n l ++ firstn m (skipn n l).
Proof.
  revert l; induction n as [|n IH]; intros l; [reflexivity|].
  destruct l as [|x l]; cbn [plus firstn skipn app].
  - now rewrite firstn_nil.
  - now rewrite IH.
Qed.

Lemma skipn_skipn' {A} (n m : nat) (l : list A) : skipn m (skipn n l) = skipn (n + m) l.
Proof.
  revert l; induction n as [|n IH]; intros l; [reflexivity|].
  destruct l as [|x l]; cbn [plus skipn]; [now rewrite skipn_nil | apply IH].
Qed.

Lemma slice_raw_app {A} (ts : list A) a b c :
  a <= b -> b <= c -> slice_raw ts a b ++ slice_raw ts b c = slice_raw ts a c.
Proof.
  intros Hab Hbc. unfold slice_raw.
  replace (N.to_nat (c - a)) with (N.to_nat (b - a) + N.to_nat (c - b))%nat by lia.
  rewrite firstn_plus. f_equal. rewrite skipn_skipn'. do 2 f_equal. lia.
Qed.

Lemma slice_raw_length {A} (ts : list A) a b :
  a <= b -> b <= N.of_nat (length ts) -> length (slice_raw ts a b) = N.to_nat (b - a).
Proof.
  intros Hab Hb. unfold slice_raw. rewrite firstn_length, skipn_length. lia.
Qed.

Lemma slice_raw_same {A} (ts : list A) a : slice_raw ts a a = [].
Proof. unfold slice_raw. now rewrite N.sub_diag. Qed.

Lemma slice_some {A} (ts : list A) a b :
  a <= b -> b <= N.of_nat (length ts) -> slice ts a b = Some (slice_raw ts a b).
Proof.
  intros Hab Hb. unfold slice.
  destruct (N.leb_spec a b); [|lia]. destruct (N.leb_spec b (N.of_nat (length ts))); [|lia]. reflexivity.
Qed.

Lemma ids_app ts a b c : a <= b -> b <= c -> ids ts a b ++ ids ts b c = ids ts a c.
Proof. intros. unfold ids. now rewrite <- map_app, slice_raw_app. Qed.

Lemma ids_same ts a : ids ts a a = [].
Proof. unfold ids. now rewrite slice_raw_same. Qed.

Lemma leaves_l_app a b : leaves_l (a ++ b) = leaves_l a ++ leaves_l b.
Proof. unfold leaves_l. apply flat_map_app. Qed.

Lemma leaves_tok_trees l : leaves_l (map tok_tree l) = map t_id l.
Proof. induction l as [|t l IH]; [reflexivity|]. cbn. now rewrite <- IH. Qed.

Lemma slice_raw_all {A} (ts : list A) : slice_raw ts 0 (N.of_nat (length ts)) = ts.
Proof.
  unfold slice_raw. rewrite N.sub_0_r, Nat2N.id. cbn [N.to_nat skipn]. apply firstn_all.
Qed.

(** ** sorted keys *)
Lemma insert_key_in k l x : In x (insert_key k l) <-> x = k \/ In x l.
Proof.
  induction l as [|y l IH]; cbn [insert_key].
  - cbn. intuition.
  - destruct (N.ltb_spec k y).
    + cbn [In]. intuition.
    + destruct (N.eqb_spec k y).
      * subst. cbn [In]. intuition.
      * cbn [In]. rewrite IH. intuition.
Qed.

Lemma insert_key_sorted k l : StronglySorted N.lt l -> StronglySorted N.lt (insert_key k l).
Proof.
  induction l as [|y l IH]; cbn [insert_key]; intros Hs.
  - constructor; constructor.
  - destruct (N.ltb_spec k y).
    + constructor; [exact Hs|]. constructor; [exact H|].
      apply StronglySorted_inv in Hs as [_ Hf].
      eapply Forall_impl; [|exact Hf]. intros; cbn in *; lia.
    + destruct (N.eqb_spec k y); [exact Hs|].
      apply StronglySorted_inv in Hs as [Hs Hf].
      constructor; [now apply IH|].
      apply Forall_forall. intros x Hx. apply insert_key_in in Hx as [->|Hx]; [lia|].
      rewrite Forall_forall in Hf. now apply Hf.
Qed.

Lemma sort_keys_in l x : In x (sort_keys l) <-> In x l.
Proof.
  induction l as [|y l IH]; cbn [sort_keys fold_right]; [reflexivity|].
  fold (sort_keys l). rewrite insert_key_in, IH. cbn [In]. intuition.
Qed.

Lemma sort_keys_sorted l : StronglySorted N.lt (sort_keys l).
Proof.
  induction l as [|y l IH]; cbn [sort_keys fold_right]; [constructor|].
  now apply insert_key_sorted.
Qed.

(** ** induction principle for the nested type *)
Fixpoint mr_ind' (P : mr -> Prop)
  (H : forall s e m ins ch, Forall P ch -> P (MR s e m ins ch)) (x : mr) : P x :=
  match x with
  | MR s e m ins ch =>
      H s e m ins ch
        ((fix go (l : list mr) : Forall P l :=
            match l with
            | [] => Forall_nil P
            | c :: l' => Forall_cons c (mr_ind' P H c) (go l')
            end) ch)
  end.

(** ** the well-formedness conditions as propositions *)
Record WFnode (n s e : N) (m : option matched) (ins : list (N * N)) (sp : list span_t) (prod : bool) : Prop := {
  wn_span : s <= e /\ e <= n;
  wn_nest : forall c, In c sp -> s <= fst c /\ fst c <= snd c /\ snd c <= e;
  wn_disj : forall c c', In c sp -> In c' sp -> fst c < fst c' -> snd c <= fst c';
  wn_ins_out : forall c q, In c sp -> In q ins -> fst c < fst q -> snd c <= fst q;
  wn_chain : chain_ok sp = true;
  wn_ins : forall q, In q ins -> s <= fst q /\ fst q <= e;
  wn_nonempty : ins = [] \/ 0 < n;
  wn_matched : match m with
               | None => True
               | Some (MKind _) => s <> e \/ ins <> [] \/ prod = true
               | Some (MNewtype _) => e = s + 1 /\ ins = [] /\ sp = []
               end
}.

Lemma is_empty_true {A} (l : list A) : is_empty l = true <-> l = [].
Proof. destruct l; cbn; intuition congruence. Qed.

Lemma wf_node_WFnode n s e m ins sp prod : wf_node n s e m ins sp prod = true <-> WFnode n s e m ins sp prod.
Proof.
  unfold wf_node. repeat rewrite andb_true_iff. split.
  - intros [[[[[[[[H1 H2] H3] H4] H5] H6] H7] H8] H9].
    rewrite forallb_forall in H3, H4, H5, H7.
    split.
    + apply N.leb_le in H1, H2. lia.
    + intros c Hc. specialize (H3 c Hc). repeat rewrite andb_true_iff in H3.
      destruct H3 as [[Ha Hb] Hc']. apply N.leb_le in Ha, Hb, Hc'. lia.
    + intros c c' Hc Hc' Hlt. specialize (H4 c Hc). rewrite forallb_forall in H4.
      specialize (H4 c' Hc'). destruct (N.ltb_spec (fst c) (fst c')); [|lia].
      cbn in H4. now apply N.leb_le in H4.
    + intros c q Hc Hq Hlt. specialize (H5 c Hc). rewrite forallb_forall in H5.
      specialize (H5 q Hq). destruct (N.ltb_spec (fst c) (fst q)); [|lia].
      cbn in H5. now apply N.leb_le in H5.
    + exact H6.
    + intros q Hq. specialize (H7 q Hq). rewrite andb_true_iff in H7. destruct H7 as [Ha Hb].
      apply N.leb_le in Ha, Hb. lia.
    + apply orb_true_iff in H8 as [H8|H8]; [left; now apply is_empty_true | right; now apply N.ltb_lt in H8].
    + destruct m as [[k|k]|]; [| |exact I].
      * apply orb_true_iff in H9 as [H9|H9]; [apply orb_true_iff in H9 as [H9|H9]|].
        -- left. apply negb_true_iff in H9. now apply N.eqb_neq in H9.
        -- right. left. apply negb_true_iff in H9. intros ->. discriminate.
        -- right. now right.
      * repeat rewrite andb_true_iff in H9. destruct H9 as [[Ha Hb] Hc].
        apply N.eqb_eq in Ha. apply is_empty_true in Hb, Hc. auto.
  - intros [[H1 H2] H3 H4 H5 H6 H7 H8 H9].
    repeat split.
    + now apply N.leb_le.
    + now apply N.leb_le.
    + apply forallb_forall. intros c Hc. destruct (H3 c Hc) as (Ha & Hb & Hc').
      repeat rewrite andb_true_iff. repeat split; now apply N.leb_le.
    + apply forallb_forall. intros c Hc. apply forallb_forall. intros c' Hc'.
      destruct (N.ltb_spec (fst c) (fst c')); [|reflexivity]. cbn. apply N.leb_le. now apply H4.
    + apply forallb_forall. intros c Hc. apply forallb_forall. intros q Hq.
      destruct (N.ltb_spec (fst c) (fst q)); [|reflexivity]. cbn. apply N.leb_le. now apply H5.
    + exact H6.
    + apply forallb_forall. intros q Hq. destruct (H7 q Hq). rewrite andb_true_iff. split; now apply N.leb_le.
    + apply orb_true_iff. destruct H8 as [->|H8]; [now left | right; now apply N.ltb_lt].
    + destruct m as [[k|k]|]; [| |reflexivity].
      * destruct H9 as [H9|[H9|H9]].
        -- apply orb_true_iff. left. apply orb_true_iff. left. apply negb_true_iff. now apply N.eqb_neq.
        -- apply orb_true_iff. left. apply orb_true_iff. right. destruct ins; [congruence|reflexivity].
        -- apply orb_true_iff. now right.
      * destruct H9 as (-> & -> & ->). now rewrite N.eqb_refl.
Qed.

(** [chain_ok] in the form used below: if a later child starts where an earlier one starts,
    the earlier one is empty. *)
Lemma chain_ok_cons c l :
  chain_ok (c :: l) = true <-> (forall c', In c' l -> fst c = fst c' -> snd c = fst c) /\ chain_ok l = true.
Proof.
  cbn [chain_ok]. rewrite andb_true_iff, forallb_forall. split; intros [H1 H2]; (split; [|exact H2]).
  - intros c' Hc' Heq. specialize (H1 c' Hc'). destruct (N.eqb_spec (fst c) (fst c')); [|contradiction].
    cbn in H1. now apply N.eqb_eq in H1.
  - intros c' Hc'. destruct (N.eqb_spec (fst c) (fst c')); [|reflexivity]. cbn. apply N.eqb_eq. now apply (H1 c').
Qed.

Lemma chain_ok_filter {B} (f : B -> span_t) (g : B -> bool) (l : list B) :
  chain_ok (map f l) = true -> chain_ok (map f (filter g l)) = true.
Proof.
  induction l as [|x l IH]; [auto|]. cbn [map filter]. intros H.
  apply chain_ok_cons in H as [H1 H2]. destruct (g x); [|auto].
  cbn [map]. apply chain_ok_cons. split; [|auto].
  intros c' Hc'. apply H1. apply in_map_iff in Hc' as (y & <- & Hy).
  apply in_map. apply filter_In in Hy. tauto.
Qed.

Lemma nonempty_in {A} (l : list A) : l <> [] -> exists x, In x l.
Proof. destruct l as [|x l]; [congruence|]. intros _. exists x. now left. Qed.

(** ** apply: one position *)
Section Assemble.
  Variable ts : list tok.
  Let n := N.of_nat (length ts).

  Definition good_r (r : child_r) : Prop :=
    exists l, snd r = Some l /\ leaves_l l = ids ts (fst (fst r)) (snd (fst r)).

  Lemma run_children_spec p e :
    forall ds cur out,
      Forall good_r ds ->
      Forall (fun d => fst (fst d) = p /\ p <= snd (fst d) /\ snd (fst d) <= e) ds ->
      chain_ok (map fst ds) = true ->
      (ds <> [] -> cur = p) -> p <= cur -> cur <= e -> e <= n ->
      exists cur' out',
        run_children ds cur out = Some (cur', out') /\
        cur <= cur' /\ cur' <= e /\
        (cur' = cur \/ exists d, In d ds /\ cur' = snd (fst d)) /\
        leaves_l out' = leaves_l out ++ ids ts cur cur' /\
        (forall t, In t out -> In t out') /\
        (forall d l t, In d ds -> snd d = Some l -> In t l -> In t out').
  Proof.
    induction ds as [|d ds IH]; intros cur out Hg Hd Hc Hcur Hp He Hn.
    - exists cur, out. cbn. rewrite ids_same, app_nil_r. repeat split; auto; lia.
    - destruct d as [[cs ce] r].
      inversion Hg as [|? ? Hg1 Hg2]; subst. inversion Hd as [|? ? Hd1 Hd2]; subst.
      cbn [fst snd] in Hd1. destruct Hd1 as (-> & Hpe & Hee).
      destruct Hg1 as (l & Hr & Hl). cbn [fst snd] in Hr, Hl. subst r.
      cbn [map] in Hc. apply chain_ok_cons in Hc as [Hc1 Hc2]. cbn [fst snd] in Hc1.
      assert (cur = p) by (apply Hcur; discriminate). subst cur.
      cbn [run_children].
      destruct (IH ce (out ++ l) Hg2 Hd2 Hc2) as (cur' & out' & Hrun & Hle & Hle' & Hwhich & Hleaves & Hincl & Hkids); try lia.
      { intros Hne. destruct ds as [|d' ds']; [congruence|].
        inversion Hd2 as [|? ? Hd' _]; subst. destruct Hd' as (Hd' & _).
        apply (Hc1 (fst d')); [now left | now symmetry]. }
      exists cur', out'. repeat split; auto; try lia.
      + destruct Hwhich as [->|(d & Hin & ->)]; right.
        * exists (p, ce, Some l). split; [now left | reflexivity].
        * exists d. split; [now right | reflexivity].
      + rewrite Hleaves, leaves_l_app, Hl, <- app_assoc. f_equal. apply ids_app; lia.
      + intros t Ht. apply Hincl. apply in_or_app. now left.
      + intros d l0 t [<-|Hd0] Hl0 Ht.
        * cbn [snd] in Hl0. injection Hl0 as <-. apply Hincl. apply in_or_app. now right.
        * eapply Hkids; eauto.
  Qed.

  Lemma metas_at_spec p ins :
    (ins = [] \/ 0 < n) -> p <= n ->
    exists ms, metas_at n p ins = Some ms /\ leaves_l ms = [] /\
               (forall q, In q ins -> fst q = p -> In (Meta (snd q) p) ms).
  Proof.
    intros Hne Hp. unfold metas_at.
    set (here := filter (fun i => fst i =? p) ins).
    assert (Hhere : forall q, In q ins -> fst q = p -> In q here).
    { intros q Hq Hqp. apply filter_In. split; [exact Hq | now apply N.eqb_eq]. }
    destruct here as [|h here'] eqn:Eh.
    - exists []. cbn. split; [reflexivity|]. split; [reflexivity|]. intros q Hq Hqp. destruct (Hhere q Hq Hqp).
    - cbn [is_empty].
      assert (Hpos : 0 < n).
      { destruct Hne as [->|]; [|assumption]. subst here. cbn in Eh. discriminate. }
      assert (Hok : point_ok n p = true).
      { unfold point_ok. destruct (N.ltb_spec p n); [reflexivity|]. cbn.
        apply andb_true_iff. split; [apply N.leb_le | apply N.ltb_lt]; lia. }
      rewrite Hok. eexists. split; [reflexivity|]. split.
      + clear. induction (h :: here') as [|x l IH]; [reflexivity|]. cbn. exact IH.
      + intros q Hq Hqp. specialize (Hhere q Hq Hqp).
        change (In (Meta (snd q) p) (map (fun i => Meta (snd i) p) (h :: here'))).
        now apply (in_map (fun i => Meta (snd i) p)).
  Qed.

  Variables (s e : N) (m : option matched) (ins : list (N * N)) (rs : list child_r) (prod : bool).
  Hypothesis Hgood : Forall good_r rs.
  Hypothesis Hwf : WFnode n s e m ins (map fst rs) prod.
  (** if the node is said to produce through a child, some child result is non-empty *)
  Hypothesis Hprod : prod = true -> exists r l, In r rs /\ snd r = Some l /\ l <> [].

  Definition KP (k : N) : Prop :=
    (exists q, In q ins /\ fst q = k) \/ (exists r, In r rs /\ fst (fst r) = k).

  Lemma KP_bounds k : KP k -> s <= k /\ k <= e.
  Proof.
    intros [(q & Hq & <-)|(r & Hr & <-)].
    - now apply (wn_ins _ _ _ _ _ _ _ Hwf).
    - destruct (wn_nest _ _ _ _ _ _ _ Hwf (fst r)) as (? & ? & ?); [now apply in_map|]. lia.
  Qed.

  Lemma step_spec p cur out :
    KP p -> s <= cur -> cur <= p ->
    exists cur' out',
      step ts ins rs (cur, out) p = Some (cur', out') /\
      p <= cur' /\ cur' <= e /\
      (forall k, KP k -> p < k -> cur' <= k) /\
      leaves_l out' = leaves_l out ++ ids ts cur cur' /\
      (forall t, In t out -> In t out') /\
      (forall q, In q ins -> fst q = p -> In (Meta (snd q) p) out') /\
      (forall r l t, In r rs -> fst (fst r) = p -> snd r = Some l -> In t l -> In t out').
  Proof.
    intros Hk Hs Hcp.
    destruct (KP_bounds p Hk) as [Hsp Hpe].
    destruct (wn_span _ _ _ _ _ _ _ Hwf) as [Hse Hen].
    unfold step. destruct (N.ltb_spec p cur) as [|_]; [lia|].
    assert (Hgap : exists gap, (if cur <? p then slice ts cur p else Some []) = Some gap /\
                               map t_id gap = ids ts cur p).
    { destruct (N.ltb_spec cur p).
      - rewrite slice_some by (fold n; lia). eexists; split; reflexivity.
      - assert (cur = p) by lia. subst. exists []. now rewrite ids_same. }
    destruct Hgap as (gap & -> & Hgap).
    destruct (metas_at_spec p ins (wn_nonempty _ _ _ _ _ _ _ Hwf)) as (ms & Hmseq & Hms & Hmeta); [lia|].
    unfold n in Hmseq. rewrite Hmseq.
    set (ds := filter (fun r => fst (fst r) =? p) rs).
    destruct (run_children_spec p e ds p ((out ++ map tok_tree gap) ++ ms)) as
      (cur' & out' & Hrun & Hle & Hle' & Hwhich & Hleaves & Hincl & Hkids); auto; try lia.
    { rewrite Forall_forall in *. intros d Hd. apply Hgood. apply filter_In in Hd. tauto. }
    { apply Forall_forall. intros d Hd. apply filter_In in Hd as [Hd Hdp]. apply N.eqb_eq in Hdp.
      destruct (wn_nest _ _ _ _ _ _ _ Hwf (fst d)) as (? & ? & ?); [now apply in_map|]. lia. }
    { apply chain_ok_filter. exact (wn_chain _ _ _ _ _ _ _ Hwf). }
    exists cur', out'. rewrite Hrun. repeat split; auto.
    - intros k Hkk Hlt. destruct Hwhich as [->|(d & Hd & ->)]; [lia|].
      apply filter_In in Hd as [Hd Hdp]. apply N.eqb_eq in Hdp.
      destruct Hkk as [(q & Hq & <-)|(r & Hr & <-)].
      + apply (wn_ins_out _ _ _ _ _ _ _ Hwf (fst d) q); [now apply in_map | assumption | lia].
      + apply (wn_disj _ _ _ _ _ _ _ Hwf (fst d) (fst r)); [now apply in_map | now apply in_map | lia].
    - rewrite Hleaves, !leaves_l_app, Hms, app_nil_r, leaves_tok_trees, Hgap, <- app_assoc.
      f_equal. apply ids_app; lia.
    - intros t Ht. apply Hincl. apply in_or_app. left. apply in_or_app. now left.
    - intros q Hq Hqp. apply Hincl. apply in_or_app. right. now apply Hmeta.
    - intros r l t Hr Hrp Hl Ht. apply (Hkids r l t); auto.
      apply filter_In. split; [exact Hr | now apply N.eqb_eq].
  Qed.

  Lemma fold_spec :
    forall ks cur out,
      StronglySorted N.lt ks -> Forall KP ks -> Forall (fun k => cur <= k) ks ->
      s <= cur -> cur <= e ->
      exists cur' out',
        fold_opt (step ts ins rs) ks (cur, out) = Some (cur', out') /\
        cur <= cur' /\ cur' <= e /\
        leaves_l out' = leaves_l out ++ ids ts cur cur' /\
        (forall t, In t out -> In t out') /\
        (forall q, In q ins -> In (fst q) ks -> In (Meta (snd q) (fst q)) out') /\
        (forall r l t, In r rs -> In (fst (fst r)) ks -> snd r = Some l -> In t l -> In t out').
  Proof.
    induction ks as [|p ks IH]; intros cur out Hsort Hkp Hle Hs He.
    - exists cur, out. cbn. rewrite ids_same, app_nil_r. repeat split; auto; try lia.
    - apply StronglySorted_inv in Hsort as [Hsort Hlt].
      inversion Hkp as [|? ? Hkp1 Hkp2]; subst. inversion Hle as [|? ? Hle1 Hle2]; subst.
      destruct (step_spec p cur out Hkp1 Hs Hle1) as
        (cur1 & out1 & Hstep & Hp1 & He1 & Hnext & Hleaves1 & Hincl1 & Hmeta1 & Hkid1).
      cbn [fold_opt]. rewrite Hstep.
      destruct (IH cur1 out1 Hsort Hkp2) as (cur' & out' & Hfold & Hc' & He' & Hleaves & Hincl & Hmeta & Hkid); try lia.
      { rewrite Forall_forall in *. intros k Hk. apply Hnext; [now apply Hkp2 | now apply Hlt]. }
      exists cur', out'. rewrite Hfold. repeat split; auto; try lia.
      + rewrite Hleaves, Hleaves1, <- app_assoc. f_equal. apply ids_app; lia.
      + intros q Hq [Hqp|Hqk]; [|now apply Hmeta].
        apply Hincl. rewrite <- Hqp. apply Hmeta1; auto.
      + intros r l t Hr [Hrp|Hrk] Hl Ht; [|eapply Hkid; eauto].
        apply Hincl. eapply Hkid1; eauto.
  Qed.

  Lemma assemble_spec :
    exists r, assemble ts s e m ins rs = Some r /\ leaves_l r = ids ts s e /\
              (negb (s =? e) || negb (is_empty ins) || prod = true -> r <> []).
  Proof.
    destruct (wn_span _ _ _ _ _ _ _ Hwf) as [Hse Hen].
    unfold assemble.
    set (keys := sort_keys (map fst ins ++ map (fun r => fst (fst r)) rs)).
    assert (Hkeys : forall k, In k keys <-> KP k).
    { intros k. unfold keys. rewrite sort_keys_in, in_app_iff, !in_map_iff. unfold KP.
      split; intros [(x & Hx & Hin)|(x & Hx & Hin)]; [left|right|left|right]; exists x; auto. }
    destruct (fold_spec keys s []) as (cur & out & Hfold & Hc & Hce & Hleaves & _ & Hmeta & Hkid); try lia.
    { apply sort_keys_sorted. }
    { apply Forall_forall. intros k Hk. now apply Hkeys. }
    { apply Forall_forall. intros k Hk. apply Hkeys in Hk. now apply KP_bounds in Hk. }
    rewrite Hfold.
    assert (Htail : exists tail, (if cur <? e then slice ts cur e else Some []) = Some tail /\
                                 map t_id tail = ids ts cur e).
    { destruct (N.ltb_spec cur e).
      - rewrite slice_some by (fold n; lia). eexists; split; reflexivity.
      - assert (cur = e) by lia. subst. exists []. now rewrite ids_same. }
    destruct Htail as (tail & -> & Htail).
    assert (Hall : leaves_l (out ++ map tok_tree tail) = ids ts s e).
    { rewrite leaves_l_app, Hleaves, leaves_tok_trees, Htail. cbn [leaves_l flat_map app]. apply ids_app; lia. }
    assert (Hnonempty : negb (s =? e) || negb (is_empty ins) || prod = true -> out ++ map tok_tree tail <> []).
    { intros Hb. apply orb_true_iff in Hb as [Hb|Hb]; [apply orb_true_iff in Hb as [Hb|Hb]|].
      - apply negb_true_iff in Hb. apply N.eqb_neq in Hb.
        intros Heq. rewrite Heq in Hall. cbn in Hall.
        assert (length (ids ts s e) = N.to_nat (e - s)).
        { unfold ids. rewrite map_length. apply slice_raw_length; [lia | exact Hen]. }
        rewrite <- Hall in H. cbn in H. lia.
      - apply negb_true_iff in Hb.
        assert (Hne : ins <> []) by (intros Heq; rewrite Heq in Hb; discriminate).
        destruct (nonempty_in ins Hne) as [q Hq].
        assert (In (Meta (snd q) (fst q)) out).
        { apply Hmeta; [exact Hq|]. apply Hkeys. left. exists q. split; [exact Hq | reflexivity]. }
        intros Heq. apply app_eq_nil in Heq as [Heq _]. rewrite Heq in H. contradiction.
      - destruct (Hprod Hb) as (r & l & Hr & Hl & Hne).
        destruct (nonempty_in l Hne) as [t Ht].
        assert (In t out).
        { apply (Hkid r l t); auto. apply Hkeys. right. exists r. split; [exact Hr | reflexivity]. }
        intros Heq. apply app_eq_nil in Heq as [Heq _]. rewrite Heq in H. contradiction. }
    pose proof (wn_matched _ _ _ _ _ _ _ Hwf) as Hm.
    destruct m as [[k|k]|].
    - (* node *)
      assert (Hne : out ++ map tok_tree tail <> []).
      { apply Hnonempty. destruct Hm as [Hne|[Hne|Hne]].
        - apply orb_true_iff. left. apply orb_true_iff. left. apply negb_true_iff. now apply N.eqb_neq.
        - apply orb_true_iff. left. apply orb_true_iff. right. destruct ins; [congruence | reflexivity].
        - apply orb_true_iff. now right. }
      destruct (out ++ map tok_tree tail) as [|t l] eqn:Eo; [congruence|].
      cbn [is_empty]. eexists; split; [reflexivity|]. split; [|discriminate].
      cbn [leaves_l flat_map leaves]. rewrite app_nil_r. exact Hall.
    - (* newtype *)
      destruct Hm as (He1 & Hi & Hsp).
      assert (Hrs : rs = []) by (destruct rs; [reflexivity | discriminate]).
      unfold keys in Hfold. rewrite Hi, Hrs in Hfold. cbn in Hfold. injection Hfold as <- <-.
      assert (Hlen : length tail = 1%nat).
      { rewrite <- (map_length t_id), Htail. unfold ids. rewrite map_length, slice_raw_length by (fold n; lia). lia. }
      destruct tail as [|t [|? ?]]; try discriminate.
      cbn. eexists; split; [reflexivity|]. split; [|discriminate]. cbn. rewrite <- Hall. reflexivity.
    - eexists; split; [reflexivity |]. split; [exact Hall | exact Hnonempty].
  Qed.
End Assemble.

(** ** apply *)
Lemma produces_unfold x :
  produces x = negb (mr_start x =? mr_end x) || negb (is_empty (mr_ins x)) || existsb produces (mr_ch x).
Proof. destruct x; reflexivity. Qed.

Theorem apply_leaves_strong ts x :
  wf (N.of_nat (length ts)) x = true ->
  exists r, apply ts x = Some r /\ leaves_l r = ids ts (mr_start x) (mr_end x) /\
            (produces x = true -> r <> []).
Proof.
  induction x as [s e m ins ch IH] using mr_ind'. cbn [wf apply mr_start mr_end].
  rewrite andb_true_iff, forallb_forall. intros [Hch Hnode].
  apply wf_node_WFnode in Hnode.
  assert (Hgood : Forall (good_r ts) (map (fun c => (mr_start c, mr_end c, apply ts c)) ch)).
  { apply Forall_forall. intros r Hr. apply in_map_iff in Hr as (c & <- & Hc).
    rewrite Forall_forall in IH. destruct (IH c Hc (Hch c Hc)) as (l & Hl & Hleaves & _).
    exists l. split; [exact Hl | exact Hleaves]. }
  destruct (assemble_spec ts s e m ins (map (fun c => (mr_start c, mr_end c, apply ts c)) ch)
              (existsb produces ch) Hgood) as (r & Hr & Hleaves & Hne).
  - rewrite map_map. cbn [fst]. exact Hnode.
  - intros Hex. apply existsb_exists in Hex as (c & Hc & Hpc).
    rewrite Forall_forall in IH. destruct (IH c Hc (Hch c Hc)) as (l & Hl & _ & Hlne).
    exists (mr_start c, mr_end c, apply ts c), l. split; [|split; [exact Hl | now apply Hlne]].
    apply in_map_iff. exists c. split; [reflexivity | exact Hc].
  - exists r. split; [exact Hr|]. split; [exact Hleaves|]. cbn [produces]. exact Hne.
Qed.

Theorem apply_leaves ts x :
  wf (N.of_nat (length ts)) x = true ->
  exists r, apply ts x = Some r /\ leaves_l r = ids ts (mr_start x) (mr_end x).
Proof. intros H. destruct (apply_leaves_strong ts x H) as (r & Hr & Hl & _). eauto. Qed.

(** ** append / wrap preserve well-formedness *)
Definition spans (l : list mr) : list span_t := map (fun c => (mr_start c, mr_end c)) l.

Lemma wf_unfold n x :
  wf n x = true <->
  (forall c, In c (mr_ch x) -> wf n c = true) /\
  WFnode n (mr_start x) (mr_end x) (mr_matched x) (mr_ins x) (spans (mr_ch x)) (existsb produces (mr_ch x)).
Proof.
  destruct x as [s e m ins ch]. cbn [wf mr_ch mr_start mr_end mr_matched mr_ins].
  rewrite andb_true_iff, forallb_forall, wf_node_WFnode. reflexivity.
Qed.

Lemma chain_ok_app a b :
  chain_ok (a ++ b) = true <->
  chain_ok a = true /\ chain_ok b = true /\
  (forall c c', In c a -> In c' b -> fst c = fst c' -> snd c = fst c).
Proof.
  induction a as [|x a IH]; cbn [app].
  - split; [intros H; repeat split; auto; intros ? ? [] | tauto].
  - rewrite !chain_ok_cons, IH. split.
    + intros (H1 & H2 & H3 & H4). repeat split; auto.
      * intros c' Hc'. apply H1. apply in_or_app. now left.
      * intros c c' [<-|Hc] Hc'; [apply H1; apply in_or_app; now right | now apply H4].
    + intros ((H1 & H2) & H3 & H4). repeat split; auto.
      * intros c' Hc'. apply in_app_or in Hc' as [Hc'|Hc']; [now apply H1 | apply H4; [now left | exact Hc']].
      * intros c c' Hc Hc'. apply H4; [now right | exact Hc'].
Qed.

(** what a match contributes to its parent when flattened by [append]/[wrap] *)
Lemma flat_facts n x :
  wf n x = true ->
  (forall c, In c (flat_ch x) -> wf n c = true) /\
  WFnode n (mr_start x) (mr_end x) None (flat_ins x) (spans (flat_ch x)) (existsb produces (flat_ch x)).
Proof.
  intros Hx. pose proof Hx as Hx'. apply wf_unfold in Hx' as [Hch Hn].
  unfold flat_ch, flat_ins. destruct (mr_matched x) as [mm|] eqn:Em; cbn [is_some].
  - split; [intros c [<-|[]]; exact Hx|].
    destruct (wn_span _ _ _ _ _ _ _ Hn) as [Hse Hen].
    split; cbn [spans map].
    + lia.
    + intros c [<-|[]]. cbn. lia.
    + intros c c' [<-|[]] [<-|[]]. cbn. lia.
    + intros c q _ [].
    + reflexivity.
    + intros q [].
    + now left.
    + exact I.
  - split; [exact Hch|].
    destruct Hn. split; auto.
Qed.

Lemma WFnode_append n s1 e1 i1 sp1 p1 s2 e2 i2 sp2 p2 p :
  WFnode n s1 e1 None i1 sp1 p1 -> WFnode n s2 e2 None i2 sp2 p2 -> e1 <= s2 ->
  WFnode n s1 e2 None (i1 ++ i2) (sp1 ++ sp2) p.
Proof.
  intros [[A1 A1'] A2 A3 A4 A5 A6 A7 _] [[B1 B1'] B2 B3 B4 B5 B6 B7 _] Hle.
  split.
  - lia.
  - intros c Hc. apply in_app_or in Hc as [Hc|Hc]; [specialize (A2 c Hc) | specialize (B2 c Hc)]; lia.
  - intros c c' Hc Hc' Hlt. apply in_app_or in Hc as [Hc|Hc]; apply in_app_or in Hc' as [Hc'|Hc'].
    + now apply A3.
    + specialize (A2 c Hc). specialize (B2 c' Hc'). lia.
    + specialize (B2 c Hc). specialize (A2 c' Hc'). lia.
    + now apply B3.
  - intros c q Hc Hq Hlt. apply in_app_or in Hc as [Hc|Hc]; apply in_app_or in Hq as [Hq|Hq].
    + now apply A4.
    + specialize (A2 c Hc). specialize (B6 q Hq). lia.
    + specialize (B2 c Hc). specialize (A6 q Hq). lia.
    + now apply B4.
  - apply chain_ok_app. repeat split; auto.
    intros c c' Hc Hc' Heq. specialize (A2 c Hc). specialize (B2 c' Hc'). lia.
  - intros q Hq. apply in_app_or in Hq as [Hq|Hq]; [specialize (A6 q Hq) | specialize (B6 q Hq)]; lia.
  - destruct A7 as [->|]; [|now right]. destruct B7 as [->|]; [now left | now right].
  - exact I.
Qed.

Theorem append_wf n a b :
  wf n a = true -> wf n b = true -> mr_end a <= mr_start b -> wf n (append a b) = true.
Proof.
  intros Ha Hb Hle. unfold append.
  destruct (mr_is_empty a); [exact Hb|]. destruct (mr_is_empty b); [exact Ha|].
  destruct (flat_facts n a Ha) as [Hca Hna]. destruct (flat_facts n b Hb) as [Hcb Hnb].
  apply wf_unfold. cbn [mr_ch mr_start mr_end mr_matched mr_ins]. split.
  - intros c Hc. apply in_app_or in Hc as [Hc|Hc]; auto.
  - unfold spans. rewrite map_app. eapply WFnode_append; [exact Hna | exact Hnb | exact Hle].
Qed.

(** [wrap] (only ever called with [Matched::SyntaxKind]) preserves well-formedness: a match that
    is already a node is kept as the single child, an un-named one hands its inserts and
    children over; the new node is non-empty because the wrapped match is. *)
Theorem wrap_wf n x k :
  wf n x = true -> wf n (wrap x (MKind k)) = true.
Proof.
  intros Hx. unfold wrap. destruct (mr_is_empty x) eqn:Ee; [exact Hx|].
  destruct (flat_facts n x Hx) as [Hc Hn].
  apply wf_unfold. cbn [mr_ch mr_start mr_end mr_matched mr_ins]. split; [exact Hc|].
  destruct Hn as [A1 A2 A3 A4 A5 A6 A7 _]. split; auto.
  unfold mr_is_empty, has_match in Ee. apply negb_false_iff in Ee. apply orb_true_iff in Ee.
  unfold flat_ins, flat_ch. destruct (mr_matched x) as [mm|]; cbn [is_some].
  - (* named: the single child [x] produces *)
    right. right. cbn [existsb]. rewrite orb_false_r, produces_unfold.
    destruct Ee as [Ee|Ee]; rewrite Ee; [reflexivity | rewrite orb_true_r; reflexivity].
  - destruct Ee as [Ee|Ee].
    + left. apply negb_true_iff in Ee. now apply N.eqb_neq in Ee.
    + right. left. apply negb_true_iff in Ee. intros Heq. rewrite Heq in Ee. discriminate.
Qed.

(** ** root_parse *)
Lemma position_lt {A} (f : A -> bool) l i : position f l = Some i -> i < N.of_nat (length l).
Proof.
  revert i; induction l as [|x l IH]; intros i; cbn [position]; [discriminate|].
  destruct (f x).
  - intros [= <-]. cbn [length]. lia.
  - destruct (position f l) as [j|]; cbn [option_map]; [|discriminate].
    intros [= <-]. specialize (IH j eq_refl). cbn [length]. lia.
Qed.

Lemma position_none {A} (f : A -> bool) l : position f l = None -> existsb f l = false.
Proof.
  induction l as [|x l IH]; cbn [position existsb]; [reflexivity|].
  destruct (f x); [discriminate|]. destruct (position f l); [discriminate|]. intros _. now apply IH.
Qed.

Lemma position_prefix {A} (f : A -> bool) l i :
  position f l = Some i -> forallb (fun x => negb (f x)) (firstn (N.to_nat i) l) = true.
Proof.
  revert i; induction l as [|x l IH]; intros i; cbn [position]; [discriminate|].
  destruct (f x) eqn:Ef.
  - intros [= <-]. reflexivity.
  - destruct (position f l) as [j|]; cbn [option_map]; [|discriminate].
    intros [= <-]. replace (N.to_nat (N.succ j)) with (S (N.to_nat j)) by lia.
    cbn [firstn forallb]. rewrite Ef. cbn. now apply IH.
Qed.

Lemma rposition_bounds {A} (f : A -> bool) l j :
  rposition_succ f l = Some j -> 1 <= j /\ j <= N.of_nat (length l).
Proof.
  revert j; induction l as [|x l IH]; intros j; cbn [rposition_succ]; [discriminate|].
  destruct (rposition_succ f l) as [i|].
  - intros [= <-]. specialize (IH i eq_refl). cbn [length]. lia.
  - destruct (f x); [|discriminate]. intros [= <-]. cbn [length]. lia.
Qed.

Lemma rposition_position {A} (f : A -> bool) l j :
  rposition_succ f l = Some j -> exists i, position f l = Some i /\ i < j.
Proof.
  revert j; induction l as [|x l IH]; intros j; cbn [rposition_succ position]; [discriminate|].
  destruct (rposition_succ f l) as [i|] eqn:Er.
  - intros [= <-]. destruct (f x).
    + exists 0. split; [reflexivity | lia].
    + destruct (IH i eq_refl) as (i' & -> & Hlt). exists (N.succ i'). split; [reflexivity | lia].
  - destruct (f x); [|discriminate]. intros [= <-]. exists 0. split; [reflexivity | lia].
Qed.

Lemma slice_raw_cons {A} (x : A) l a b :
  1 <= a -> slice_raw (x :: l) a b = slice_raw l (a - 1) (b - 1).
Proof.
  intros Ha. unfold slice_raw. replace (N.to_nat a) with (S (N.to_nat (a - 1))) by lia.
  cbn [skipn]. do 2 f_equal. lia.
Qed.

Lemma slice_raw_cons0 {A} (x : A) l b :
  1 <= b -> slice_raw (x :: l) 0 b = x :: slice_raw l 0 (b - 1).
Proof.
  intros Hb. unfold slice_raw. rewrite !N.sub_0_r. cbn [N.to_nat skipn].
  replace (N.to_nat b) with (S (N.to_nat (b - 1))) by lia. reflexivity.
Qed.

(** the token just before [end_idx] is code, so every non-empty slice ending there has a code token *)
Lemma rposition_slice_code {A} (f : A -> bool) l j :
  rposition_succ f l = Some j -> forall a, a < j -> existsb f (slice_raw l a j) = true.
Proof.
  revert j; induction l as [|x l IH]; intros j; cbn [rposition_succ]; [discriminate|].
  destruct (rposition_succ f l) as [i|] eqn:Er.
  - intros [= <-] a Ha. destruct (rposition_bounds _ _ _ Er) as [Hi _].
    destruct (N.eq_dec a 0) as [->|Hne].
    + rewrite slice_raw_cons0 by lia. cbn [existsb]. replace (N.succ i - 1) with i by lia.
      rewrite (IH i eq_refl 0) by lia. apply orb_true_r.
    + rewrite slice_raw_cons by lia. replace (N.succ i - 1) with i by lia. apply IH; [reflexivity | lia].
  - destruct (f x) eqn:Ef; [|discriminate]. intros [= <-] a Ha. assert (a = 0) by lia. subst a.
    rewrite slice_raw_cons0 by lia. cbn [existsb]. now rewrite Ef.
Qed.

Lemma idx_bounds ts : start_idx ts <= end_idx ts /\ end_idx ts <= N.of_nat (length ts).
Proof.
  unfold end_idx, start_idx. destruct (rposition_succ t_code ts) as [j|] eqn:Er.
  - destruct (rposition_position _ _ _ Er) as (i & -> & Hlt).
    destruct (rposition_bounds _ _ _ Er). lia.
  - destruct (position t_code ts) as [i|] eqn:Ep; [|lia].
    apply position_lt in Ep. lia.
Qed.

Lemma node_of_some k l : l <> [] -> node_of k l = Some (Node k l).
Proof. unfold node_of. destruct l; [congruence | reflexivity]. Qed.

Lemma leaves_nonempty l : leaves_l l <> [] -> l <> [].
Proof. intros H ->. now apply H. Qed.

Lemma map_nonempty {A B} (f : A -> B) l : l <> [] -> map f l <> [].
Proof. destruct l; [congruence | discriminate]. Qed.

(** The three content branches of [root_parse], as equations.  This is the branch lemma behind
    "text the grammar cannot match is kept inside unparsable nodes ... never discarded". *)
Theorem root_parse_shape ts m :
  ts <> [] -> wf_root ts m = true -> start_idx ts <> end_idx ts ->
  let n := N.of_nat (length ts) in
  let si := start_idx ts in
  let ei := end_idx ts in
  let pre := map tok_tree (slice_raw ts 0 si) in
  let post := map tok_tree (slice_raw ts ei n) in
  exists matched,
    apply ts m = Some matched /\ leaves_l matched = ids ts si (mr_end m) /\
    (has_match m = false ->
       root_parse ts (GOk m) =
       Some (POk (Node K_File (pre ++ [Node K_Unparsable (map tok_tree (slice_raw ts si ei))] ++ post)))) /\
    (has_match m = true -> mr_end m < ei ->
       exists head tail,
         head ++ tail = slice_raw ts (mr_end m) ei /\
         forallb (fun t => negb (t_code t)) head = true /\ tail <> [] /\
         root_parse ts (GOk m) =
         Some (POk (Node K_File (pre ++ (matched ++ map tok_tree head ++ [Node K_Unparsable (map tok_tree tail)]) ++ post)))) /\
    (has_match m = true -> mr_end m = ei ->
       root_parse ts (GOk m) = Some (POk (Node K_File (pre ++ matched ++ post)))).
Proof.
  intros Hne Hwf Hsi n si ei pre post.
  unfold wf_root in Hwf. repeat rewrite andb_true_iff in Hwf. destruct Hwf as [[Hwf Hs] He].
  apply N.eqb_eq in Hs. apply N.leb_le in He.
  destruct (idx_bounds ts) as [Hse Hen]. fold si ei n in Hse, Hen, Hs, He, Hsi.
  destruct (apply_leaves ts m Hwf) as (matched & Happ & Hleaves). rewrite Hs in Hleaves.
  exists matched. split; [exact Happ|]. split; [exact Hleaves|].
  assert (Hsm : mr_start m <= mr_end m).
  { apply wf_unfold in Hwf as [_ Hn]. now destruct (wn_span _ _ _ _ _ _ _ Hn). }
  assert (Hroot : forall c, c <> [] ->
            option_map POk (node_of K_File (pre ++ c ++ post)) = Some (POk (Node K_File (pre ++ c ++ post)))).
  { intros c Hc. rewrite node_of_some; [reflexivity|]. intros Heq.
    apply app_eq_nil in Heq as [_ Heq]. apply app_eq_nil in Heq as [Heq _]. contradiction. }
  assert (Hrp :
            root_parse ts (GOk m) =
            (let unmatched := slice_raw ts (mr_end m) ei in
             let code := slice_raw ts si ei in
             match (if negb (has_match m) then option_map (fun u => [u]) (node_of K_Unparsable (map tok_tree code))
                    else if negb (is_empty unmatched) then
                      let idx := match position t_code unmatched with Some i => i | None => N.of_nat (length unmatched) end in
                      option_map (fun f => matched ++ map tok_tree (firstn (N.to_nat idx) unmatched) ++ [f])
                                 (node_of K_Unparsable (map tok_tree (skipn (N.to_nat idx) unmatched)))
                    else Some matched) with
             | None => None
             | Some c => option_map POk (node_of K_File (pre ++ c ++ post))
             end)).
  { unfold root_parse, root_parse_gen. fold n si ei.
    destruct (N.eqb_spec si ei); [contradiction|].
    rewrite Happ. rewrite !slice_some by (fold n; lia). reflexivity. }
  repeat split.
  - intros Hhm. rewrite Hrp. cbv zeta. rewrite Hhm. cbn [negb].
    rewrite node_of_some.
    + cbn [option_map]. apply Hroot. discriminate.
    + apply map_nonempty. intros Heq.
      assert (length (slice_raw ts si ei) = N.to_nat (ei - si)) by (apply slice_raw_length; lia).
      rewrite Heq in H. cbn in H. lia.
  - intros Hhm Hlt.
    set (unmatched := slice_raw ts (mr_end m) ei).
    assert (Hlen : length unmatched = N.to_nat (ei - mr_end m)) by (apply slice_raw_length; lia).
    assert (Hcode : existsb t_code unmatched = true).
    { unfold ei, end_idx in *. destruct (rposition_succ t_code ts) as [j|] eqn:Er; [|lia].
      now apply (rposition_slice_code _ _ _ Er). }
    destruct (position t_code unmatched) as [i|] eqn:Ep.
    2:{ apply position_none in Ep. congruence. }
    pose proof (position_lt _ _ _ Ep) as Hi.
    exists (firstn (N.to_nat i) unmatched), (skipn (N.to_nat i) unmatched).
    assert (Htail : skipn (N.to_nat i) unmatched <> []).
    { intros Heq. apply (f_equal (@length _)) in Heq. rewrite skipn_length in Heq. cbn in Heq. lia. }
    split; [apply firstn_skipn|]. split; [now apply position_prefix|]. split; [exact Htail|].
    rewrite Hrp. cbv zeta. rewrite Hhm. cbn [negb]. fold unmatched. rewrite Ep.
    assert (Hu : is_empty unmatched = false) by (destruct unmatched; [cbn in Hlen; lia | reflexivity]).
    rewrite Hu. cbn [negb].
    rewrite node_of_some by (now apply map_nonempty). cbn [option_map].
    apply Hroot. intros Heq. apply app_eq_nil in Heq as [_ Heq]. apply app_eq_nil in Heq as [_ Heq]. discriminate.
  - intros Hhm Heq.
    rewrite Hrp. cbv zeta. rewrite Hhm. cbn [negb]. rewrite Heq, slice_raw_same. cbn [is_empty negb].
    apply Hroot. apply leaves_nonempty. rewrite Hleaves.
    intros Hnil. apply (f_equal (@length _)) in Hnil. unfold ids in Hnil.
    rewrite map_length, slice_raw_length in Hnil by lia. cbn in Hnil. lia.
Qed.

Lemma outside_l_app a b : outside_l (a ++ b) = outside_l a ++ outside_l b.
Proof. unfold outside_l. apply flat_map_app. Qed.

Lemma outside_tok_trees l : outside_l (map tok_tree l) = map t_id l.
Proof. induction l as [|t l IH]; [reflexivity|]. cbn. now rewrite <- IH. Qed.

Lemma outside_unparsable ch : outside_l [Node K_Unparsable ch] = [].
Proof. reflexivity. Qed.

(** Second sentence of C02 for [root_parse]: the tokens that are outside every unparsable node of the
    result are the non-code around the code span, what the grammar matched (minus the unparsable
    sections of the match itself) and the non-code [head] between the match and the first code token
    it left over - all the rest of the code span ([tail]: from the first unmatched code token to the
    last code token; the whole span when nothing matched) is inside an unparsable node. *)
Theorem root_parse_unmatched_flagged ts m :
  ts <> [] -> wf_root ts m = true -> start_idx ts <> end_idx ts ->
  let n := N.of_nat (length ts) in
  let si := start_idx ts in
  let ei := end_idx ts in
  exists matched ch head tail,
    apply ts m = Some matched /\
    root_parse ts (GOk m) = Some (POk (Node K_File ch)) /\
    head ++ tail = slice_raw ts (if has_match m then mr_end m else si) ei /\
    forallb (fun t => negb (t_code t)) head = true /\
    (tail = [] -> has_match m = true /\ mr_end m = ei) /\
    outside_l ch = map t_id (slice_raw ts 0 si) ++ (if has_match m then outside_l matched else [])
                   ++ map t_id head ++ map t_id (slice_raw ts ei n).
Proof.
  intros Hne Hwf Hsi n si ei.
  destruct (root_parse_shape ts m Hne Hwf Hsi) as (matched & Happ & Hleaves & Hno & Hleft & Hfull).
  fold n si ei in Hno, Hleft, Hfull.
  assert (He : mr_end m <= ei).
  { unfold wf_root in Hwf. repeat rewrite andb_true_iff in Hwf. destruct Hwf as [[_ _] He]. now apply N.leb_le in He. }
  destruct (idx_bounds ts) as [Hse Hen]. fold si ei n in Hse, Hen.
  exists matched.
  destruct (has_match m) eqn:Ehm.
  - destruct (N.eq_dec (mr_end m) ei) as [Hee|Hlt].
    + eexists. exists [], []. split; [exact Happ|]. split; [apply Hfull; auto|].
      split; [now rewrite Hee, slice_raw_same|]. split; [reflexivity|]. split; [auto|].
      rewrite !outside_l_app, !outside_tok_trees. reflexivity.
    + destruct (Hleft eq_refl ltac:(lia)) as (head & tail & Hht & Hnc & Htail & Hrp).
      eexists. exists head, tail. split; [exact Happ|]. split; [exact Hrp|].
      split; [exact Hht|]. split; [exact Hnc|]. split; [intros ->; contradiction|].
      rewrite !outside_l_app, !outside_tok_trees, outside_unparsable, app_nil_r.
      now rewrite <- !app_assoc.
  - eexists. exists [], (slice_raw ts si ei). split; [exact Happ|]. split; [apply Hno; reflexivity|].
    split; [reflexivity|]. split; [reflexivity|]. split.
    + intros Heq. assert (Hl : length (slice_raw ts si ei) = N.to_nat (ei - si)) by (apply slice_raw_length; lia).
      rewrite Heq in Hl. cbn in Hl. lia.
    + rewrite !outside_l_app, !outside_tok_trees, outside_unparsable. reflexivity.
Qed.

Lemma ids_all ts : ids ts 0 (N.of_nat (length ts)) = map t_id ts.
Proof. unfold ids. now rewrite slice_raw_all. Qed.

(** [root_parse] never loses a token: whatever well-formed match the grammar returns, the result
    is a File node whose non-meta leaves are exactly all the tokens, in order. *)
Theorem root_parse_covers ts m :
  ts <> [] -> wf_root ts m = true ->
  exists ch, root_parse ts (GOk m) = Some (POk (Node K_File ch)) /\ leaves_l ch = map t_id ts.
Proof.
  intros Hne Hwf.
  destruct (N.eq_dec (start_idx ts) (end_idx ts)) as [Heq|Hsi].
  - exists (map tok_tree ts). unfold root_parse, root_parse_gen. rewrite Heq, N.eqb_refl.
    rewrite node_of_some by (now apply map_nonempty). split; [reflexivity | apply leaves_tok_trees].
  - destruct (root_parse_shape ts m Hne Hwf Hsi) as (matched & Happ & Hleaves & Hno & Hleft & Hfull).
    destruct (idx_bounds ts) as [Hse Hen].
    pose proof Hwf as Hwf'. unfold wf_root in Hwf'. repeat rewrite andb_true_iff in Hwf'.
    destruct Hwf' as [[Hwfm Hs] He]. apply N.eqb_eq in Hs. apply N.leb_le in He.
    assert (Hsm : mr_start m <= mr_end m).
    { apply wf_unfold in Hwfm as [_ Hn]. now destruct (wn_span _ _ _ _ _ _ _ Hn). }
    assert (Hsum : forall mid, mid = ids ts (start_idx ts) (end_idx ts) ->
              leaves_l (map tok_tree (slice_raw ts 0 (start_idx ts))) ++ mid ++
              leaves_l (map tok_tree (slice_raw ts (end_idx ts) (N.of_nat (length ts)))) = map t_id ts).
    { intros mid ->. rewrite !leaves_tok_trees. fold (ids ts 0 (start_idx ts)).
      fold (ids ts (end_idx ts) (N.of_nat (length ts))).
      rewrite !ids_app by lia. apply ids_all. }
    destruct (has_match m) eqn:Hhm.
    + destruct (N.eq_dec (mr_end m) (end_idx ts)) as [Hee|Hee].
      * eexists. split; [apply Hfull; auto|]. rewrite !leaves_l_app. apply Hsum. now rewrite Hleaves, Hee.
      * destruct Hleft as (head & tail & Hht & _ & _ & Hrp); [reflexivity | lia|].
        eexists. split; [exact Hrp|]. rewrite !leaves_l_app. apply Hsum.
        rewrite Hleaves, leaves_tok_trees. cbn [leaves_l flat_map leaves]. rewrite app_nil_r.
        fold (leaves_l (map tok_tree tail)). rewrite leaves_tok_trees, <- map_app, Hht.
        fold (ids ts (mr_end m) (end_idx ts)). apply ids_app; lia.
    + eexists. split; [apply Hno; reflexivity|]. rewrite !leaves_l_app. apply Hsum.
      cbn [leaves_l flat_map leaves]. rewrite app_nil_r. fold (leaves_l (map tok_tree (slice_raw ts (start_idx ts) (end_idx ts)))).
      now rewrite leaves_tok_trees.
Qed.

(** a grammar error is passed on as the parse error (no tree with missing tokens); a file
    without code tokens does not reach the grammar and keeps all its tokens *)
Theorem root_parse_err ts :
  ts <> [] ->
  (start_idx ts <> end_idx ts /\ root_parse ts GErr = Some PErr) \/
  (start_idx ts = end_idx ts /\ root_parse ts GErr = Some (POk (Node K_File (map tok_tree ts)))
   /\ leaves_l (map tok_tree ts) = map t_id ts).
Proof.
  intros Hne. unfold root_parse, root_parse_gen. destruct (N.eqb_spec (start_idx ts) (end_idx ts)) as [Heq|Hsi].
  - right. rewrite node_of_some by (now apply map_nonempty). repeat split; auto. apply leaves_tok_trees.
  - left. split; [exact Hsi | reflexivity].
Qed.

(** "each exactly once": distinct token ids give duplicate-free leaves *)
Corollary root_parse_nodup ts m ch :
  ts <> [] -> wf_root ts m = true -> NoDup (map t_id ts) ->
  root_parse ts (GOk m) = Some (POk (Node K_File ch)) -> NoDup (leaves_l ch) /\ leaves_l ch = map t_id ts.
Proof.
  intros Hne Hwf Hnd Hrp. destruct (root_parse_covers ts m Hne Hwf) as (ch' & Hrp' & Hl).
  rewrite Hrp in Hrp'. injection Hrp' as ->. now rewrite Hl.
Qed.

(** ** non-vacuity: concrete well-formed matches exercising every branch *)
Definition ex_toks : list tok :=
  [mkTok 10 5 false; mkTok 11 7 true; mkTok 12 5 false; mkTok 13 8 true; mkTok 14 5 false;
   mkTok 15 9 true; mkTok 16 6 false; mkTok 17 3 false].
(* SELECT-like: node 40 over tokens 1..4 with an Indent at 2, a Newtype child on token 1, an
   unsorted pair of children, a Dedent at the end; tokens 4..6 are left unmatched *)
Definition ex_mr : mr :=
  MR 1 4 (Some (MKind 40)) [(2, 100); (4, 101)]
     [MR 3 4 (Some (MKind 41)) [] [MR 3 4 (Some (MNewtype 50)) [] []];
      MR 1 2 (Some (MNewtype 51)) [] []].

Example ex_wf_root : wf_root ex_toks ex_mr = true.
Proof. vm_compute. reflexivity. Qed.

Example ex_root_parse :
  root_parse ex_toks (GOk ex_mr) =
  Some (POk (Node K_File
    [Tok 10 5;
     Node 40 [Tok 11 51; Meta 100 2; Tok 12 5; Node 41 [Tok 13 50]; Meta 101 4];
     Tok 14 5;
     Node K_Unparsable [Tok 15 9];
     Tok 16 6; Tok 17 3])).
Proof. vm_compute. reflexivity. Qed.

(** before the repair ([root_parse_legacy]: the leftover goes into a second File node) the equation of
    [root_parse_unmatched_flagged] fails: the unmatched code token 15 is outside every unparsable node *)
Lemma root_parse_legacy_refuted :
  exists ts m ch,
    ts <> [] /\ wf_root ts m = true /\ has_match m = true /\ mr_end m < end_idx ts /\
    root_parse_legacy ts (GOk m) = Some (POk (Node K_File ch)) /\
    outside_l ch = map t_id ts.
Proof.
  exists ex_toks, ex_mr. eexists. split; [discriminate|]. split; [vm_compute; reflexivity|].
  split; [reflexivity|]. split; [vm_compute; reflexivity|]. split; vm_compute; reflexivity.
Qed.

Example ex_root_parse_flagged :
  exists ch, root_parse ex_toks (GOk ex_mr) = Some (POk (Node K_File ch)) /\
             outside_l ch = [10; 11; 12; 13; 14; 16; 17] /\ ~ In 15 (outside_l ch).
Proof. eexists. split; [vm_compute; reflexivity|]. split; [vm_compute; reflexivity|]. vm_compute. intuition discriminate. Qed.

Example ex_unparsable :
  wf_root ex_toks (MR 1 1 None [] []) = true /\
  root_parse ex_toks (GOk (MR 1 1 None [] [])) =
  Some (POk (Node K_File [Tok 10 5; Node K_Unparsable [Tok 11 7; Tok 12 5; Tok 13 8; Tok 14 5; Tok 15 9];
                          Tok 16 6; Tok 17 3])).
Proof. vm_compute. split; reflexivity. Qed.

(** a match that is not well formed really loses a token: the hypothesis is not decorative *)
Example ex_not_wf_drops :
  wf_root ex_toks (MR 2 6 (Some (MKind 40)) [] []) = false /\
  exists ch, root_parse ex_toks (GOk (MR 2 6 (Some (MKind 40)) [] [])) = Some (POk (Node K_File ch))
             /\ leaves_l ch <> map t_id ex_toks.
Proof. split; [reflexivity|]. eexists. split; [vm_compute; reflexivity|]. vm_compute. discriminate. Qed.

Example ex_append_wrap :
  let a := MR 1 2 (Some (MNewtype 51)) [] [] in
  let b := MR 3 4 None [(3, 100)] [MR 3 4 (Some (MNewtype 50)) [] []] in
  wf 8 a = true /\ wf 8 b = true /\ mr_end a <= mr_start b /\
  append a b = MR 1 4 None [(3, 100)] [a; MR 3 4 (Some (MNewtype 50)) [] []] /\
  wrap (append a b) (MKind 40) = MR 1 4 (Some (MKind 40)) [(3, 100)] [a; MR 3 4 (Some (MNewtype 50)) [] []].
Proof. vm_compute. repeat split; try reflexivity; discriminate. Qed.
