(** Proofs about the model of [MatchResult::{apply, append, wrap}] and [root_parse]. *)
From Coq Require Import Sorting.Sorted.
From Sq Require Import Base.Bytes Apply.Model.

Arguments N.add : simpl never.
Arguments N.sub : simpl never.
Arguments N.eqb : simpl never.
Arguments N.ltb : simpl never.
Arguments N.leb : simpl never.
Arguments N.of_nat : simpl never.
Arguments N.to_nat : simpl never.

(** ** slices *)
Definition ids (ts : list tok) (a b : N) : list N := map t_id (slice_raw ts a b).

Lemma firstn_plus {A} (n m : nat) (l : list A) :
  firstn (n + m) l = firstn n l ++ firstn m (skipn n l).
Proof.
  revert l; induction n as [|n IH]; intros l; [reflexivity|].
  destruct l as [|x l]; cbn [plus firstn skipn app].
  - now rewrite firstn_nil.
  - now rewrite IH.
Qed.

Lemma skipn_skipn' {A} (n m : nat) (l : list A) : skipn m (skipn n l) = skipn (n + m) l.
Proof.
  revert l; induction n as [|n IH]; intros l; [reflexivity|].
  destruct l as [|x l]; cbn [plus skipn]; [now rewrite skipn_nil | apply IH].
Qed.

Lemma slice_raw_app {A} (ts : list A) a b c :
  a <= b -> b <= c -> slice_raw ts a b ++ slice_raw ts b c = slice_raw ts a c.
Proof.
  intros Hab Hbc. unfold slice_raw.
  replace (N.to_nat (c - a)) with (N.to_nat (b - a) + N.to_nat (c - b))%nat by lia.
  rewrite firstn_plus. f_equal. rewrite skipn_skipn'. do 2 f_equal. lia.
Qed.

Lemma slice_raw_length {A} (ts : list A) a b :
  a <= b -> b <= N.of_nat (length ts) -> length (slice_raw ts a b) = N.to_nat (b - a).
Proof.
  intros Hab Hb. unfold slice_raw. rewrite firstn_length, skipn_length. lia.
Qed.

Lemma slice_raw_same {A} (ts : list A) a : slice_raw ts a a = [].
Proof. unfold slice_raw. now rewrite N.sub_diag. Qed.

Lemma slice_some {A} (ts : list A) a b :
  a <= b -> b <= N.of_nat (length ts) -> slice ts a b = Some (slice_raw ts a b).
Proof.
  intros Hab Hb. unfold slice.
  destruct (N.leb_spec a b); [|lia]. destruct (N.leb_spec b (N.of_nat (length ts))); [|lia]. reflexivity.
Qed.

Lemma ids_app ts a b c : a <= b -> b <= c -> ids ts a b ++ ids ts b c = ids ts a c.
Proof. intros. unfold ids. now rewrite <- map_app, slice_raw_app. Qed.

Lemma ids_same ts a : ids ts a a = [].
Proof. unfold ids. now rewrite slice_raw_same. Qed.

Lemma leaves_l_app a b : leaves_l (a ++ b) = leaves_l a ++ leaves_l b.
Proof. unfold leaves_l. apply flat_map_app. Qed.

Lemma leaves_tok_trees l : leaves_l (map tok_tree l) = map t_id l.
Proof. induction l as [|t l IH]; [reflexivity|]. cbn. now rewrite <- IH. Qed.

Lemma slice_raw_all {A} (ts : list A) : slice_raw ts 0 (N.of_nat (length ts)) = ts.
Proof.
  unfold slice_raw. rewrite N.sub_0_r, Nat2N.id. cbn [N.to_nat skipn]. apply firstn_all.
Qed.

(** ** sorted keys *)
Lemma insert_key_in k l x : In x (insert_key k l) <-> x = k \/ In x l.
Proof.
  induction l as [|y l IH]; cbn [insert_key].
  - cbn. intuition.
  - destruct (N.ltb_spec k y).
    + cbn [In]. intuition.
    + destruct (N.eqb_spec k y).
      * subst. cbn [In]. intuition.
      * cbn [In]. rewrite IH. intuition.
Qed.

Lemma insert_key_sorted k l : StronglySorted N.lt l -> StronglySorted N.lt (insert_key k l).
Proof.
  induction l as [|y l IH]; cbn [insert_key]; intros Hs.
  - constructor; constructor.
  - destruct (N.ltb_spec k y).
    + constructor; [exact Hs|]. constructor; [exact H|].
      apply StronglySorted_inv in Hs as [_ Hf].
      eapply Forall_impl; [|exact Hf]. intros; cbn in *; lia.
    + destruct (N.eqb_spec k y); [exact Hs|].
      apply StronglySorted_inv in Hs as [Hs Hf].
      constructor; [now apply IH|].
      apply Forall_forall. intros x Hx. apply insert_key_in in Hx as [->|Hx]; [lia|].
      rewrite Forall_forall in Hf. now apply Hf.
Qed.

Lemma sort_keys_in l x : In x (sort_keys l) <-> In x l.
Proof.
  induction l as [|y l IH]; cbn [sort_keys fold_right]; [reflexivity|].
  fold (sort_keys l). rewrite insert_key_in, IH. cbn [In]. intuition.
Qed.

Lemma sort_keys_sorted l : StronglySorted N.lt (sort_keys l).
Proof.
  induction l as [|y l IH]; cbn [sort_keys fold_right]; [constructor|].
  now apply insert_key_sorted.
Qed.

(** ** induction principle for the nested type *)
Fixpoint mr_ind' (P : mr -> Prop)
  (H : forall s e m ins ch, Forall P ch -> P (MR s e m ins ch)) (x : mr) : P x :=
  match x with
  | MR s e m ins ch =>
      H s e m ins ch
        ((fix go (l : list mr) : Forall P l :=
            match l with
            | [] => Forall_nil P
            | c :: l' => Forall_cons c (mr_ind' P H c) (go l')
            end) ch)
  end.

(** ** the well-formedness conditions as propositions *)
Record WFnode (n s e : N) (m : option matched) (ins : list (N * N)) (sp : list span_t) : Prop := {
  wn_span : s <= e /\ e <= n;
  wn_nest : forall c, In c sp -> s <= fst c /\ fst c <= snd c /\ snd c <= e;
  wn_disj : forall c c', In c sp -> In c' sp -> fst c < fst c' -> snd c <= fst c';
  wn_ins_out : forall c q, In c sp -> In q ins -> fst c < fst q -> snd c <= fst q;
  wn_chain : chain_ok sp = true;
  wn_ins : forall q, In q ins -> s <= fst q /\ fst q <= e;
  wn_nonempty : ins = [] \/ 0 < n;
  wn_matched : match m with
               | None => True
               | Some (MKind _) => s <> e \/ ins <> []
               | Some (MNewtype _) => e = s + 1 /\ ins = [] /\ sp = []
               end
}.

Lemma is_empty_true {A} (l : list A) : is_empty l = true <-> l = [].
Proof. destruct l; cbn; intuition congruence. Qed.

Lemma wf_node_WFnode n s e m ins sp : wf_node n s e m ins sp = true <-> WFnode n s e m ins sp.
Proof.
  unfold wf_node. repeat rewrite andb_true_iff. split.
  - intros [[[[[[[[H1 H2] H3] H4] H5] H6] H7] H8] H9].
    rewrite forallb_forall in H3, H4, H5, H7.
    split.
    + apply N.leb_le in H1, H2. lia.
    + intros c Hc. specialize (H3 c Hc). repeat rewrite andb_true_iff in H3.
      destruct H3 as [[Ha Hb] Hc']. apply N.leb_le in Ha, Hb, Hc'. lia.
    + intros c c' Hc Hc' Hlt. specialize (H4 c Hc). rewrite forallb_forall in H4.
      specialize (H4 c' Hc'). destruct (N.ltb_spec (fst c) (fst c')); [|lia].
      cbn in H4. now apply N.leb_le in H4.
    + intros c q Hc Hq Hlt. specialize (H5 c Hc). rewrite forallb_forall in H5.
      specialize (H5 q Hq). destruct (N.ltb_spec (fst c) (fst q)); [|lia].
      cbn in H5. now apply N.leb_le in H5.
    + exact H6.
    + intros q Hq. specialize (H7 q Hq). rewrite andb_true_iff in H7. destruct H7 as [Ha Hb].
      apply N.leb_le in Ha, Hb. lia.
    + apply orb_true_iff in H8 as [H8|H8]; [left; now apply is_empty_true | right; now apply N.ltb_lt in H8].
    + destruct m as [[k|k]|]; [| |exact I].
      * apply orb_true_iff in H9 as [H9|H9].
        -- left. apply negb_true_iff in H9. now apply N.eqb_neq in H9.
        -- right. apply negb_true_iff in H9. intros ->. discriminate.
      * repeat rewrite andb_true_iff in H9. destruct H9 as [[Ha Hb] Hc].
        apply N.eqb_eq in Ha. apply is_empty_true in Hb, Hc. auto.
  - intros [[H1 H2] H3 H4 H5 H6 H7 H8 H9].
    repeat split.
    + now apply N.leb_le.
    + now apply N.leb_le.
    + apply forallb_forall. intros c Hc. destruct (H3 c Hc) as (Ha & Hb & Hc').
      repeat rewrite andb_true_iff. repeat split; now apply N.leb_le.
    + apply forallb_forall. intros c Hc. apply forallb_forall. intros c' Hc'.
      destruct (N.ltb_spec (fst c) (fst c')); [|reflexivity]. cbn. apply N.leb_le. now apply H4.
    + apply forallb_forall. intros c Hc. apply forallb_forall. intros q Hq.
      destruct (N.ltb_spec (fst c) (fst q)); [|reflexivity]. cbn. apply N.leb_le. now apply H5.
    + exact H6.
    + apply forallb_forall. intros q Hq. destruct (H7 q Hq). rewrite andb_true_iff. split; now apply N.leb_le.
    + apply orb_true_iff. destruct H8 as [->|H8]; [now left | right; now apply N.ltb_lt].
    + destruct m as [[k|k]|]; [| |reflexivity].
      * apply orb_true_iff. destruct H9 as [H9|H9].
        -- left. apply negb_true_iff. now apply N.eqb_neq.
        -- right. destruct ins; [congruence|reflexivity].
      * destruct H9 as (-> & -> & ->). now rewrite N.eqb_refl.
Qed.

(** [chain_ok] in the form used below: if a later child starts where an earlier one starts,
    the earlier one is empty. *)
Lemma chain_ok_cons c l :
  chain_ok (c :: l) = true <-> (forall c', In c' l -> fst c = fst c' -> snd c = fst c) /\ chain_ok l = true.
Proof.
  cbn [chain_ok]. rewrite andb_true_iff, forallb_forall. split; intros [H1 H2]; (split; [|exact H2]).
  - intros c' Hc' Heq. specialize (H1 c' Hc'). destruct (N.eqb_spec (fst c) (fst c')); [|contradiction].
    cbn in H1. now apply N.eqb_eq in H1.
  - intros c' Hc'. destruct (N.eqb_spec (fst c) (fst c')); [|reflexivity]. cbn. apply N.eqb_eq. now apply (H1 c').
Qed.

Lemma chain_ok_filter {B} (f : B -> span_t) (g : B -> bool) (l : list B) :
  chain_ok (map f l) = true -> chain_ok (map f (filter g l)) = true.
Proof.
  induction l as [|x l IH]; [auto|]. cbn [map filter]. intros H.
  apply chain_ok_cons in H as [H1 H2]. destruct (g x); [|auto].
  cbn [map]. apply chain_ok_cons. split; [|auto].
  intros c' Hc'. apply H1. apply in_map_iff in Hc' as (y & <- & Hy).
  apply in_map. apply filter_In in Hy. tauto.
Qed.

Lemma nonempty_in {A} (l : list A) : l <> [] -> exists x, In x l.
Proof. destruct l as [|x l]; [congruence|]. intros _. exists x. now left. Qed.

(** ** apply: one position *)
Section Assemble.
  Variable ts : list tok.
  Let n := N.of_nat (length ts).

  Definition good_r (r : child_r) : Prop :=
    exists l, snd r = Some l /\ leaves_l l = ids ts (fst (fst r)) (snd (fst r)).

  Lemma run_children_spec p e :
    forall ds cur out,
      Forall good_r ds ->
      Forall (fun d => fst (fst d) = p /\ p <= snd (fst d) /\ snd (fst d) <= e) ds ->
      chain_ok (map fst ds) = true ->
      (ds <> [] -> cur = p) -> p <= cur -> cur <= e -> e <= n ->
      exists cur' out',
        run_children ds cur out = Some (cur', out') /\
        cur <= cur' /\ cur' <= e /\
        (cur' = cur \/ exists d, In d ds /\ cur' = snd (fst d)) /\
        leaves_l out' = leaves_l out ++ ids ts cur cur' /\
        (forall t, In t out -> In t out').
  Proof.
    induction ds as [|d ds IH]; intros cur out Hg Hd Hc Hcur Hp He Hn.
    - exists cur, out. cbn. rewrite ids_same, app_nil_r. repeat split; auto; lia.
    - destruct d as [[cs ce] r].
      inversion Hg as [|? ? Hg1 Hg2]; subst. inversion Hd as [|? ? Hd1 Hd2]; subst.
      cbn [fst snd] in Hd1. destruct Hd1 as (-> & Hpe & Hee).
      destruct Hg1 as (l & Hr & Hl). cbn [fst snd] in Hr, Hl. subst r.
      cbn [map] in Hc. apply chain_ok_cons in Hc as [Hc1 Hc2]. cbn [fst snd] in Hc1.
      assert (cur = p) by (apply Hcur; discriminate). subst cur.
      cbn [run_children].
      destruct (IH ce (out ++ l) Hg2 Hd2 Hc2) as (cur' & out' & Hrun & Hle & Hle' & Hwhich & Hleaves & Hincl); try lia.
      { intros Hne. destruct ds as [|d' ds']; [congruence|].
        inversion Hd2 as [|? ? Hd' _]; subst. destruct Hd' as (Hd' & _).
        apply (Hc1 (fst d')); [now left | now symmetry]. }
      exists cur', out'. repeat split; auto; try lia.
      + destruct Hwhich as [->|(d & Hin & ->)]; right.
        * exists (p, ce, Some l). split; [now left | reflexivity].
        * exists d. split; [now right | reflexivity].
      + rewrite Hleaves, leaves_l_app, Hl, <- app_assoc. f_equal. apply ids_app; lia.
      + intros t Ht. apply Hincl. apply in_or_app. now left.
  Qed.

  Lemma metas_at_spec p ins :
    (ins = [] \/ 0 < n) -> p <= n ->
    exists ms, metas_at n p ins = Some ms /\ leaves_l ms = [] /\
               (forall q, In q ins -> fst q = p -> In (Meta (snd q) p) ms).
  Proof.
    intros Hne Hp. unfold metas_at.
    set (here := filter (fun i => fst i =? p) ins).
    assert (Hhere : forall q, In q ins -> fst q = p -> In q here).
    { intros q Hq Hqp. apply filter_In. split; [exact Hq | now apply N.eqb_eq]. }
    destruct here as [|h here'] eqn:Eh.
    - exists []. cbn. split; [reflexivity|]. split; [reflexivity|]. intros q Hq Hqp. destruct (Hhere q Hq Hqp).
    - cbn [is_empty].
      assert (Hpos : 0 < n).
      { destruct Hne as [->|]; [|assumption]. subst here. cbn in Eh. discriminate. }
      assert (Hok : point_ok n p = true).
      { unfold point_ok. destruct (N.ltb_spec p n); [reflexivity|]. cbn.
        apply andb_true_iff. split; [apply N.leb_le | apply N.ltb_lt]; lia. }
      rewrite Hok. eexists. split; [reflexivity|]. split.
      + clear. induction (h :: here') as [|x l IH]; [reflexivity|]. cbn. exact IH.
      + intros q Hq Hqp. specialize (Hhere q Hq Hqp).
        change (In (Meta (snd q) p) (map (fun i => Meta (snd i) p) (h :: here'))).
        now apply (in_map (fun i => Meta (snd i) p)).
  Qed.

  Variables (s e : N) (m : option matched) (ins : list (N * N)) (rs : list child_r).
  Hypothesis Hgood : Forall good_r rs.
  Hypothesis Hwf : WFnode n s e m ins (map fst rs).

  Definition KP (k : N) : Prop :=
    (exists q, In q ins /\ fst q = k) \/ (exists r, In r rs /\ fst (fst r) = k).

  Lemma KP_bounds k : KP k -> s <= k /\ k <= e.
  Proof.
    intros [(q & Hq & <-)|(r & Hr & <-)].
    - now apply (wn_ins _ _ _ _ _ _ Hwf).
    - destruct (wn_nest _ _ _ _ _ _ Hwf (fst r)) as (? & ? & ?); [now apply in_map|]. lia.
  Qed.

  Lemma step_spec p cur out :
    KP p -> s <= cur -> cur <= p ->
    exists cur' out',
      step ts ins rs (cur, out) p = Some (cur', out') /\
      p <= cur' /\ cur' <= e /\
      (forall k, KP k -> p < k -> cur' <= k) /\
      leaves_l out' = leaves_l out ++ ids ts cur cur' /\
      (forall t, In t out -> In t out') /\
      (forall q, In q ins -> fst q = p -> In (Meta (snd q) p) out').
  Proof.
    intros Hk Hs Hcp.
    destruct (KP_bounds p Hk) as [Hsp Hpe].
    destruct (wn_span _ _ _ _ _ _ Hwf) as [Hse Hen].
    unfold step. destruct (N.ltb_spec p cur) as [|_]; [lia|].
    assert (Hgap : exists gap, (if cur <? p then slice ts cur p else Some []) = Some gap /\
                               map t_id gap = ids ts cur p).
    { destruct (N.ltb_spec cur p).
      - rewrite slice_some by (fold n; lia). eexists; split; reflexivity.
      - assert (cur = p) by lia. subst. exists []. now rewrite ids_same. }
    destruct Hgap as (gap & -> & Hgap).
    destruct (metas_at_spec p ins (wn_nonempty _ _ _ _ _ _ Hwf)) as (ms & Hmseq & Hms & Hmeta); [lia|].
    unfold n in Hmseq. rewrite Hmseq.
    set (ds := filter (fun r => fst (fst r) =? p) rs).
    destruct (run_children_spec p e ds p ((out ++ map tok_tree gap) ++ ms)) as
      (cur' & out' & Hrun & Hle & Hle' & Hwhich & Hleaves & Hincl); auto; try lia.
    { rewrite Forall_forall in *. intros d Hd. apply Hgood. apply filter_In in Hd. tauto. }
    { apply Forall_forall. intros d Hd. apply filter_In in Hd as [Hd Hdp]. apply N.eqb_eq in Hdp.
      destruct (wn_nest _ _ _ _ _ _ Hwf (fst d)) as (? & ? & ?); [now apply in_map|]. lia. }
    { apply chain_ok_filter. exact (wn_chain _ _ _ _ _ _ Hwf). }
    exists cur', out'. rewrite Hrun. repeat split; auto.
    - intros k Hkk Hlt. destruct Hwhich as [->|(d & Hd & ->)]; [lia|].
      apply filter_In in Hd as [Hd Hdp]. apply N.eqb_eq in Hdp.
      destruct Hkk as [(q & Hq & <-)|(r & Hr & <-)].
      + apply (wn_ins_out _ _ _ _ _ _ Hwf (fst d) q); [now apply in_map | assumption | lia].
      + apply (wn_disj _ _ _ _ _ _ Hwf (fst d) (fst r)); [now apply in_map | now apply in_map | lia].
    - rewrite Hleaves, !leaves_l_app, Hms, app_nil_r, leaves_tok_trees, Hgap, <- app_assoc.
      f_equal. apply ids_app; lia.
    - intros t Ht. apply Hincl. apply in_or_app. left. apply in_or_app. now left.
    - intros q Hq Hqp. apply Hincl. apply in_or_app. right. now apply Hmeta.
  Qed.

  Lemma fold_spec :
    forall ks cur out,
      StronglySorted N.lt ks -> Forall KP ks -> Forall (fun k => cur <= k) ks ->
      s <= cur -> cur <= e ->
      exists cur' out',
        fold_opt (step ts ins rs) ks (cur, out) = Some (cur', out') /\
        cur <= cur' /\ cur' <= e /\
        leaves_l out' = leaves_l out ++ ids ts cur cur' /\
        (forall t, In t out -> In t out') /\
        (forall q, In q ins -> In (fst q) ks -> In (Meta (snd q) (fst q)) out').
  Proof.
    induction ks as [|p ks IH]; intros cur out Hsort Hkp Hle Hs He.
    - exists cur, out. cbn. rewrite ids_same, app_nil_r. repeat split; auto; try lia.
    - apply StronglySorted_inv in Hsort as [Hsort Hlt].
      inversion Hkp as [|? ? Hkp1 Hkp2]; subst. inversion Hle as [|? ? Hle1 Hle2]; subst.
      destruct (step_spec p cur out Hkp1 Hs Hle1) as
        (cur1 & out1 & Hstep & Hp1 & He1 & Hnext & Hleaves1 & Hincl1 & Hmeta1).
      cbn [fold_opt]. rewrite Hstep.
      destruct (IH cur1 out1 Hsort Hkp2) as (cur' & out' & Hfold & Hc' & He' & Hleaves & Hincl & Hmeta); try lia.
      { rewrite Forall_forall in *. intros k Hk. apply Hnext; [now apply Hkp2 | now apply Hlt]. }
      exists cur', out'. rewrite Hfold. repeat split; auto; try lia.
      + rewrite Hleaves, Hleaves1, <- app_assoc. f_equal. apply ids_app; lia.
      + intros q Hq [Hqp|Hqk]; [|now apply Hmeta].
        apply Hincl. rewrite <- Hqp. apply Hmeta1; auto.
  Qed.

  Lemma assemble_spec :
    exists r, assemble ts s e m ins rs = Some r /\ leaves_l r = ids ts s e.
  Proof.
    destruct (wn_span _ _ _ _ _ _ Hwf) as [Hse Hen].
    unfold assemble.
    set (keys := sort_keys (map fst ins ++ map (fun r => fst (fst r)) rs)).
    assert (Hkeys : forall k, In k keys <-> KP k).
    { intros k. unfold keys. rewrite sort_keys_in, in_app_iff, !in_map_iff. unfold KP.
      split; intros [(x & Hx & Hin)|(x & Hx & Hin)]; [left|right|left|right]; exists x; auto. }
    destruct (fold_spec keys s []) as (cur & out & Hfold & Hc & Hce & Hleaves & _ & Hmeta); try lia.
    { apply sort_keys_sorted. }
    { apply Forall_forall. intros k Hk. now apply Hkeys. }
    { apply Forall_forall. intros k Hk. apply Hkeys in Hk. now apply KP_bounds in Hk. }
    rewrite Hfold.
    assert (Htail : exists tail, (if cur <? e then slice ts cur e else Some []) = Some tail /\
                                 map t_id tail = ids ts cur e).
    { destruct (N.ltb_spec cur e).
      - rewrite slice_some by (fold n; lia). eexists; split; reflexivity.
      - assert (cur = e) by lia. subst. exists []. now rewrite ids_same. }
    destruct Htail as (tail & -> & Htail).
    assert (Hall : leaves_l (out ++ map tok_tree tail) = ids ts s e).
    { rewrite leaves_l_app, Hleaves, leaves_tok_trees, Htail. cbn [leaves_l flat_map app]. apply ids_app; lia. }
    pose proof (wn_matched _ _ _ _ _ _ Hwf) as Hm.
    destruct m as [[k|k]|].
    - (* node *)
      assert (Hne : out ++ map tok_tree tail <> []).
      { destruct Hm as [Hne|Hne].
        - intros Heq. rewrite Heq in Hall. cbn in Hall.
          assert (length (ids ts s e) = N.to_nat (e - s)).
          { unfold ids. rewrite map_length. apply slice_raw_length; [lia | exact Hen]. }
          rewrite <- Hall in H. cbn in H. lia.
        - destruct (nonempty_in ins Hne) as [q Hq].
          assert (In (Meta (snd q) (fst q)) out).
          { apply Hmeta; [exact Hq|]. apply Hkeys. left. exists q. split; [exact Hq | reflexivity]. }
          intros Heq. apply app_eq_nil in Heq as [-> _]. contradiction. }
      destruct (out ++ map tok_tree tail) as [|t l] eqn:Eo; [congruence|].
      cbn [is_empty]. eexists; split; [reflexivity|].
      cbn [leaves_l flat_map leaves]. rewrite app_nil_r. exact Hall.
    - (* newtype *)
      destruct Hm as (He1 & Hi & Hsp).
      assert (Hrs : rs = []) by (destruct rs; [reflexivity | discriminate]).
      unfold keys in Hfold. rewrite Hi, Hrs in Hfold. cbn in Hfold. injection Hfold as <- <-.
      assert (Hlen : length tail = 1%nat).
      { rewrite <- (map_length t_id), Htail. unfold ids. rewrite map_length, slice_raw_length by (fold n; lia). lia. }
      destruct tail as [|t [|? ?]]; try discriminate.
      cbn. eexists; split; [reflexivity|]. cbn. rewrite <- Hall. reflexivity.
    - eexists; split; [reflexivity | exact Hall].
  Qed.
End Assemble.

(** ** apply *)
Theorem apply_leaves ts x :
  wf (N.of_nat (length ts)) x = true ->
  exists r, apply ts x = Some r /\ leaves_l r = ids ts (mr_start x) (mr_end x).
Proof.
  induction x as [s e m ins ch IH] using mr_ind'. cbn [wf apply mr_start mr_end].
  rewrite andb_true_iff, forallb_forall. intros [Hch Hnode].
  apply wf_node_WFnode in Hnode.
  apply assemble_spec.
  - apply Forall_forall. intros r Hr. apply in_map_iff in Hr as (c & <- & Hc).
    rewrite Forall_forall in IH. destruct (IH c Hc (Hch c Hc)) as (l & Hl & Hleaves).
    exists l. split; [exact Hl | exact Hleaves].
  - rewrite map_map. cbn [fst]. exact Hnode.
Qed.
