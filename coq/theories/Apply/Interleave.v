(** Where [apply] puts the metas: the complete leaf sequence of the tree (tokens and metas) is
    the token sequence of the span with every meta [Meta k p] sitting exactly at the boundary
    before token [p].  This is what makes meta positions ([get_point_pos_at_idx]) contiguous with
    their neighbours (C12) and refines [apply_leaves] (C02). *)
From Coq Require Import Sorting.Sorted.
From Sq Require Import Base.Bytes Apply.Model Apply.Proofs.

Arguments N.add : simpl never.
Arguments N.sub : simpl never.
Arguments N.eqb : simpl never.
Arguments N.ltb : simpl never.
Arguments N.leb : simpl never.
Arguments N.of_nat : simpl never.
Arguments N.to_nat : simpl never.

Inductive item := ITok (id : N) | IMeta (k p : N).

Fixpoint obs (t : tree) : list item :=
  match t with
  | Tok i _ => [ITok i]
  | Meta k p => [IMeta k p]
  | Node _ ch => flat_map obs ch
  end.
Definition obs_l (l : list tree) : list item := flat_map obs l.

(** [IL ts a b l]: [l] is tokens [a..b) of [ts], in order, with metas carrying index [p]
    inserted just before token [p] (or at the very end with [p = b]). *)
Inductive IL (ts : list tok) : N -> N -> list item -> Prop :=
| IL_nil a : IL ts a a []
| IL_meta a b k l : IL ts a b l -> IL ts a b (IMeta k a :: l)
| IL_tok a b t l : nth_error ts (N.to_nat a) = Some t -> IL ts (a + 1) b l -> IL ts a b (ITok (t_id t) :: l).

Lemma IL_le ts a b l : IL ts a b l -> a <= b.
Proof. induction 1; lia. Qed.

Lemma IL_app ts a b c l1 l2 : IL ts a b l1 -> IL ts b c l2 -> IL ts a c (l1 ++ l2).
Proof. induction 1; intros H2; cbn [app]; [exact H2 | constructor; auto | econstructor; eauto]. Qed.

Lemma obs_l_app a b : obs_l (a ++ b) = obs_l a ++ obs_l b.
Proof. apply flat_map_app. Qed.

Lemma slice_raw_step {A} (ts : list A) a b t :
  a < b -> nth_error ts (N.to_nat a) = Some t -> slice_raw ts a b = t :: slice_raw ts (a + 1) b.
Proof.
  intros Hab Hn. unfold slice_raw.
  replace (N.to_nat (b - a)) with (S (N.to_nat (b - (a + 1)))) by lia.
  replace (N.to_nat (a + 1)) with (S (N.to_nat a)) by lia.
  revert Hn. generalize (N.to_nat a) as k. clear. intros k; revert ts.
  induction k as [|k IH]; intros ts Hn.
  - destruct ts as [|x ts]; [discriminate|]. cbn in Hn. injection Hn as ->. reflexivity.
  - destruct ts as [|x ts]; [discriminate|]. cbn [nth_error] in Hn. cbn [skipn]. now apply IH.
Qed.

Lemma IL_slice ts : forall k a b,
  N.to_nat (b - a) = k -> a <= b -> b <= N.of_nat (length ts) ->
  IL ts a b (obs_l (map tok_tree (slice_raw ts a b))).
Proof.
  induction k as [|k IH]; intros a b Hk Hab Hb.
  - assert (a = b) by lia. subst. rewrite slice_raw_same. constructor.
  - destruct (nth_error ts (N.to_nat a)) as [t|] eqn:En.
    + rewrite (slice_raw_step ts a b t) by (auto; lia). cbn [map obs_l flat_map tok_tree obs app].
      apply IL_tok; [exact En|]. apply IH; lia.
    + apply nth_error_None in En. lia.
Qed.

Lemma IL_metas ts p (here : list (N * N)) : IL ts p p (obs_l (map (fun i => Meta (snd i) p) here)).
Proof. induction here as [|h here IH]; cbn; constructor. exact IH. Qed.

Section AssembleIL.
  Variable ts : list tok.
  Let n := N.of_nat (length ts).

  Definition good_il (r : child_r) : Prop :=
    forall l, snd r = Some l -> IL ts (fst (fst r)) (snd (fst r)) (obs_l l).

  Lemma run_children_il p :
    forall ds cur out cur' out',
      Forall good_il ds ->
      Forall (fun d => fst (fst d) = p) ds ->
      chain_ok (map fst ds) = true ->
      (ds <> [] -> cur = p) ->
      run_children ds cur out = Some (cur', out') ->
      exists l, obs_l out' = obs_l out ++ l /\ IL ts cur cur' l.
  Proof.
    induction ds as [|d ds IH]; intros cur out cur' out' Hg Hd Hc Hcur; cbn [run_children].
    - intros [= <- <-]. exists []. rewrite app_nil_r. split; [reflexivity | constructor].
    - destruct d as [[cs ce] r]. destruct r as [l|]; [|discriminate].
      apply Forall_cons_iff in Hg as [Hg1 Hg2]. apply Forall_cons_iff in Hd as [Hd1 Hd2].
      cbn [fst snd] in Hd1. subst cs.
      cbn [map] in Hc. apply chain_ok_cons in Hc as [Hc1 Hc2]. cbn [fst snd] in Hc1.
      assert (cur = p) by (apply Hcur; discriminate). subst cur.
      intros Hrun.
      destruct (IH ce (out ++ l) cur' out' Hg2 Hd2 Hc2) as (l' & Hobs & Hil); [|exact Hrun|].
      { intros Hne. destruct ds as [|d' ds']; [congruence|].
        apply Forall_cons_iff in Hd2 as [Hd' _].
        apply (Hc1 (fst d')); [now left | now symmetry]. }
      exists (obs_l l ++ l'). rewrite Hobs, obs_l_app, <- app_assoc. split; [reflexivity|].
      eapply IL_app; [|exact Hil]. apply (Hg1 l eq_refl).
  Qed.

  Variables (s e : N) (m : option matched) (ins : list (N * N)) (rs : list child_r) (prod : bool).
  Hypothesis Hgood : Forall (good_r ts) rs.
  Hypothesis Hgood_il : Forall good_il rs.
  Hypothesis Hwf : WFnode n s e m ins (map fst rs) prod.

  Lemma step_il p cur out cur' out' :
    cur <= p -> p <= n ->
    step ts ins rs (cur, out) p = Some (cur', out') ->
    exists l, obs_l out' = obs_l out ++ l /\ IL ts cur cur' l.
  Proof.
    intros Hcp Hpn. unfold step. destruct (N.ltb_spec p cur) as [|_]; [lia|].
    assert (Hgap : forall gap, (if cur <? p then slice ts cur p else Some []) = Some gap ->
                               IL ts cur p (obs_l (map tok_tree gap))).
    { intros gap. destruct (N.ltb_spec cur p).
      - unfold slice. destruct ((cur <=? p) && (p <=? N.of_nat (length ts))); [|discriminate].
        intros [= <-]. eapply IL_slice; [reflexivity | lia | exact Hpn].
      - intros [= <-]. assert (cur = p) by lia. subst. constructor. }
    destruct (if cur <? p then slice ts cur p else Some []) as [gap|]; [|discriminate].
    specialize (Hgap gap eq_refl).
    unfold metas_at. set (here := filter (fun i => fst i =? p) ins).
    assert (Hms : forall ms, (if is_empty here then Some []
                              else if point_ok (N.of_nat (length ts)) p
                                   then Some (map (fun i => Meta (snd i) p) here) else None) = Some ms ->
                             IL ts p p (obs_l ms)).
    { intros ms. destruct (is_empty here); [intros [= <-]; constructor|].
      destruct (point_ok _ p); [|discriminate]. intros [= <-]. apply IL_metas. }
    destruct (if is_empty here then Some [] else _) as [ms|]; [|discriminate].
    specialize (Hms ms eq_refl).
    intros Hrun.
    assert (Hg : Forall good_il (filter (fun r => fst (fst r) =? p) rs)).
    { rewrite Forall_forall in *. intros d Hd. apply Hgood_il. apply filter_In in Hd. tauto. }
    assert (Hd : Forall (fun d => fst (fst d) = p) (filter (fun r => fst (fst r) =? p) rs)).
    { apply Forall_forall. intros d Hd. apply filter_In in Hd as [_ Hd]. now apply N.eqb_eq in Hd. }
    destruct (run_children_il p _ _ _ _ _ Hg Hd
                (chain_ok_filter fst _ rs (wn_chain _ _ _ _ _ _ _ Hwf)) (fun _ => eq_refl) Hrun) as (l & Hobs & Hil).
    exists (obs_l (map tok_tree gap) ++ obs_l ms ++ l).
    rewrite Hobs, !obs_l_app, <- !app_assoc. split; [reflexivity|].
    eapply IL_app; [exact Hgap|]. eapply IL_app; [exact Hms | exact Hil].
  Qed.

  Lemma fold_il : forall ks cur out cur' out',
    StronglySorted N.lt ks -> Forall (KP ins rs) ks -> Forall (fun k => cur <= k) ks ->
    s <= cur -> cur <= e ->
    fold_opt (step ts ins rs) ks (cur, out) = Some (cur', out') ->
    exists l, obs_l out' = obs_l out ++ l /\ IL ts cur cur' l.
  Proof.
    destruct (wn_span _ _ _ _ _ _ _ Hwf) as [Hse Hen].
    induction ks as [|p ks IH]; intros cur out cur' out' Hsort Hkp Hle Hs He; cbn [fold_opt].
    - intros [= <- <-]. exists []. rewrite app_nil_r. split; [reflexivity | constructor].
    - apply StronglySorted_inv in Hsort as [Hsort Hlt].
      apply Forall_cons_iff in Hkp as [Hkp1 Hkp2]. apply Forall_cons_iff in Hle as [Hle1 Hle2].
      destruct (step_spec ts s e m ins rs prod Hgood Hwf p cur out Hkp1 Hs Hle1) as
        (c1 & o1 & Hstep & Hp1 & He1 & Hnext & _).
      rewrite Hstep. intros Hfold.
      destruct (KP_bounds ts s e m ins rs prod Hwf p Hkp1) as [_ Hpe].
      destruct (step_il p cur out c1 o1 Hle1 ltac:(fold n; lia) Hstep) as (l1 & Hobs1 & Hil1).
      destruct (IH c1 o1 cur' out' Hsort Hkp2) as (l2 & Hobs2 & Hil2); try lia; auto.
      { rewrite Forall_forall in *. intros k Hk. apply Hnext; [now apply Hkp2 | now apply Hlt]. }
      exists (l1 ++ l2). rewrite Hobs2, Hobs1, <- app_assoc. split; [reflexivity|].
      eapply IL_app; eauto.
  Qed.

  Lemma assemble_il r :
    assemble ts s e m ins rs = Some r -> IL ts s e (obs_l r).
  Proof.
    destruct (wn_span _ _ _ _ _ _ _ Hwf) as [Hse Hen].
    unfold assemble.
    set (keys := sort_keys (map fst ins ++ map (fun r => fst (fst r)) rs)).
    assert (Hkeys : forall k, In k keys -> KP ins rs k).
    { intros k. unfold keys. rewrite sort_keys_in, in_app_iff, !in_map_iff. unfold KP.
      intros [(x & Hx & Hin)|(x & Hx & Hin)]; [left|right]; exists x; auto. }
    destruct (fold_opt (step ts ins rs) keys (s, [])) as [[cur out]|] eqn:Ef; [|discriminate].
    destruct (fold_il keys s [] cur out) as (l & Hobs & Hil); auto; try lia.
    { apply sort_keys_sorted. }
    { apply Forall_forall. exact Hkeys. }
    { apply Forall_forall. intros k Hk. apply Hkeys in Hk. now apply (KP_bounds ts s e m ins rs prod Hwf) in Hk. }
    cbn [obs_l flat_map app] in Hobs.
    pose proof (IL_le _ _ _ _ Hil) as Hsc.
    assert (Htail : forall tail, (if cur <? e then slice ts cur e else Some []) = Some tail ->
                                 cur <= e -> IL ts cur e (obs_l (map tok_tree tail))).
    { intros tail. destruct (N.ltb_spec cur e).
      - unfold slice. destruct ((cur <=? e) && (e <=? N.of_nat (length ts))); [|discriminate].
        intros [= <-] _. eapply IL_slice; [reflexivity | lia | exact Hen].
      - intros [= <-] Hce. assert (cur = e) by lia. subst. constructor. }
    (* cur <= e: from the leaves version *)
    destruct (fold_spec ts s e m ins rs prod Hgood Hwf keys s []) as (cur2 & out2 & Hf2 & _ & Hce & _); try lia.
    { apply sort_keys_sorted. }
    { apply Forall_forall. exact Hkeys. }
    { apply Forall_forall. intros k Hk. apply Hkeys in Hk. now apply (KP_bounds ts s e m ins rs prod Hwf) in Hk. }
    rewrite Ef in Hf2. injection Hf2 as <- <-.
    destruct (if cur <? e then slice ts cur e else Some []) as [tail|] eqn:Etail; [|discriminate].
    specialize (Htail tail eq_refl Hce).
    assert (Hall : IL ts s e (obs_l (out ++ map tok_tree tail))).
    { rewrite obs_l_app, Hobs. eapply IL_app; eauto. }
    destruct m as [[k|k]|].
    - destruct (is_empty (out ++ map tok_tree tail)); [discriminate|]. intros [= <-].
      cbn [obs_l flat_map obs]. rewrite app_nil_r. exact Hall.
    - unfold last_opt. destruct (rev (out ++ map tok_tree tail)) as [|t rest] eqn:Er; [discriminate|].
      intros [= <-].
      (* WF: a Newtype match has no inserts and no children: the output is the single token *)
      destruct (wn_matched _ _ _ _ _ _ _ Hwf) as (He1 & Hi & Hsp).
      assert (Hrs : rs = []) by (destruct rs; [reflexivity | discriminate]).
      unfold keys in Ef. rewrite Hi, Hrs in Ef. cbn in Ef. injection Ef as <- <-.
      cbn [app] in *. 
      assert (Hlen : length tail = 1%nat).
      { destruct (N.ltb_spec s e); [|lia]. rewrite slice_some in Etail by (fold n; lia).
        injection Etail as <-. rewrite slice_raw_length by (fold n; lia). lia. }
      destruct tail as [|t0 [|? ?]]; try discriminate.
      cbn in Er. injection Er as <- <-. cbn. cbn in Hall. exact Hall.
    - intros [= <-]. exact Hall.
  Qed.
End AssembleIL.

Theorem apply_il ts x r :
  wf (N.of_nat (length ts)) x = true -> apply ts x = Some r ->
  IL ts (mr_start x) (mr_end x) (obs_l r).
Proof.
  revert r. induction x as [s e m ins ch IH] using mr_ind'. intros r. cbn [wf apply mr_start mr_end].
  rewrite andb_true_iff, forallb_forall. intros [Hch Hnode] Happ.
  apply wf_node_WFnode in Hnode.
  assert (Hg : Forall (good_r ts) (map (fun c => (mr_start c, mr_end c, apply ts c)) ch)).
  { apply Forall_forall. intros c Hc. apply in_map_iff in Hc as (c0 & <- & Hc0).
    destruct (apply_leaves ts c0 (Hch c0 Hc0)) as (l & Hl & Hleaves). exists l. split; assumption. }
  assert (Hgi : Forall (good_il ts) (map (fun c => (mr_start c, mr_end c, apply ts c)) ch)).
  { apply Forall_forall. intros c Hc. apply in_map_iff in Hc as (c0 & <- & Hc0).
    intros l Hl. cbn [fst snd] in *. rewrite Forall_forall in IH. apply (IH c0 Hc0 l (Hch c0 Hc0) Hl). }
  assert (Hw : WFnode (N.of_nat (length ts)) s e m ins
                 (map fst (map (fun c => (mr_start c, mr_end c, apply ts c)) ch)) (existsb produces ch)).
  { rewrite map_map. cbn [fst]. exact Hnode. }
  exact (assemble_il ts s e m ins _ _ Hg Hgi Hw r Happ).
Qed.

(** the whole parse tree: tokens 0..n in order, every meta at the boundary it names *)
Theorem root_parse_il ts m ch :
  ts <> [] -> wf_root ts m = true ->
  root_parse ts (GOk m) = Some (POk (Node K_File ch)) ->
  IL ts 0 (N.of_nat (length ts)) (obs_l ch).
Proof.
  intros Hne Hwf Hrp.
  assert (Hall : IL ts 0 (N.of_nat (length ts)) (obs_l (map tok_tree ts))).
  { rewrite <- (slice_raw_all ts) at 3. eapply IL_slice; [reflexivity | lia | lia]. }
  destruct (N.eq_dec (start_idx ts) (end_idx ts)) as [Heq|Hsi].
  - unfold root_parse, root_parse_gen in Hrp. rewrite Heq, N.eqb_refl in Hrp.
    rewrite node_of_some in Hrp by (now apply map_nonempty). injection Hrp as <-. exact Hall.
  - destruct (root_parse_shape ts m Hne Hwf Hsi) as (matched & Happ & Hleaves & Hno & Hleft & Hfull).
    destruct (idx_bounds ts) as [Hse Hen].
    pose proof Hwf as Hwf'. unfold wf_root in Hwf'. repeat rewrite andb_true_iff in Hwf'.
    destruct Hwf' as [[Hwfm Hs] He]. apply N.eqb_eq in Hs. apply N.leb_le in He.
    assert (Hsm : mr_start m <= mr_end m).
    { apply wf_unfold in Hwfm as [_ Hn]. now destruct (wn_span _ _ _ _ _ _ _ Hn). }
    pose proof (apply_il ts m matched Hwfm Happ) as Hilm. rewrite Hs in Hilm.
    assert (Hpre : IL ts 0 (start_idx ts) (obs_l (map tok_tree (slice_raw ts 0 (start_idx ts))))).
    { eapply IL_slice; [reflexivity | lia | lia]. }
    assert (Hpost : IL ts (end_idx ts) (N.of_nat (length ts))
                       (obs_l (map tok_tree (slice_raw ts (end_idx ts) (N.of_nat (length ts)))))).
    { eapply IL_slice; [reflexivity | lia | lia]. }
    assert (Hwrap : forall c, IL ts (start_idx ts) (end_idx ts) (obs_l c) ->
              IL ts 0 (N.of_nat (length ts))
                 (obs_l (map tok_tree (slice_raw ts 0 (start_idx ts)) ++ c ++
                         map tok_tree (slice_raw ts (end_idx ts) (N.of_nat (length ts)))))).
    { intros c Hc. rewrite !obs_l_app. eapply IL_app; [exact Hpre|]. eapply IL_app; [exact Hc | exact Hpost]. }
    destruct (has_match m) eqn:Hhm.
    + destruct (N.eq_dec (mr_end m) (end_idx ts)) as [Hee|Hee].
      * rewrite (Hfull eq_refl Hee) in Hrp. injection Hrp as <-. apply Hwrap. now rewrite <- Hee.
      * destruct Hleft as (head & tail & Hht & _ & _ & Hrp'); [reflexivity | lia|].
        rewrite Hrp' in Hrp. injection Hrp as <-. apply Hwrap.
        rewrite !obs_l_app. eapply IL_app; [exact Hilm|].
        cbn [obs_l flat_map obs]. rewrite app_nil_r. fold (obs_l (map tok_tree tail)).
        rewrite <- obs_l_app, <- map_app, Hht. eapply IL_slice; [reflexivity | lia | lia].
    + rewrite (Hno eq_refl) in Hrp. injection Hrp as <-.
      apply (Hwrap [Node K_Unparsable (map tok_tree (slice_raw ts (start_idx ts) (end_idx ts)))]).
      cbn [obs_l flat_map obs]. rewrite app_nil_r. eapply IL_slice; [reflexivity | lia | lia].
Qed.

