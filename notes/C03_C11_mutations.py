import subprocess, sys, os, json, time
REPO='/tmp/wt/crash/repo'; VERIF='/tmp/wt/crash/verif'
env=dict(os.environ, SQV_REPO=REPO)
MUTS = {
 # name: (prop, file, old, new)
 'c03-revert-fix-config': ('C03','crates/lib/src/core/config.rs','pub fn process_inline_config(&self, _config_line: &str) {}','pub fn process_inline_config(&self, _config_line: &str) {\n        panic!("Not implemented")\n    }'),
 'c03-revert-fix-empty-edit': ('C03','crates/lib-core/src/lint_fix.rs','} else if !self.edit.is_empty()\n                    && self','} else if true\n                    && self'),
 'c03-revert-fix-create-after': ('C03','crates/lib-core/src/lint_fix.rs','anchor_slice.end.saturating_sub(adjust_boundary)..anchor_slice.end + 1','anchor_slice.end - adjust_boundary..anchor_slice.end + 1'),
 'c03-loop-no-break': ('C03','crates/lib/src/core/linter/core.rs','                if fix && !changed {\n                    break;\n                }','                if fix && !changed && loop_ > 3 {\n                    break;\n                }'),
 'c03-loop-no-cycle-guard': ('C03','crates/lib/src/core/linter/core.rs','if previous_versions.insert(loop_check_tuple) {','if previous_versions.insert(loop_check_tuple) || true {'),
 'c03-fixslices-create-before-off-by-one': ('C03','crates/lib-core/src/lint_fix.rs','anchor_slice.start.saturating_sub(1)..anchor_slice.start + adjust_boundary','anchor_slice.start..anchor_slice.start + adjust_boundary'),
 'c03-htc-any-for-create': ('C03','crates/lib-core/src/lint_fix.rs','let check_fn = if let EditType::CreateAfter | EditType::CreateBefore = self.edit_type {\n            itertools::all','let check_fn = if let EditType::CreateAfter = self.edit_type {\n            itertools::all'),
 'c03-no-catch-unwind': ('C03','crates/lib/src/core/rules/base.rs','std::panic::catch_unwind(std::panic::AssertUnwindSafe(|| self.eval(context)));','Ok::<_, ()>(self.eval(context));'),
 'c03-post-phase-3-passes': ('C03','crates/lib/src/core/linter/core.rs','                loop_limit\n            } else {\n                2\n            }','                loop_limit\n            } else {\n                3\n            }'),
 'c11-skip-forward-comments-are-code': ('C11','crates/lib-core/src/parser/match_algorithms.rs','    while idx < max_idx {\n        if segments[idx as usize].is_code() {','    while idx < max_idx {\n        if segments[idx as usize].is_code() || segments[idx as usize].is_comment() {'),
 'c11-string-parser-case-sensitive': ('C11','crates/lib-core/src/parser/parsers.rs','        if segment.is_code() && self.template.eq_ignore_ascii_case(segment.raw()) {\n            return Ok(MatchResult {','        if segment.is_code() && self.template == segment.raw().as_str() {\n            return Ok(MatchResult {'),
 'c11-guard-drops-newline': ('C11','crates/lib-core/src/parser/match_algorithms.rs','                    SyntaxKind::Whitespace | SyntaxKind::Newline\n                );','                    SyntaxKind::Whitespace\n                );'),
 'c11-skip-backward-off-by-one': ('C11','crates/lib-core/src/parser/match_algorithms.rs','    while idx > min_idx {\n        if segments[idx as usize - 1].is_code() {','    while idx > min_idx + 1 {\n        if segments[idx as usize - 1].is_code() {'),
 'c11-multistring-no-upper': ('C11','crates/lib-core/src/parser/parsers.rs','self.templates.contains(&segment.raw().to_ascii_uppercase())','self.templates.contains(&segment.raw().to_string())'),
}
names = sys.argv[1:] or list(MUTS)
res = {}
for n in names:
    prop, f, old, new = MUTS[n]
    p = os.path.join(REPO, f)
    s = open(p).read()
    if s.count(old) < 1:
        print(n, 'PATTERN NOT FOUND'); res[n]='pattern not found'; continue
    open(p,'w').write(s.replace(old, new, 1))
    t0=time.time()
    r = subprocess.run(['bin/check', prop], cwd=VERIF, env=env, capture_output=True, text=True)
    out = r.stdout
    viol = [l for l in out.split('\n') if l.startswith('VIOLATION')]
    kinds=[]
    for l in viol:
        path = l.split('replay=')[1].split()[0]
        try:
            d=json.load(open(path)); det=d['detail']
            desc = d['kind']+': '+ (det.get('correspondence') or det.get('key') or det.get('what') or det.get('hypothesis') or '')
            if 'input' in det and isinstance(det['input'],dict): desc += ' sql=' + repr((det['input'].get('sql') or det['input'].get('perturbed') or '')[:50])
            kinds.append(desc + (' [no-failing-input]' if 'no-failing-input-found' in l else ' [concrete]'))
        except Exception as e: kinds.append(str(e))
    res[n] = dict(rc=r.returncode, violations=len(viol), kinds=kinds, wall=round(time.time()-t0))
    print(n, json.dumps(res[n]), flush=True)
    subprocess.run(['git','checkout','--',f], cwd=REPO)
json.dump(res, open('/tmp/wt/crash/mut/results-%d.json' % int(time.time()),'w'), indent=1)
