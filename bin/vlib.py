"""Shared machinery of /verif/bin/check (see DESIGN.md section 2.5).

Order of a check: build Coq target(s) -> audit -> build harness from /repo's working
tree (hooks on) -> translators (property specific) -> harness run (cases + direct
observations + hypothesis monitors) -> model replay in Coq (vm_compute) + diff ->
decision -> evidence -> exit status.
"""
import concurrent.futures
import fcntl
import hashlib
import json
import os
import re
import subprocess
import sys
import time

ROOT = os.path.dirname(os.path.dirname(os.path.abspath(__file__)))
COQ = os.path.join(ROOT, "coq")
GEN = os.path.join(COQ, "gen")
CACHE = os.path.join(ROOT, ".cache")
HARNESS = os.path.join(ROOT, "harness")
REPO = os.environ.get("SQV_REPO", "/repo")
TARGET = os.path.join(CACHE, "target")
RUSTFLAGS = "--cfg sqruff_verif -Ctarget-cpu=native"
os.makedirs(os.path.join(CACHE, "scratch"), exist_ok=True)
ENV = dict(os.environ, CARGO_NET_OFFLINE="true", CARGO_TARGET_DIR=TARGET, RUSTFLAGS=RUSTFLAGS,
           SQV_SCRATCH=os.path.join(CACHE, "scratch"))

FORBIDDEN = re.compile(
    r"\b(Admitted|admit|Axiom|Axioms|Parameter|Parameters|Conjecture|Admit Obligations|bypass_check|"
    r"Unset Guard Checking|Unset Positivity Checking|Unset Universe Checking|type-in-type|impredicative-set)\b")
SECTION_ONLY = re.compile(r"^\s*(Variable|Variables|Hypothesis|Hypotheses|Context)\b")

TRUSTED_BASE = [
    "Coq 8.16.1 kernel and coqc (vm_compute used for reflection over generated finite data and for Cases_*.v; no native_compute)",
    "axioms: none (every pinned theorem must print 'Closed under the global context')",
    "the hand-written Gallina model is a model of the Rust kernel; it is tied to /repo only by the correspondence run and the translators of this check",
    "harness/src/*.rs (recorders, generators, Gallina term printers), bin/vlib.py (shard writer, mismatch parser)",
    "external components modelled as oracles/recorded values: regex engines, rule bodies, reflow engine, ignore crate, filesystem, rayon",
]


def log(*a):
    print(*a, file=sys.stderr, flush=True)


def sh(cmd, timeout=1800, cwd=None, env=None, stdin=None):
    """Run a command; returns (rc, combined output). rc=124 on timeout."""
    try:
        p = subprocess.run(cmd, shell=isinstance(cmd, str), cwd=cwd, env=env or ENV, timeout=timeout,
                           stdout=subprocess.PIPE, stderr=subprocess.STDOUT, input=stdin)
        return p.returncode, p.stdout.decode("utf-8", "replace")
    except subprocess.TimeoutExpired as e:
        out = (e.stdout or b"").decode("utf-8", "replace")
        return 124, out + "\n[timeout after %ss]" % timeout


class Lock:
    def __init__(self, name):
        os.makedirs(CACHE, exist_ok=True)
        self.path = os.path.join(CACHE, name + ".lock")

    def __enter__(self):
        self.f = open(self.path, "w")
        fcntl.flock(self.f, fcntl.LOCK_EX)
        return self

    def __exit__(self, *a):
        fcntl.flock(self.f, fcntl.LOCK_UN)
        self.f.close()


# ------------------------------------------------------------------ Coq
def coq_files():
    out = []
    for d, _, fs in os.walk(os.path.join(COQ, "theories")):
        for f in fs:
            if f.endswith(".v"):
                out.append(os.path.relpath(os.path.join(d, f), COQ))
    return sorted(out)


def coq_prepare(extra_gen=()):
    """(Re)write _CoqProject and Makefile. extra_gen: generated files under gen/ to include."""
    lines = ["-Q theories Sq", "-Q gen SqGen", "-arg -w -arg -notation-overridden,-deprecated-hint-without-locality"]
    lines += coq_files()
    lines += [os.path.join("gen", g) for g in extra_gen]
    proj = "\n".join(lines) + "\n"
    path = os.path.join(COQ, "_CoqProject")
    old = open(path).read() if os.path.exists(path) else ""
    if old != proj or not os.path.exists(os.path.join(COQ, "Makefile")):
        open(path, "w").write(proj)
        rc, out = sh("coq_makefile -f _CoqProject -o Makefile", cwd=COQ, timeout=120)
        if rc != 0:
            raise RuntimeError("coq_makefile failed: " + out)


def audit_sources(files):
    """Textual audit: no admits/axioms, no Variable/Hypothesis outside a Section."""
    problems = []
    for rel in files:
        path = os.path.join(COQ, rel)
        depth = 0
        txt = open(path).read()
        # strip comments (non-nested is enough for our files; nested handled by loop)
        prev = None
        while prev != txt:
            prev = txt
            txt = re.sub(r"\(\*(?:(?!\(\*|\*\)).)*\*\)", lambda m: "\n" * m.group(0).count("\n"), txt, flags=re.S)
        for i, line in enumerate(txt.split("\n"), 1):
            if re.match(r"^\s*Section\b", line):
                depth += 1
            elif re.match(r"^\s*End\b", line) and depth > 0:
                depth -= 1
            m = FORBIDDEN.search(line)
            if m:
                problems.append("%s:%d: forbidden token %s" % (rel, i, m.group(1)))
            if depth == 0 and SECTION_ONLY.match(line):
                problems.append("%s:%d: Variable/Hypothesis/Context outside a Section" % (rel, i))
    return problems


def coq_build(prop_files, other_targets=(), clean=False, timeout=1500):
    """Build Props files (always recompiled so Print Assumptions is printed) and other targets.
    Returns dict(ok, log, theorems, closed, assumption_blocks, problems, cmd)."""
    with Lock("coq"):
        coq_prepare()
        if clean:
            sh("make clean", cwd=COQ, timeout=300)
            coq_prepare()
        for pf in prop_files:
            for ext in (".vo", ".glob", ".vos", ".vok"):
                try:
                    os.remove(os.path.join(COQ, pf[:-2] + ext))
                except OSError:
                    pass
        targets = [pf[:-2] + ".vo" for pf in prop_files] + list(other_targets)
        cmd = "make -j16 " + " ".join(targets)
        rc, out = sh("timeout %d %s" % (timeout, cmd), cwd=COQ, timeout=timeout + 30)
    theorems = 0
    for pf in prop_files:
        theorems += len(re.findall(r"^\s*(Theorem|Lemma|Corollary)\b", open(os.path.join(COQ, pf)).read(), flags=re.M))
    closed = out.count("Closed under the global context")
    axioms = re.findall(r"^Axioms:\n((?:.+\n)+)", out, flags=re.M)
    # dependency cone audit: all theories files (cheap) -- the development is small
    problems = audit_sources(coq_files())
    ok = rc == 0 and closed == theorems and not axioms and not problems
    return dict(ok=ok, rc=rc, log=out[-6000:], theorems=theorems, closed=closed, axioms=axioms,
                problems=problems, cmd="cd /verif/coq && " + cmd)


def coqchk(prop_files, timeout=1500):
    """Independent re-check of the compiled property files (and everything they depend on) with coqchk;
    returns dict(ok, axioms text, log)."""
    mods = ["Sq." + pf[len("theories/"):-2].replace("/", ".") for pf in prop_files]
    rc, out = sh("timeout %d coqchk -silent -o -Q theories Sq %s" % (timeout, " ".join(mods)), cwd=COQ, timeout=timeout + 30)
    m = re.search(r"\* Axioms:\s*(.*?)\n\s*\n\* Constants/Inductives relying on type-in-type:\s*(.*?)\n\s*\n"
                  r"\* Constants/Inductives relying on unsafe \(co\)fixpoints:\s*(.*?)\n\s*\n"
                  r"\* Inductives whose positivity is assumed:\s*(.*?)\n", out, flags=re.S)
    fields = [f.strip() for f in m.groups()] if m else []
    ok = rc == 0 and len(fields) == 4 and all(f == "<none>" for f in fields)
    return dict(ok=ok, rc=rc, fields=fields, log=out[-2500:])


def run_coqc(path, timeout=900):
    return sh("timeout %d coqc -noglob -Q theories Sq -Q gen SqGen -w -notation-overridden %s" % (timeout, path),
              cwd=COQ, timeout=timeout + 30)


def parse_N_list(out):
    """Parse the numbers of every '= [ ... ]' block printed by Eval vm_compute."""
    res = []
    for m in re.finditer(r"=\s*\[(.*?)\]\s*:\s*list N", out, flags=re.S):
        res.append([int(x) for x in re.findall(r"\d+", m.group(1))])
    return res


def replay_cases(prop, corr_module, cases, shard=200, timeout=900, group_imports=None, monitors=None):
    """cases: list of dicts with id, group, args, exp. Returns (mismatch_ids, errors, n_shards).
    monitors (optional): list of dicts with `imports` (a Coq command) and `expr` (a Coq term of type `list N` over the
    shard's `cases` list: the ids on which a monitored hypothesis fails). Each adds one more `Eval vm_compute` to every
    generated Cases file - the same parsed case list, no second file - and gets `checks` (cases evaluated) and
    `failures` (list of ids) filled in."""
    monitors = monitors or []
    for m in monitors:
        m["checks"], m["failures"] = 0, []
    os.makedirs(GEN, exist_ok=True)
    for f in os.listdir(GEN):
        if f.startswith("Cases_%s_" % prop):
            os.remove(os.path.join(GEN, f))
    by_group = {}
    for c in cases:
        by_group.setdefault(c["group"], []).append(c)
    jobs = []
    for g, cs in sorted(by_group.items()):
        for k in range(0, len(cs), shard):
            name = "Cases_%s_%s_%d.v" % (prop, re.sub(r"\W", "_", g), k // shard)
            body = ["From Sq Require Import Base.Corr %s." % corr_module] + \
                   ([group_imports(g)] if group_imports else []) + [m["imports"] for m in monitors] + ["Open Scope N_scope.",
                    "Definition cases : list case_t_%s := [" % re.sub(r"\W", "_", g)]
            body.append(";\n".join("(%d, %s, %s)" % (c["id"], c["args"], c["exp"]) for c in cs[k:k + shard]))
            body.append("].")
            body.append("Eval vm_compute in mismatches check_%s cases." % re.sub(r"\W", "_", g))
            for m in monitors:
                body.append("Eval vm_compute in (%s)." % m["expr"])
            open(os.path.join(GEN, name), "w").write("\n".join(body) + "\n")
            jobs.append((name, [c["id"] for c in cs[k:k + shard]]))
    mism, errors = [], []
    with concurrent.futures.ThreadPoolExecutor(max_workers=16) as ex:
        futs = {ex.submit(run_coqc, os.path.join("gen", name), timeout): (name, ids) for name, ids in jobs}
        for fut in concurrent.futures.as_completed(futs):
            name, ids = futs[fut]
            rc, out = fut.result()
            blocks = parse_N_list(out)
            if rc != 0 or len(blocks) != 1 + len(monitors):
                errors.append("%s: rc=%d %s" % (name, rc, out[-1500:]))
            else:
                mism += blocks[0]
                for m, b in zip(monitors, blocks[1:]):
                    m["checks"] += len(ids)
                    m["failures"] += b
    for f in os.listdir(GEN):
        if f.startswith("Cases_%s_" % prop) and not f.endswith(".v"):
            os.remove(os.path.join(GEN, f))
    return sorted(mism), errors, len(jobs)


def model_output(prop, corr_module, case, fn="model"):
    """Print the model's own output for one case (for the replay file)."""
    name = "Cases_%s_show.v" % prop
    body = ["From Sq Require Import Base.Corr %s." % corr_module, "Open Scope N_scope.",
            "Set Printing Width 200.", "Set Printing Depth 100000.",
            "Eval vm_compute in %s %s." % (fn, case["args"])]
    open(os.path.join(GEN, name), "w").write("\n".join(body) + "\n")
    rc, out = run_coqc(os.path.join("gen", name), 300)
    return out[-4000:]


def gen_check(ctx, fname, text, n_obligations, what, timeout=900):
    """Translator obligation: write gen/<fname> (generated from /repo's current tree), compile it with coqc.
    A failure is a 'translator-obligation' violation (not concrete by itself: the caller's search decides).
    Returns (ok, coqc output)."""
    os.makedirs(GEN, exist_ok=True)
    open(os.path.join(GEN, fname), "w").write(text)
    rc, out = run_coqc(os.path.join("gen", fname), timeout)
    ctx["extra_obligations"] += n_obligations
    if rc == 0:
        ctx["extra_discharged"] += n_obligations
    else:
        ctx["R"].violation("translator-obligation", dict(what=what, file="coq/gen/" + fname, log=out[-2500:]), False)
    return rc == 0, out


def gen_check_many(ctx, items, timeout=900):
    """items: list of (fname, text, n_obligations, what); compiled in parallel. Returns {fname: (ok, out)}."""
    os.makedirs(GEN, exist_ok=True)
    for fname, text, _, _ in items:
        open(os.path.join(GEN, fname), "w").write(text)
    res = {}
    with concurrent.futures.ThreadPoolExecutor(max_workers=16) as ex:
        futs = {ex.submit(run_coqc, os.path.join("gen", it[0]), timeout): it for it in items}
        for fut in concurrent.futures.as_completed(futs):
            fname, _, n, what = futs[fut]
            rc, out = fut.result()
            ctx["extra_obligations"] += n
            if rc == 0:
                ctx["extra_discharged"] += n
            else:
                ctx["R"].violation("translator-obligation", dict(what=what, file="coq/gen/" + fname, log=out[-2500:]), False)
            res[fname] = (rc == 0, out)
    return res


# ------------------------------------------------------------------ harness
def harness_prepare():
    """Instantiate harness/Cargo.toml and .cargo/config.toml for the repository at REPO."""
    tpl = open(os.path.join(HARNESS, "Cargo.toml.in")).read().replace("@REPO@", REPO)
    dst = os.path.join(HARNESS, "Cargo.toml")
    if not os.path.exists(dst) or open(dst).read() != tpl:
        open(dst, "w").write(tpl)
    os.makedirs(os.path.join(HARNESS, ".cargo"), exist_ok=True)
    cfgp = os.path.join(HARNESS, ".cargo", "config.toml")
    cfg = "[net]\noffline = true\n[build]\ntarget-dir = \"%s\"\n" % TARGET
    if not os.path.exists(cfgp) or open(cfgp).read() != cfg:
        open(cfgp, "w").write(cfg)
    tc = os.path.join(REPO, "rust-toolchain.toml")
    if os.path.exists(tc):
        data = open(tc).read()
        dtc = os.path.join(HARNESS, "rust-toolchain.toml")
        if not os.path.exists(dtc) or open(dtc).read() != data:
            open(dtc, "w").write(data)


def harness_build(profile="dev", timeout=2400):
    with Lock("cargo"):
        harness_prepare()
        lock_src = os.path.join(REPO, "Cargo.lock")
        if os.path.exists(lock_src):
            data = open(lock_src).read()
            dst = os.path.join(HARNESS, "Cargo.lock")
            if not os.path.exists(dst) or "name = \"sqv\"" not in open(dst).read():
                open(dst, "w").write(data)
        cmd = "cargo build --offline" + ("" if profile == "dev" else " --profile " + profile)
        t0 = time.time()
        rc, out = sh(cmd, cwd=HARNESS, timeout=timeout)
        if rc != 0 and "Cargo.lock" in out:
            # lock drifted: start again from the repository's lock
            open(os.path.join(HARNESS, "Cargo.lock"), "w").write(open(lock_src).read())
            rc, out = sh(cmd, cwd=HARNESS, timeout=timeout)
    sub = "debug" if profile == "dev" else profile
    return dict(ok=rc == 0, log=out[-6000:], bin=os.path.join(TARGET, sub, "sqv"), wall=time.time() - t0)


def cli_build(timeout=2400):
    """Build the real sqruff binary from /repo's working tree (own target dir)."""
    with Lock("cargo-cli"):
        env = dict(ENV, CARGO_TARGET_DIR=os.path.join(CACHE, "target-cli"), RUSTFLAGS="-Ctarget-cpu=native")
        rc, out = sh("cargo build --offline -p sqruff --bin sqruff", cwd=REPO, env=env, timeout=timeout)
    return dict(ok=rc == 0, log=out[-6000:], bin=os.path.join(CACHE, "target-cli", "debug", "sqruff"))


def harness_run(binary, sub, tier, seed, out_path, extra=(), timeout=3000, env=None):
    cmd = [binary, sub, "--tier", tier, "--seed", str(seed), "--out", out_path] + list(extra)
    rc, out = sh(cmd, timeout=timeout, env=env or ENV)
    return rc, out


def read_jsonl(path):
    recs = []
    with open(path) as f:
        for line in f:
            line = line.strip()
            if line:
                try:
                    recs.append(json.loads(line))
                except ValueError:
                    # a harness that was killed leaves a cut-off last line; its non-zero exit status is what gets reported
                    recs.append({"t": "truncated_line", "text": line[:200]})
    return recs


# ------------------------------------------------------------------ findings, evidence, result
def known_findings():
    """known_findings.txt: 'finding: property=Cxx key=<key> <text>' and 'fixed: property=Cxx <commit> <text>'."""
    res = {}
    path = os.path.join(ROOT, "known_findings.txt")
    if os.path.exists(path):
        for line in open(path):
            m = re.match(r"finding:\s+property=(\S+)\s+key=(\S+)\s+(.*)", line.strip())
            if m:
                res.setdefault(m.group(1), {})[m.group(2)] = m.group(3)
    return res


class Result:
    def __init__(self, prop, tier, seed, level):
        self.prop, self.tier, self.seed, self.level = prop, tier, seed, level
        self.t0 = time.time()
        self.violations = []      # (kind, detail dict, concrete: bool)
        self.known_hits = {}
        self.coverage = {}
        self.assumptions = []
        self.known = known_findings().get(prop, {})

    def violation(self, kind, detail, concrete):
        self.violations.append((kind, detail, concrete))

    def direct_fail(self, rec):
        """A direct observation of the property failing on the implementation."""
        key = rec.get("key", "")
        if key in self.known:
            self.known_hits[key] = self.known[key]
        else:
            self.violation("failing-input", rec, True)

    def finish(self):
        os.makedirs(os.path.join(ROOT, "evidence"), exist_ok=True)
        os.makedirs(os.path.join(ROOT, "replays"), exist_ok=True)
        wall = time.time() - self.t0
        for key, text in sorted(self.known_hits.items()):
            print("KNOWN-FINDING: property=%s key=%s %s" % (self.prop, key, text))
        lines = []
        # concrete failing inputs first; one VIOLATION line per distinct kind/key (max 5)
        seen = set()
        ordered = sorted(self.violations, key=lambda v: (not v[2],))
        any_concrete = any(v[2] for v in self.violations)
        for kind, detail, concrete in ordered:
            if not concrete and any_concrete and kind == "broken-correspondence" and "correspondence" in detail:
                continue   # a mismatching case outside the quantifier, next to concrete failing inputs
            tag = (kind, json.dumps(detail, sort_keys=True)[:300])
            if tag in seen or len(lines) >= 5:
                continue
            seen.add(tag)
            payload = dict(property=self.prop, kind=kind, tier=self.tier, seed=self.seed, detail=detail)
            h = hashlib.sha1(json.dumps(payload, sort_keys=True).encode()).hexdigest()[:12]
            path = os.path.join(ROOT, "replays", "%s-%s.json" % (self.prop, h))
            json.dump(payload, open(path, "w"), indent=1)
            lines.append("VIOLATION property=%s replay=%s%s" % (self.prop, path, "" if concrete else " no-failing-input-found"))
        ev = dict(property_id=self.prop, tier=self.tier, seed=self.seed, level=self.level, coverage=self.coverage,
                  assumptions=self.assumptions, wall_s=round(wall, 2), violations=len(lines),
                  known_findings_hit=sorted(self.known_hits))
        json.dump(ev, open(os.path.join(ROOT, "evidence", "%s.json" % self.prop), "w"), indent=1)
        for l in lines:
            print(l)
        sys.stdout.flush()
        return 1 if lines else 0


def standard_check(cfg, tier, seed, replay=None):
    """The common flow. cfg keys: prop, level, harness (subcommand), props_files, corr_module,
    groups {name: in_quantifier bool}, rule (text), assumptions [..], pre(ctx)/post(ctx) optional,
    extra_targets, harness_extra."""
    prop = cfg["prop"]
    R = Result(prop, tier, seed, cfg["level"])
    R.assumptions = list(cfg.get("assumptions", []))
    cov = R.coverage
    cov["trusted_base"] = TRUSTED_BASE + cfg.get("trusted_extra", [])

    # 1. Coq build + audit
    props_files = cfg["props_files"]
    other = [cfg["corr_file"][:-2] + ".vo"] if cfg.get("corr_file") else []
    other += list(cfg.get("extra_targets", []))
    cb = coq_build(props_files, other, clean=(tier == "thorough" and not replay))
    cov["checker_cmd"] = cb["cmd"]
    obligations = cb["theorems"] + 1   # + the audit
    discharged = cb["closed"] + (0 if cb["problems"] else 1)
    cov["pinned_theorems"] = cb["theorems"]
    if not cb["ok"]:
        log(cb["log"])
        R.violation("broken-theorem", dict(what="Coq development for %s does not build/audit" % prop,
                                           rc=cb["rc"], problems=cb["problems"], axioms=cb["axioms"], log=cb["log"][-2000:]), False)

    if tier == "thorough" and not replay and cb["rc"] == 0 and not os.environ.get("SQV_NO_COQCHK"):
        ck = coqchk(props_files)
        cov["coqchk"] = dict(ok=ck["ok"], axioms_typeintype_unsafefix_positivity=ck["fields"])
        obligations += 1
        if ck["ok"]:
            discharged += 1
        else:
            R.violation("broken-theorem", dict(what="coqchk does not accept the compiled development or reports axioms", log=ck["log"]), False)

    # 2. harness
    hb = harness_build()
    cases, direct_fails, stats, hyps = [], [], [], []
    ctx = dict(R=R, cfg=cfg, tier=tier, seed=seed, replay=replay, bin=hb["bin"], extra_obligations=0, extra_discharged=0)
    if not hb["ok"]:
        log(hb["log"])
        R.violation("broken-correspondence", dict(what="harness does not build against /repo's working tree", log=hb["log"][-3000:]), False)
    else:
        if cfg.get("pre"):
            cfg["pre"](ctx)
        os.makedirs(os.path.join(CACHE, "runs"), exist_ok=True)
        outp = os.path.join(CACHE, "runs", "%s-%s-%d.jsonl" % (prop, tier, os.getpid()))
        extra = list(cfg.get("harness_extra", [])) + list(ctx.get("harness_extra", []))
        if replay:
            inp = os.path.join(CACHE, "runs", "%s-replay-%d.json" % (prop, os.getpid()))
            payload = json.load(open(replay))
            d = payload.get("detail", payload)
            d = d.get("sample", d)
            d = d.get("input", d)
            json.dump(d, open(inp, "w"))
            extra += ["--replay-input", inp]
        rc, out = harness_run(hb["bin"], cfg["harness"], tier, seed, outp, extra,
                              timeout=cfg.get("harness_timeout", 3000 if tier == "quick" else 14000), env=ctx.get("env"))
        recs = read_jsonl(outp) if os.path.exists(outp) else []
        done = [r for r in recs if r.get("t") == "done"]
        if rc != 0 or not done:
            log(out[-3000:])
            R.violation("broken-correspondence", dict(what="harness run failed", rc=rc, log=out[-3000:]), False)
        cases = [r for r in recs if r.get("t") == "case"]
        direct_fails = [r for r in recs if r.get("t") == "direct_fail"]
        hyps = [r for r in recs if r.get("t") == "hyp"]
        stats = [r for r in recs if r.get("t") in ("stat", "counts")]
        ctx["recs"] = recs
        try:
            os.remove(outp)
        except OSError:
            pass

    # 3. model replay
    groups = cfg.get("groups", {})
    mism, errors, nshards = [], [], 0
    if cases and cfg.get("corr_module") and cb["rc"] == 0:
        mism, errors, nshards = replay_cases(prop, cfg["corr_module"], cases, shard=cfg.get("shard", 200))
    by_id = {c["id"]: c for c in cases}
    for e in errors:
        R.violation("broken-correspondence", dict(what="model replay did not evaluate", log=e[-1500:]), False)
    shown = 0
    for i in mism:
        c = by_id[i]
        concrete = bool(groups.get(c["group"], False))
        detail = dict(correspondence="%s.check_%s" % (cfg["corr_module"], c["group"]), cls=c["cls"], sample=c["sample"])
        if shown < 3:
            detail["model_says"] = model_output(prop, cfg["corr_module"], c, cfg.get("show_fn", {}).get(c["group"], "model"))
            shown += 1
        key = c.get("key") or (c["sample"].get("key") if isinstance(c["sample"], dict) else None)
        if key and key in R.known:
            R.known_hits[key] = R.known[key]
            continue
        R.violation("failing-input" if concrete else "broken-correspondence", detail, concrete)

    # 4. direct observations and monitors
    for r in direct_fails:
        R.direct_fail(r)
    for h in hyps:
        if h["failures"] and h["class"] == "blocking":
            R.violation("failed-hypothesis", dict(hypothesis=h["name"], failures=h["failures"], example=h["example"]), False)

    if cfg.get("post"):
        cfg["post"](ctx)

    # 5. evidence
    obligations += ctx["extra_obligations"]
    discharged += ctx["extra_discharged"]
    nontriv = {hashlib.sha1((c["args"] + "|" + c["exp"]).encode()).hexdigest() for c in cases if c.get("nontrivial")}
    n_direct = sum(r.get("direct", 0) for r in ctx.get("recs", []) if r.get("t") == "done")
    cov.update(dict(
        obligations=obligations, discharged=discharged,
        evaluations=len(cases) + n_direct + ctx.get("extra_evaluations", 0),
        distinct_nontrivial=len(nontriv) + ctx.get("extra_nontrivial", 0),
        rule=cfg.get("rule", ""),
        samples=[c["sample"] for c in cases[:2]] + [c["sample"] for c in cases[len(cases) // 2: len(cases) // 2 + 1]] + ctx.get("extra_samples", []),
        traces_validated_against_impl=len(cases), correspondence_mismatches=len(mism), coq_shards=nshards,
        direct_observations=n_direct, direct_failures=len(direct_fails),
        generator_classes=_hist(cases, "cls"), hypotheses=[{k: h[k] for k in ("name", "class", "checks", "failures")} for h in hyps],
        stats=[s.get("v", s) for s in stats], exhaustive=False,
    ))
    if not cov["samples"]:
        cov["samples"] = [dict(note="no correspondence case in this run")]
    cov.update(ctx.get("extra_coverage", {}))
    return R.finish()


def _hist(cases, key):
    h = {}
    for c in cases:
        h[c[key]] = h.get(c[key], 0) + 1
    return h
