CFG = dict(
    prop="C17", level="proof", harness="c17",
    props_files=["theories/Props/C17.v"], corr_file="theories/Corr/C17.v", corr_module="Corr.C17",
    groups={"loop": False, "mask": False},
    show_fn={"loop": "model", "mask": "mask_model"},
    shard=300,
    design_ref="DESIGN.md 6.17, notes/C17.md",
    technique="Coq proof about a Gallina model of the fix loop of Linter::lint_fix_parsed (noqa mask step between Rule::crawl and "
              "the reported/fixed results, phases, pass limits, rule set of a pass, fix-compatibility skip, previous_versions guard, "
              "changed flag, exits), parametric in the rule/mask/apply oracles + replay of the model on the recorded oracle answers "
              "of real fix runs + direct observation",
    level_text="C17_clean (no rule has a fix on the initial tree => the loop returns it, for every instance of the oracles), "
               "C17_clean_bytes (with the C04 patch pipeline the file is written back byte-identical), "
               "C17_lint_clean_untouched (mask step inside the model: lint reports nothing, be it because every result is silenced "
               "by a noqa directive => the loop returns the initial tree), C17_first_batch_rule / C17_first_batch_is_reported (a fix "
               "run starts from a violation lint reports), "
               "C17_exit_nochange_is_fixpoint and C17_idempotent_decomposition (fix(fix x) = fix x from re-parse stability, "
               "convergence and lossless parse, determinism being the functionality of the oracles) are closed Coq theorems. "
               "The loop model is tied to the code on every run: every recorded fix run (hook events with trees interned by "
               "structure and positions) is replayed through the model, which must predict exactly which batches were "
               "accepted or rejected by the guard, every pass end with its changed flag, and the final tree; the mask step is tied separately (group mask): from the raw Rule::crawl results on the initial "
               "tree and IgnoreMask::is_masked's answers the model must predict how many violations of each rule lint reports and "
               "which rule produces the first batch of the fix run.",
    level_note="Idempotence itself is not a theorem about the code: it is decomposed into three hypotheses that are monitored "
               "per input (diagnostic) while fix(fix x) = fix x and lint(fix x) are observed directly; rule bodies, "
               "IgnoreMask::is_masked and apply_fixes are oracles (recorded answers). Byte-identity is compared after the linter's newline "
               "normalisation (CR/CRLF inputs counted separately).",
    rule="fix runs over dialect fixture files, layout/case-perturbed fixture files and rule yaml snippets x 7 rule selections "
         "(4 layout-only) x 3 line-length settings; the same sources with noqa directives derived from what lint reports (line "
         "directives with/without codes, disable=all, disable/enable ranges, block comments, partial) x 11 selections; rule "
         "snippets and fixture files with max_line_length put on (a line a rewriting rule reports on) + d under selections that "
         "mix the 13 layout rules with rewriting rules (layout + the snippet's own rule, core, all, layout + CV*, layout + AL/CP/ST/RF); "
         "rule snippets and fixture files with comments put at structural boundaries (behind the code of a line and on lines of "
         "their own after closing brackets / commas / any line end); every layout option of the configuration file (indentation "
         "section, line positions of commas and operators, the options of LT05 and LT09) at each non-default value, alone and in "
         "random combinations, x 6 line-length limits, on texts as they are / ruffled / commented / unformatted (lines joined) that "
         "are kept only when the options change what lint reports or what fix returns; in these two groups of classes fix is "
         "repeated 3 more times through lint_string(fix = true) with the long-lived and with fresh linters (all texts equal). "
         "per run the hook's event stream is replayed through the Gallina loop model (group loop), the mask step through the mask "
         "model (group mask), and fix is repeated (determinism), compared with lint (clean => untouched, first batch comes from a "
         "reported violation), applied to its own output (idempotence, every selection containing the layout rules in the added "
         "classes) and re-linted. non-trivial = at least one batch of fixes was applied (loop) / at least one masked result "
         "(mask); distinct = distinct (oracle tables, events)",
    assumptions=["trees are identified by kind/raw/position structure when interned for the oracle tables",
                 "inputs on which parsing, a rule or apply_fixes panics are skipped and counted (C03)",
                 "byte-identity of clean files is compared after Linter::normalise_newlines (CRLF -> LF)",
                 "results without a rule (the marker Rule::crawl leaves when a rule body panics, C03) are left out of the mask tables",
                 "determinism is observed within one process (repeated runs, long-lived and fresh Linter objects), not across processes"],
    trusted_extra=["verif hook: core.rs verif_hook::FixEvent (Start/Batch/PassEnd/End)"],
)
