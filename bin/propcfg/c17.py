CFG = dict(
    prop="C17", level="proof", harness="c17",
    props_files=["theories/Props/C17.v"], corr_file="theories/Corr/C17.v", corr_module="Corr.C17",
    groups={"loop": False},
    show_fn={"loop": "model"},
    shard=300,
    design_ref="DESIGN.md 6.17, notes/C17.md",
    technique="Coq proof about a Gallina model of the fix loop of Linter::lint_fix_parsed (phases, pass limits, rule set of a "
              "pass, fix-compatibility skip, previous_versions guard, changed flag, exits), parametric in the rule/apply "
              "oracles + replay of the model on the recorded oracle answers of real fix runs + direct observation",
    level_text="C17_clean (no rule has a fix on the initial tree => the loop returns it, for every instance of the oracles), "
               "C17_clean_bytes (with the C04 patch pipeline the file is written back byte-identical), "
               "C17_exit_nochange_is_fixpoint and C17_idempotent_decomposition (fix(fix x) = fix x from re-parse stability, "
               "convergence and lossless parse, determinism being the functionality of the oracles) are closed Coq theorems. "
               "The loop model is tied to the code on every run: every recorded fix run (hook events with trees interned by "
               "structure and positions) is replayed through the model, which must predict exactly which batches were "
               "accepted or rejected by the guard, every pass end with its changed flag, and the final tree.",
    level_note="Idempotence itself is not a theorem about the code: it is decomposed into three hypotheses that are monitored "
               "per input (diagnostic) while fix(fix x) = fix x and lint(fix x) are observed directly; rule bodies, the noqa "
               "mask and apply_fixes are oracles (recorded answers). Byte-identity is compared after the linter's newline "
               "normalisation (CR/CRLF inputs counted separately).",
    rule="fix runs over dialect fixture files, layout/case-perturbed fixture files and rule yaml snippets x 7 rule selections "
         "(4 layout-only) x 3 line-length settings; per run the hook's event stream is replayed through the Gallina loop model "
         "(group loop) and fix is repeated (determinism), applied to its own output (idempotence, layout selections) and "
         "re-linted. non-trivial = at least one batch of fixes was applied; distinct = distinct (oracle tables, events)",
    assumptions=["trees are identified by kind/raw/position structure when interned for the oracle tables",
                 "inputs on which parsing, a rule or apply_fixes panics are skipped and counted (C03)",
                 "byte-identity of clean files is compared after Linter::normalise_newlines (CRLF -> LF)"],
    trusted_extra=["verif hook: core.rs verif_hook::FixEvent (Start/Batch/PassEnd/End)"],
)
