import os
import shutil

import vlib


def _pre(ctx):
    """Build the real sqruff binary from the tree; give the harness the binary and a scratch directory."""
    cb = vlib.cli_build()
    if not cb["ok"]:
        vlib.log(cb["log"])
        ctx["R"].violation("broken-correspondence", dict(what="the sqruff binary does not build from the tree", log=cb["log"][-3000:]), False)
    scratch = os.path.join(vlib.CACHE, "scratch")
    os.makedirs(scratch, exist_ok=True)
    ctx["harness_extra"] = ["--sqruff", cb["bin"], "--scratch", scratch]


def _post(ctx):
    scratch = os.path.join(vlib.CACHE, "scratch")
    for d in os.listdir(scratch) if os.path.isdir(scratch) else []:
        if d.startswith("c19-"):
            shutil.rmtree(os.path.join(scratch, d), ignore_errors=True)


CFG = dict(
    prop="C19", level="proof", harness="c19",
    props_files=["theories/Props/C19.v"], corr_file="theories/Corr/C19.v", corr_module="Corr.C19",
    groups={"pipe": True, "lib": True, "nav": True, "navlib": True, "norm": False, "gi": False, "git": False},
    show_fn={"pipe": "model_pipe", "lib": "model_lib", "nav": "model_nav", "navlib": "model_navlib", "norm": "model_norm", "gi": "model_gi", "git": "model_git"},
    pre=_pre, post=_post, shard=150,
    design_ref="DESIGN.md 6.19",
    technique="Coq proof (set characterisation of the discovery pipeline over abstract trees; gitignore specification with the "
              "directory-pattern law) + correspondence of the specification with the ignore crate and with git check-ignore, and of the pipeline with the real binary "
              "and with the library entry point Linter::lint_paths (extension list through every public configuration route); model of helpers::normalize with a soundness "
              "proof (the normalised path denotes the same location from every working directory) and the pipeline over arguments as written ('..', '.', absolute) from a working directory nested in the tree, "
              "tied to the binary run from that directory and to Linter::lint_paths called with that working directory",
    level_text="C19_set / C19_once / C19_written are closed Coq theorems for every tree, extension list, pattern list and argument list: "
               "the model of paths_from_path + lint_paths + IgnoreFile::is_ignored + run_fix's write loop lints exactly the files under "
               "the arguments with a configured extension plus explicit files, minus those the gitignore specification ignores, each once, "
               "and fix writes only those. C19_dir_pattern / C19_dir_line are the README law for 'd/' (any preceding lines, no negation line after it), C19_level: nothing re-includes below an ignored directory. The specification is validated against the ignore "
               "crate and git itself, and the pipeline model against the sqruff binary built from the tree and against Linter::lint_paths called in-process on every run. "
               "C19_normalize_sound / C19_normalize_normal_form: helpers::normalize keeps the location a written path denotes, for every working directory and every sequence of '.', '..' and names; "
               "C19_nav_set / C19_nav_once / C19_nav_spelling / C19_nav_total: from any working directory inside the tree and for arguments written with '..', '.' or absolutely, exactly the specified files are linted, each once, "
               "each under a name that denotes the file found below the argument (the ignore file lies in the working directory).",
    level_note="Trusted: Coq kernel; hand-written model (tie = sampled correspondence); filesystem, walkdir, the ignore/globset crates and "
               "the JSON printer are oracles; gitignore character classes, escapes and non-ASCII names are outside the modelled subset.",
    rule="(git) every fourth of the (gi) ignore files in a scratch repository: Gallina gi_ignored vs `git check-ignore --no-index` per path. (gi) random ignore files (1-5 lines from the README forms: blank, comment, literal, glob *, ?, **, leading/inner/trailing "
         "slash, negation) x 3-8 random paths: Gallina decide / gi_ignored / gi_nearest vs Gitignore::matched and the two parent walks over it. (pipe) random directory "
         "trees (0-5 directories nested up to 3, 1-8 files incl. upper-case extensions, dot files, non-SQL files, directories named like "
         "sql files) x 10 extension lists (incl. upper-case ones) x {no ignore file, README example, directory patterns of the tree, random patterns} x path "
         "arguments (none, '.', 1-3 files/directories spelled relative, ./relative, absolute or with a trailing slash, duplicates and overlaps): the real "
         "binary's `lint -f json` keys with multiplicities and the files rewritten by `fix --force` vs the Gallina pipeline, and "
         "directly vs the property text with the ignore crate as gitignore reference. non-trivial = some candidate file is ignored "
         "or the arguments repeat/overlap (pipe), some path is ignored (gi, git). (lib) the same trees x ignore lines (as the caller's ignorer closure, "
         "gitignore walk over the ignore crate) x absolute path arguments x extension lists of 0-3 entries in lower / upper / mixed letter case (incl. entries "
         "differing only in case) x the public routes by which the list reaches the configuration {config text, config map to FluffConfig::new, "
         "FluffConfig::with_sql_file_exts, with_sql_file_exts over a configured list, Linter::config_mut on an existing linter}: the files in the "
         "LintingResult of Linter::lint_paths(fix=false) and of a second call with fix=true on the same linter vs the Gallina pipeline fed the list "
         "as supplied, and directly vs the property text; non-trivial = additionally an upper-case letter in the list. "
         "(nav) random trees with a working directory at depth 1-3 (sometimes with the layout of a top-level directory repeated below it) x arguments written from there: shortest relative path, "
         "up to the root of the tree and down again ('../../models'), absolute, each with detours ('x/..', '.', '../<same directory>'), './' and trailing slashes, duplicates; .sqruff and .sqruffignore in the working directory; "
         "with an ignore file the arguments stay below the working directory and explicit files are written plainly; the binary's lint keys (name and the location std::fs::canonicalize gives it) and the files rewritten by fix vs "
         "the Gallina pipeline over written arguments and directly vs the property text. (navlib) the same cases through Linter::lint_paths with the process's working directory set to that directory (one after the other). "
         "(norm) 20 random written paths per case: Gallina normalize vs sqruff_lib_core::helpers::normalize. non-trivial (nav) = an argument contains '..', a candidate is ignored or arguments repeat/overlap",
    assumptions=["file and directory names are ASCII without glob metacharacters; no symlinks; all paths lie under the root of the generated tree (the working directory is that root or, in the nav runs, a directory below it)",
                 "nav runs: a written path denotes what its components say (monitored against std::fs::canonicalize); with an ignore file the reported names are plain downward paths "
                 "(the command line's ignorer reads the name as written: see notes/C19.md, candidate defect)",
                 "ignore patterns use only the documented forms plus negation; '**' only as a whole path component",
                 "Gitignore::matched (one path on its own) of the ignore crate is the reference for a single level; the walk over the parents "
                 "is gitignore's: ignored iff some level is decided 'ignore' (the crate's matched_path_or_any_parents differs with negations "
                 "and on the empty path: both differences are counted in the evidence)"],
)
