CFG = dict(
    prop="C11", level="other", harness="c11",
    props_files=["theories/Props/C11.v", "theories/Props/Pem.v"], corr_file="theories/Corr/C11.v", corr_module="Corr.C11",
    groups={"skip": False, "strmatch": False, "subdiv": False},
    show_fn={"skip": "model_skip", "strmatch": "model_strmatch", "subdiv": "model_subdiv"},
    shard=200,
    design_ref="DESIGN.md 6.11",
    technique="Coq kernel lemmas (gap skipping, keyword matching, block-comment subdivision) + conditional theorem from engine "
              "non-interference, tied by correspondence; the property itself is explored by differential parsing of perturbed corpus texts",
    level_text="Claimed level: other. The theorem C11_from_engine is conditional on non-interference of the combinator engine, which is "
               "not proved (the engine is not modelled); the technique therefore does not decide C11 on its own. Proved for all inputs: "
               "skip_start_index_forward_to_code / skip_stop_index_backward_to_code read only is_code flags, never cross a code token and "
               "stop on code or the bound; StringParser/MultiStringParser see a token only through is_code and its ASCII-upper-cased raw, "
               "and re-casing preserves that; block-comment subdivision yields only comment/newline/whitespace kinds; every perturbation "
               "of the property preserves the code view. The property itself is decided by exploration: code-only tree of original vs "
               "perturbed text on the fully parsable corpus.",
    level_note="Trusted: Coq kernel; hand-written model tied by sampled correspondence (skip functions on real token lists, both keyword "
               "parsers on real tokens x templates, block comments through the real ANSI lexer; ASCII only). Exploration: 13 dialects x "
               "~1350 fully parsable texts x 11 perturbations x {global, random subset, single position} = ~51k perturbed parses quick. "
               "Claimed perturbation class for inserted comments: whitespace on both sides (DESIGN 6.11/8); comments abutting a code "
               "token on one side are measured separately and are a recorded known finding (greedy_match keyword-terminator guard).",
    rule="direct: one observation = (dialect, fully parsable text, perturbation, positions): parse original and perturbed with "
         "Linter::parse_string, compare the code-only serialisation (node types over code leaves, keyword raws upper-cased); fail also if "
         "the perturbed text gets unparsable sections or panics. correspondence: skip = the two Rust functions on real lexed token lists "
         "with random (idx, bound) incl. out-of-range; strmatch = StringParser/MultiStringParser::match_segments on real tokens; subdiv = "
         "ANSI lexer on generated block comments. non-trivial = skip moved / parser matched / comment split in >1 token",
    assumptions=["inputs of the keyword-parser and subdivision correspondence are ASCII (non-ASCII skipped and counted)",
                 "perturbation positions inside multi-line block comments are excluded (inserting '/* c */' there would end the comment)",
                 "the code-only view treats leaves of type keyword case-insensitively and every other leaf exactly"],
)
