CFG = dict(
    prop="C11", level="other", harness="c11",
    props_files=["theories/Props/C11.v", "theories/Props/Pem.v"], corr_file="theories/Corr/C11.v", corr_module="Corr.C11",
    groups={"skip": False, "strmatch": False, "subdiv": False, "bcmatch": False},
    show_fn={"skip": "model_skip", "strmatch": "model_strmatch", "subdiv": "model_subdiv", "bcmatch": "model_bcmatch"},
    shard=200,
    design_ref="DESIGN.md 6.11",
    technique="Coq kernel lemmas (gap skipping, keyword matching, native block-comment matcher, block-comment subdivision) + conditional theorem from engine "
              "non-interference, tied by correspondence; the property itself is explored by differential parsing of perturbed corpus texts",
    level_text="Claimed level: other. The theorem C11_from_engine is conditional on non-interference of the combinator engine, which is "
               "not proved (the engine is not modelled); the technique therefore does not decide C11 on its own. Proved for all inputs: "
               "skip_start_index_forward_to_code / skip_stop_index_backward_to_code read only is_code flags, never cross a code token and "
               "stop on code or the bound; StringParser/MultiStringParser see a token only through is_code and its ASCII-upper-cased raw, "
               "and re-casing preserves that; block-comment subdivision yields only comment/newline/whitespace kinds; the native block_comment matcher matches a comment of "
               "the perturbation class (any bytes, no NUL/opener/closer inside) as exactly its own byte length whatever follows; every perturbation "
               "of the property preserves the code view. The property itself is decided by exploration: code-only tree of original vs "
               "perturbed text on the fully parsable corpus.",
    level_note="Trusted: Coq kernel; hand-written model tied by sampled correspondence (skip functions on real token lists, both keyword "
               "parsers on real tokens x templates, block comments incl. multi-byte text and Unicode whitespace through the real ANSI lexer, every dialect's native block_comment "
               "matcher on comment + following text; keyword parsers ASCII only). Exploration: 13 dialects x "
               "~1400 fully parsable texts x 15 perturbations x {global, random subset, single position, single position next to an unusual "
               "token} = ~100k perturbed parses quick; perturbation material (comment bodies, inline comment text, whitespace runs) drawn per "
               "site from pools with multi-byte characters, stars/slashes, quotes, keywords, CR/CRLF, Unicode spaces, plus a sweep of every "
               "material x every dialect x every site of two small texts. "
               "Claimed perturbation class for inserted comments: whitespace on both sides (DESIGN 6.11/8); comments abutting a code "
               "token on one side are measured separately and are a recorded known finding (greedy_match keyword-terminator guard).",
    rule="direct: one observation = (dialect, fully parsable text, perturbation, positions): parse original and perturbed with "
         "Linter::parse_string, compare the code-only serialisation (node types over code leaves, keyword raws upper-cased); fail also if "
         "the perturbed text gets unparsable sections or panics. correspondence: skip = the two Rust functions on real lexed token lists "
         "with random (idx, bound) incl. out-of-range; strmatch = StringParser/MultiStringParser::match_segments on real tokens; subdiv = "
         "ANSI lexer on generated block comments (UTF-8); bcmatch = Pattern::matches of each dialect's native block_comment matcher on "
         "generated comment + tail texts (byte length of the match; a panic fails the blocking monitor "
         "H_block_comment_matcher_does_not_panic). non-trivial = skip moved / parser matched / comment split in >1 token / matcher matched",
    assumptions=["inputs of the keyword-parser correspondence are ASCII (non-ASCII skipped and counted)",
                 "inserted block comment bodies contain no NUL, no '/*' or '*/', do not end in '/' and do not start with '+' or '!' (hints)",
                 "a text counts as fully covered by its tree modulo the linter's own newline normalisation (CRLF, CR -> LF)",
                 "perturbation positions inside multi-line block comments are excluded (inserting '/* c */' there would end the comment)",
                 "the code-only view treats leaves of type keyword case-insensitively and every other leaf exactly"],
)
