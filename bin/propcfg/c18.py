import os
import shutil

import vlib


def _pre(ctx):
    """Build the real sqruff binary from the tree; give the harness the binary and a scratch directory."""
    cb = vlib.cli_build()
    if not cb["ok"]:
        vlib.log(cb["log"])
        ctx["R"].violation("broken-correspondence", dict(what="the sqruff binary does not build from the tree", log=cb["log"][-3000:]), False)
    scratch = os.path.join(vlib.CACHE, "scratch")
    os.makedirs(scratch, exist_ok=True)
    ctx["harness_extra"] = ["--sqruff", cb["bin"], "--scratch", scratch]


def _post(ctx):
    scratch = os.path.join(vlib.CACHE, "scratch")
    for d in os.listdir(scratch) if os.path.isdir(scratch) else []:
        if d.startswith("c18-"):
            shutil.rmtree(os.path.join(scratch, d), ignore_errors=True)


CFG = dict(
    prop="C18", level="proof", harness="c18",
    props_files=["theories/Props/C18.v"], corr_file="theories/Corr/C18.v", corr_module="Corr.C18",
    groups={"lint": True, "fix": True, "fixstdin": True, "stdinflag": False, "fed": False, "fixrep": True},
    show_fn={"lint": "model_lint", "fix": "model_fix", "fixstdin": "model_fixstdin", "stdinflag": "model_stdinflag", "fed": "model_fed",
             "fixrep": "model_fixrep"},
    pre=_pre, post=_post, shard=150,
    design_ref="DESIGN.md 6.18",
    technique="Coq proof (decision logic of run_lint / run_lint_stdin / run_fix / run_fix_stdin and the three formatters over abstract "
              "violation records) + correspondence of the model, fed with the library's LintedFile, with the real binary in 3 formats x 3 modes",
    level_text="C18_lint_exit / C18_formats_agree / C18_stdin_agrees / C18_fix / C18_fix_stdin are closed Coq theorems for every list of "
               "violation lists: lint exits 1 iff a non-warning violation is reported, all three formats report every violation and agree, "
               "stdin decides like a one-file path run, fix exits 1 iff an unfixable violation was found, writes every file's fixed text and "
               "nothing when nothing is reported. C18_lint_order / C18_lint_shared / C18_verbosity_agree: with the formatter as one object whose has_fail "
               "state is threaded through the dispatches, the exit code and every file's lines are independent of the dispatch order, of the "
               "configured verbosity (0 upwards) and of the format. C18_formatter_fed / C18_lint_front / C18_fix_front: the end of Linter::lint_parsed hands "
               "the formatter exactly the violations of the returned LintedFile (the collected ones the file's ignore mask does not cover), so what lint and "
               "fix print, count and exit with is the library's result. The model is tied to the binary built from the tree on every run.",
    level_note="Trusted: Coq kernel; hand-written model (tie = sampled correspondence); that path, directory and stdin entry points hand the "
               "same violations to the formatter as Linter::lint_string is established by the correspondence runs only; the text of the "
               "printed lines is abstracted to (line, column, rule code); no violation with warning=true exists in today's code.",
    rule="generated contents (1-3 files of 1-3 statements drawn from fixable / unfixable / clean / unparsable / malformed-noqa pools, or a "
         "rule-fixture snippet; no '-- sqlfluff' lines: C03) x 8 rule selections x 5 dialects x --parsing-errors on/off (the second file in a sub-directory) x formatter keys of the configuration (verbose 0..2, nocolor): `sqruff lint` in formats "
         "{human, github-annotation-native, json} x modes {directory, path, stdin, all files as arguments in a generated order, the reverse order with "
         "the sub-directory given as a directory (both with one worker thread: dispatch order = argument order)} parsed to (line, col, rule) "
         "multisets + header (PASS/FAIL) per file + exit status, "
         "`sqruff fix --force` on a directory and on a path (exit status, mtimes, contents) and `sqruff fix -` (stdout, exit status), each "
         "compared with the Gallina model fed with Linter::lint_string's violations / fix_string for the same content, and directly with "
         "the property text; what `sqruff fix` prints is compared with the library's violations as well (group fixrep). Class `masked`: statements "
         "decorated with noqa directives (line / range, all / named rules, malformed, inline / block comments) so that violations with and without "
         "a rule (parse errors, malformed directives) are covered by a directive. Library level: a recording implementation of the public Formatter "
         "trait attached to Linter::lint_string and Linter::lint_paths (lint and fix mode): handed once per file, exactly the returned violations, none "
         "covered by the file's own ignore mask; group fed: the end of lint_parsed (inputs rebuilt with parse_string + lint_fix_parsed + "
         "IgnoreMask::is_masked) against its model. non-trivial = at least one violation in the linted files",
    assumptions=["H_flags (monitored, blocking): no violation carries ignore=true",
                 "contents are ASCII without '-- sqlfluff' in-file configuration lines (stdin mode panics on those: C03)",
                 "verbose is within its documented range 0-2 (below 0 the human format is silent and exits 0: C18_human_quiet)",
                 "the library reference is Linter::lint_string with the same configuration text the binary reads through --config",
                 "IgnoreMask::is_masked is an oracle of the lint_parsed model (recorded per violation; the mask itself is C10)"],
)
