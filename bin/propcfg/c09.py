import os

import vlib

# Cases_C09_*.v need the generated registry in scope ([rules_dump]); replay_cases writes the header
# "From Sq Require Import Base.Corr <corr_module>." so the extra import rides on the module string.
CORR = "Corr.C09. From SqGen Require Import Registry"

REGISTRY_TAIL = r"""
Definition registry : list rule := register rules_dump.

(** rules() lists every code once, so get_ruleset drops nothing ... *)
Lemma dump_codes_unique : nodupb (codes rules_dump) = true.
Proof. vm_compute. reflexivity. Qed.
Lemma registry_is_dump : registry = rules_dump.
Proof. apply register_id. apply nodupb_NoDup. exact dump_codes_unique. Qed.
Lemma registry_nodup : NoDup (codes registry).
Proof. apply register_nodup. Qed.
(** ... and the model's registry keys are the keys the built code iterates over (observed with an unset allowlist) *)
Lemma registry_keys : codes registry = real_keys.
Proof. vm_compute. reflexivity. Qed.
Lemma registry_nonempty : registry <> [].
Proof. vm_compute. discriminate. Qed.
(** no rule name collides with a code (such a name would silently select the other rule) *)
Lemma no_name_is_a_code : forallb (fun r => negb (is_code registry (r_name r))) registry = true.
Proof. vm_compute. reflexivity. Qed.
(** no group collides with a code or a name (such a group would silently be unavailable) *)
Lemma no_group_is_a_code_or_name :
  forallb (fun r => forallb (fun g => negb (is_code registry g || is_name registry g)) (r_groups r)) registry = true.
Proof. vm_compute. reflexivity. Qed.
(** every rule is in group "all", listed first *)
Lemma all_is_first_group :
  forallb (fun r => match r_groups r with g :: _ => str_eqb g s_all | [] => false end) registry = true.
Proof. vm_compute. reflexivity. Qed.
(** every token the generators build selections from resolves *)
Lemma generator_tokens_resolve : forallb (known registry) generator_tokens = true.
Proof. vm_compute. reflexivity. Qed.
(** rules = all loads the whole registry: the reference run of the subset comparison is the run the theorem speaks of *)
Lemma all_selects_registry : get_rulepack registry (Some [s_all]) None = Some registry.
Proof.
  apply select_all.
  - exact registry_nonempty.
  - exact registry_nodup.
  - vm_compute. reflexivity.
  - vm_compute. reflexivity.
  - vm_compute. reflexivity.
Qed.
(** non-vacuity on the real registry: the default selection is a proper, non-empty sub-registry *)
Lemma default_selection_proper :
  match select registry default_rules None with
  | Some sel => andb (negb (is_empty sel)) (N.ltb (N.of_nat (length sel)) (N.of_nat (length registry)))
  | None => false
  end = true.
Proof. vm_compute. reflexivity. Qed.
Print Assumptions all_selects_registry.
"""
N_REGISTRY_OBLIGATIONS = 10


def pre(ctx):
    """Translator: dump the registry of the freshly built code into coq/gen/Registry.v and re-check the registry facts."""
    os.makedirs(vlib.GEN, exist_ok=True)
    dump = os.path.join(vlib.CACHE, "runs", "C09-registry-%d.v" % os.getpid())
    os.makedirs(os.path.dirname(dump), exist_ok=True)
    rc, out = vlib.sh([ctx["bin"], "c09", "--dump-registry", dump, "--out", "/dev/null"], timeout=300, env=ctx.get("env"))
    if rc != 0 or not os.path.exists(dump):
        ctx["R"].violation("translator-obligation", dict(what="registry dump failed", rc=rc, log=out[-2000:]), False)
        return
    body = open(dump).read()
    os.remove(dump)
    text = ("(** GENERATED on every run by bin/propcfg/c09.py from sqruff_lib::rules::rules() of the built tree. *)\n"
            "From Sq Require Import Base.Bytes Rules.Model Rules.Proofs.\nOpen Scope N_scope.\n" + body + REGISTRY_TAIL)
    for ext in (".vo", ".glob", ".vos", ".vok"):
        try:
            os.remove(os.path.join(vlib.GEN, "Registry" + ext))
        except OSError:
            pass
    ok, out = vlib.gen_check(ctx, "Registry.v", text, N_REGISTRY_OBLIGATIONS,
                             "registry facts on the dumped registry (codes unique, keys = real keys, no name/group collision, tokens resolve, all = whole registry)")
    if ok and "Closed under the global context" not in out:
        ctx["R"].violation("translator-obligation", dict(what="Registry.v: assumptions not closed", log=out[-1500:]), False)
    ctx.setdefault("extra_coverage", {})["registry_rules"] = body.count("r_code :=")
    ctx["extra_samples"] = [dict(kind="translator", file="coq/gen/Registry.v", first_rule=body.split("\n")[1][:300])]


CFG = dict(
    prop="C09", level="proof", harness="c09",
    props_files=["theories/Props/C09.v"], corr_file="theories/Corr/C09.v", corr_module=CORR,
    extra_targets=["theories/Rules/Proofs.vo"],
    groups={"select": True, "lint": True},
    show_fn={"select": "model_select", "lint": "model_lint"},
    pre=pre, shard=120,
    design_ref="DESIGN.md 6.9",
    technique="Coq proof (reference map = declarative 'code, else name, else group' specification; selection = ordered filter of the "
              "registry; lint loop over a selection = filter of the lint loop over the registry under H_indep) + translator "
              "(registry dumped from the built code into coq/gen/Registry.v, registry facts re-checked by vm_compute) + "
              "correspondence (real get_rulepack vs model select; real subset runs vs model lint loop fed with the all-rules run)",
    level_text="C09_refmap_known/_refers, C09_select_spec/_In/_nodup/_panics, C09_register_nodup are closed Coq theorems for every "
               "registry and every allow/deny list: the hash-map construction of rule_reference_map + expand_rule_refs + "
               "get_rulepack computes exactly the registry-ordered filter 'referred to by the allowlist and by no denylist entry'. "
               "C09_reported_in_selection, C09_skipped_never_reports and C09_subset are closed theorems about the crawl envelope "
               "and the lint-mode loop for every rule body, mask and input; C09_subset rests on H_indep (bodies do not depend on "
               "the other loaded rules), which is monitored on every subset run. The registry is regenerated from the built code "
               "on every run and the model's selection is compared with the real get_rulepack on ~1.7k generated configs.",
    level_note="Trusted: Coq kernel; harness dump printer; the hand-written model (tie = sampled correspondence). Rule bodies are "
               "oracles: independence (H_indep) is observed (subset run = filtered all run), not proved. Fix mode is not modelled "
               "(the property speaks of reported violations). Config values that parse as numbers/booleans are outside the model.",
    rule="select: every single code, name and group, the default and None, plus random rules/exclude_rules texts over codes, "
         "names, groups and unknown tokens with messy commas/blanks; real get_rulepack codes (or panic) vs model select on the "
         "dumped registry. lint: corpus files (own and cross dialect), rule fixture snippets, and the fixtures of rules with a "
         "dialect_skip under each skipped dialect with/without force_enable; each linted with rules=all and with generated "
         "selections; the model's lint loop fed with the all run must predict each subset run. non-trivial = the selection is a "
         "proper non-empty subset (select) / the subset run is non-empty and smaller than the all run (lint); distinct = distinct "
         "(args, expected) terms",
    assumptions=["H_indep: a rule's findings do not depend on which other rules are loaded (monitored: every subset run equals the filtered all-rules run)",
                 "rule selection texts are ASCII and do not parse as numbers/booleans (Rust trim() modelled for ASCII whitespace)",
                 "lint mode only (fix = false): in fix mode later rules see the tree edited by earlier ones by design"],
    trusted_extra=["harness/src/c09.rs registry printer (code, name, groups, dialect_skip, fix-compatibility, phase as returned by the Rule trait)"],
)
