CFG = dict(
    prop="C05", level="other", harness="c05",
    props_files=["theories/Props/C05.v"],
    groups={},
    design_ref="DESIGN.md 6.5",
    technique="Coq decomposition theorem (C05 for layout + capitalisation selections follows from C06, C16 and C11, by induction over the "
              "applied batches) + direct observation of parse(source) vs parse(fix(source)) over dialects x rule selections x fully parsable inputs",
    level_text="No mechanism in the code enforces C05 (the re-parse guard of the fix loop is 'if false'), so there is no kernel whose model "
               "could carry a proof: the technique does not decide C05 for code-rewriting rules (aliasing, ambiguous, convention, references, "
               "structure). What is machine-checked is the decomposition C05_decomposition: for any lexer, parser verdict and sequence of layout / "
               "capitalisation batches, C11 (verdict depends only on case-folded code tokens and gaps) + C06 + C16 imply that a parsable text "
               "stays parsable. Everything else is exploration: the property is observed directly on every run.",
    level_note="The antecedents of the decomposition are other properties (C06, C11, C16) and are only measured here (diagnostic monitors); the "
               "gap relation of C11 is abstract. Findings are keyed by (dialect, rule selection, input hash).",
    rule="inputs: dialect fixtures that parse with no Unparsable node and no parse violation (every 14th in quick, every 2nd in thorough), "
         "each as is, whitespace-scrambled, collapsed to single spaces, and with keyword case flipped; selections: all, core, the 7 rule groups, "
         "and every fix-compatible single rule (each input under all and core, corpus inputs under every group, plus a seeded sample of 6 (quick) / "
         "12 (thorough) further selections per input); observation: fix output re-parsed with the same dialect must have 0 Unparsable nodes and 0 "
         "parse violations. non-trivial = the fix changed the text (counted as changed_by_fix); no correspondence cases in this property",
    assumptions=["a crash of fix (C03's subject) leaves nothing to observe: counted and skipped",
                 "inputs that do not parse cleanly are outside the property's quantifier: counted and skipped"],
)


def _post(ctx):
    # distinct non-trivial = runs where fix changed the text (measured by the harness)
    for r in ctx.get("recs", []):
        if r.get("t") == "counts":
            ctx["extra_nontrivial"] = r["v"].get("changed_by_fix", 0)
            ctx["extra_samples"] = [dict(note="one observation = (dialect, selection, input): parse(fix(input)) must be clean",
                                         counts=r["v"])]


CFG["post"] = _post
