CFG = dict(
    prop="C05", level="other", harness="c05",
    props_files=["theories/Props/C05.v"],
    groups={},
    design_ref="DESIGN.md 6.5",
    technique="Coq decomposition theorem (C05 for layout + capitalisation selections follows from C06, C16 and C11, by induction over the "
              "applied batches) + direct observation of parse(source) vs parse(fix(source)) over dialects x rule selections x rule configurations x fully parsable inputs",
    level_text="No mechanism in the code enforces C05 (the re-parse guard of the fix loop is 'if false'), so there is no kernel whose model "
               "could carry a proof: the technique does not decide C05 for code-rewriting rules (aliasing, ambiguous, convention, references, "
               "structure). What is machine-checked is the decomposition C05_decomposition: for any lexer, parser verdict and sequence of layout / "
               "capitalisation batches, C11 (verdict depends only on case-folded code tokens and gaps) + C06 + C16 imply that a parsable text "
               "stays parsable. Everything else is exploration: the property is observed directly on every run.",
    level_note="The antecedents of the decomposition are other properties (C06, C11, C16) and are only measured here (diagnostic monitors); the "
               "gap relation of C11 is abstract. Findings are keyed by (dialect, culprit rule, its non-default options[, parser stop tokens for layout-only batches]).",
    rule="inputs (all must parse with no Unparsable node and no parse violation): C06's token-adjacency probes and minimised earlier failures; "
         "dialect fixtures (every 14th in quick, every 2nd in thorough) as is, whitespace-scrambled, collapsed to single spaces, keyword case flipped; "
         "single statements cut out of all fixtures; joint-*: a line-ending inline comment / block comment / bare line break put at one joint between "
         "two code tokens, also where the source has no gap (a[1], x::int, f(, s.t) - at every joint of touch-site probes, sampled (biased to brackets, "
         "casts, dots, colons, signs) in fixture statements, the rest of the statement exploded to one token group per line; option: fixture statements "
         "relevant to a rule (trigger words; every distinct local context of the trigger in the dialect's fixtures is met first) under every non-default "
         "value of every option a fix-compatible rule reads (48 configurations, listed in stats), rule alone and inside its group / all; synth: generated "
         "queries with 1-4 sources (tables, aliased and unaliased derived tables, nested, VALUES, LATERAL, table functions, CTE references, FROM elements / "
         "JOIN clauses / SELECTs cut out of the fixtures) x every join kind the dialect parses (semi, anti, asof, natural, comma ...) x ON / USING / none, "
         "alone or under CTEs, set operators, INSERT / CREATE .. AS, derived wrappers; snippet: the repository's own yaml cases of each rule under the rule, all, "
         "and every non-default option value of the rule (alone / group / all); script: 2-3 statements in one file, each ended in one of nine ways "
         "(terminator on the line, on its own line, before / behind an inline or block comment, next statement on the same line, none at the end of "
         "the file), statements as in the fixtures or one token group per line, under all x {default, every configuration of the terminator rule, a "
         "combined one, another rule's option} and narrower selections by lot; templated-*: sources of the placeholder templater whose rendered text "
         "parses (source and fix output are parsed through the templater): token-level twins (one value or a short run of tokens per placeholder, a "
         "random subset or exactly one; the template renders to the text it was made from) of rule cases, fixture statements (as is / one token group "
         "per line / scrambled) and generated queries, c04::templatise over fixture statements, c04::gen_shape. selections: all, core, the 7 groups, every fix-compatible single "
         "rule; configurations: default, the 48 option configurations, two combined ones (first / last non-default value of every rule at once), the layout "
         "configurations of C06; each also with the placeholder templater and per-input parameters. observation: fix output re-parsed with the same dialect and configuration must have 0 Unparsable nodes and 0 parse "
         "violations; a failure is classed by (dialect, rule whose batch first made the text unparsable - found by replaying the recorded batches -, that "
         "rule's non-default options, and for a layout-only batch the tokens at which the parser stops; an earlier batch whose text no longer re-lexes to the code leaves of its tree - fused "
         "tokens, code behind an inline comment - takes the blame from the batch that made it visible; a templated failure carries ':templated' unless "
         "the rendered text fails as a plain file too, and is classed fixed-file-is-not-the-fixed-tree when every batch left a parsable tree but the "
         "fixed file does not render to the final tree). non-trivial = the fix changed the text "
         "(counted as changed_by_fix); no correspondence cases in this property",
    assumptions=["a crash of fix (C03's subject) leaves nothing to observe: counted and skipped",
                 "CV10 force_enable is explored only in the dialects whose double-quoted tokens are string literals (bigquery, sparksql, databricks, mysql): "
                 "elsewhere the option is documented as turning literals into identifiers",
                 "inputs that do not parse cleanly are outside the property's quantifier: counted and skipped",
                 "templated inputs: only the placeholder templater (pure Rust); a parameter set the configuration rejects is counted and skipped"],
)


def _post(ctx):
    # distinct non-trivial = runs where fix changed the text (measured by the harness)
    for r in ctx.get("recs", []):
        if r.get("t") == "counts":
            ctx["extra_nontrivial"] = r["v"].get("changed_by_fix", 0)
            ctx["extra_samples"] = [dict(note="one observation = (dialect, selection, input): parse(fix(input)) must be clean",
                                         counts=r["v"])]


CFG["post"] = _post
