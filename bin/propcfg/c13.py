"""C13 — parser shortcuts do not change the result.

harness `sqv c13`: (1) static: writes coq/gen/Keys_<d>.v (cache keys of every node that can be an option of
longest_match, by behaviour class); (2) direct observation: parse trees with cache/pruning on vs off, repeated,
fresh dialect, threads sharing one dialect; every fixture under every other dialect (cache off, prune off); big
generated inputs (> 2^16 tokens / memo locations) and slice-length straddles (2^8, 2^16) with the cache on vs off;
(3) correspondence: recorded longest_match calls replayed on the model; (4) monitors: cache hits vs recomputation,
location keys vs (token, slice length).
c13x.rs adds: the pruning decision on generated prune_options calls (group `prune`), the audit of first-token hints,
grammar-directed sentences into every option (aimed / confusable), placeholder-templated inputs and configuration
histories (a Dialect / Linter reused under changing [sqruff:indentation] switches vs instances that never saw another
configuration; trees compared with their meta segments).
post: the 13 Keys_<d>.v obligations are compiled by coqc."""
import os

import vlib

DIALECTS = ["ansi", "athena", "bigquery", "clickhouse", "databricks", "duckdb", "mysql", "postgres",
            "redshift", "snowflake", "sparksql", "sqlite", "trino"]


def _pre(ctx):
    os.makedirs(vlib.GEN, exist_ok=True)
    for f in os.listdir(vlib.GEN):
        if f.startswith("Keys_"):
            os.remove(os.path.join(vlib.GEN, f))
    ctx["harness_extra"] = ["--gen-dir", vlib.GEN]


def _post(ctx):
    R = ctx["R"]
    if ctx.get("replay"):
        return
    items = []
    for d in DIALECTS:
        p = os.path.join(vlib.GEN, "Keys_%s.v" % d)
        if os.path.exists(p):
            items.append(("Keys_%s.v" % d, open(p).read(), 2,
                          "H_key_inj (static): among the possible options of longest_match in dialect %s two nodes with the "
                          "same cache key are structurally identical clones" % d))
        else:
            ctx["extra_obligations"] += 2
            R.violation("translator-obligation", dict(what="no cache-key dump for dialect " + d), False)
    res = vlib.gen_check_many(ctx, items, timeout=900)
    recs = ctx.get("recs", [])
    stats = [r["v"] for r in recs if r.get("t") == "stat" and isinstance(r.get("v"), dict) and "option_set_K" in r["v"]]
    counts = [r for r in recs if r.get("t") == "counts"]
    c = counts[0]["v"] if counts else {}
    ctx["extra_nontrivial"] = c.get("nontrivial_inputs", 0)
    ctx["extra_coverage"] = dict(
        static_key_check=stats, inputs_by_class={k: v for k, v in c.items() if k.startswith("inputs_")},
        differences_masked_by_C14_dangling_abort=c.get("differences_masked_by_C14_dangling_abort", 0),
        lm_calls_recorded=c.get("lm_calls_recorded", 0),
        cache_hits_audited=c.get("cache_hits_audited", 0),
        cache_hits_differing_from_recomputation=c.get("cache_hits_differing_from_recomputation", 0),
        location_keys_audited=c.get("location_keys_audited", 0),
        configuration_histories={k: v for k, v in c.items() if k.startswith("config_history_")},
        big_inputs=[r["v"] for r in recs if r.get("t") == "stat" and isinstance(r.get("v"), dict) and "big_input" in r["v"]],
        big_inputs_reaching_2_16={k: v for k, v in c.items() if k.startswith("big_inputs_with_")},
        slice_length_sites={k: v for k, v in c.items() if "slice_length_sites" in k},
        pruning_decision={k: v for k, v in c.items() if k.startswith("prune_") and not k.startswith("prune_calls_pattern_")},
        pruning_decision_patterns={k[len("prune_calls_pattern_"):]: v for k, v in c.items()
                                   if k.startswith("prune_calls_pattern_") and len(k) <= len("prune_calls_pattern_") + 2 or k.startswith("prune_calls_pattern_r") or k.startswith("prune_calls_pattern_g")},
        grammar_directed={k: v for k, v in c.items() if k in ("K_nodes_without_a_known_sentence", "alternatives_with_a_confusable_first_token",
                                                              "options_pruned_at_their_own_sentence", "K_nodes_on_a_left_corner_cycle(not asked for a hint)")},
        unsound_hints=[r["v"]["unsound_hint"] for r in recs if r.get("t") == "stat" and isinstance(r.get("v"), dict) and "unsound_hint" in r["v"]][:12],
        generated_key_theorems_closed=sum(out.count("Closed under the global context") for _, (ok, out) in res.items()),
    )
    # pruning on the interpreter of the whole engine: the side condition hints_sound_b of Pem_prune_transparent (Props/C13.v) on every
    # dumped graph + the theorem instantiated (coq/gen/PemPrune_<d>.v), and - on the recorded real parses of a few dialects - the
    # interpreter against the real parser, the token premise and the reference twin (pruning off) against the real pruning parser
    import cpem
    if ctx["tier"] == "thorough":
        case_d = DIALECTS
    else:   # quick: one dialect, rotating with the seed (the reference twin runs without pruning: about twice the cost of the replay itself)
        case_d = [DIALECTS[ctx["seed"] % len(DIALECTS)]]
    # quick: at most 15 recorded parses, the reference twin on every one of them
    cpem.pem_stage(ctx, dialects=DIALECTS, with_cases=True, hints_sound=True, case_dialects=case_d,
                   max_cases=(None if ctx["tier"] == "thorough" else 15), prune_stride=1)


CFG = dict(
    prop="C13", level="proof", harness="c13",
    props_files=["theories/Props/C13.v"], corr_file="theories/Corr/C13.v", corr_module="Corr.C13",
    groups={"lm": False, "prune": True}, show_fn={"prune": "model_prune"}, pre=_pre, post=_post, shard=250, harness_timeout=2400,
    extra_targets=["theories/Corr/Pem.vo", "theories/Pem/NoPanicMon.vo", "theories/Pem/PruneMon.vo"],   # imported by the generated PemGrammar_<d>.v / PemPrune_<d>.v / Cases_PEM_* of the Pem stage
    design_ref="DESIGN.md 6.13",
    technique="Coq proof of cache and pruning transparency of the longest_match loop (memoisation invariant; pruned options are "
              "no-matches) + static key-injectivity obligation on the dumped grammar graphs + direct observation of parse trees "
              "with the shortcuts switched off by cfg(sqruff_verif) hooks + replay of recorded longest_match calls on the model "
              "+ Coq proof of pruning transparency of the Gallina interpreter of the whole parser engine (hint soundness by induction on "
              "fuel, one lemma per engine algorithm) with a decidable per-dialect side condition on the dumped grammar graphs",
    level_text="C13_longest_match_spec / C13_shortcuts_transparent are closed Coq theorems: for every option list, cache state "
               "satisfying the invariant and every sequence of calls, longest_match returns the same result under all four "
               "settings of {cache, pruning}, under H_mfn (match result is a function of (loc_key, cache_key) = key injectivity + "
               "context determinism), H_probe and H_simple_sound. Key injectivity is discharged statically per dialect "
               "(keys_injective_<d>, vm_compute over all possible options); the cache invariant is audited at run time on every "
               "cache hit of sampled parses; H_simple_sound and H_ctx are not provable from the grammar data alone and are "
               "covered by the direct on/off comparison of parse trees. The location key is an input of the model: that it identifies "
               "(token, slice length) is monitored on every longest_match call of the audited parses (H_loc, blocking). "
               "Pruning is also proved transparent on the Gallina interpreter of the WHOLE parser engine (Pem.Model, validated against "
               "the real parser on every run): Pem_hint_sound discharges H_simple_sound there - on a graph whose dumped hints pass the "
               "decidable check hints_sound_b (every hint pruning can act on is justified by the hints of the node's children per the "
               "rules of simple(); generated obligation pem_hints_sound per dialect, all 13 graphs) a node whose hint excludes the code "
               "token at idx never matches, for every token array, oracle, fuel, slice and context - and Pem_prune_transparent: whenever "
               "the reference run (pruning off, no SQLParseError swallowed by Ref.exclude) yields a match result, the pruned interpreter "
               "yields the same, under the token premise toks_ok (monitored on recorded parses: it excludes numeric literals, see "
               "level_note). The unpruned twin is the interpreter itself on tokens with p_fnw erased (Pem_np_prune_is_identity). "
               "Four _refuted witnesses pin why each premise is there (too-small hint, NodeMatcher kind shortcut, error outcomes, the "
               "first-token rule before repo fix 7c6e134).",
    level_note="Conditional theorem: H_ctx (the cache key omits the active terminators) is known not to hold in general and is "
               "observed only through the end-to-end comparison (13 dialects x corpus/cross-dialect/corrupted inputs x "
               "{cache off, prune off, both off, repeat, fresh dialect, 8 threads sharing a dialect}); the loop model is tied to "
               "the code by replaying recorded calls. Behaviour classes for the key check use the derived Debug rendering. "
               "Interpreter theorem: (a) it speaks about outcomes ROk of the reference run only - equality on SQLParseError outcomes is "
               "false in the model even with sound hints (Pem_error_outcomes_differ_refuted: a dropped Delimited would have asked a context "
               "terminator that raises the error); (b) token premise T3: NodeMatcher::match_segments accepts a token that already carries "
               "the node's kind whatever its grammar's hint says; one node kind is also a lexer token kind (numeric_literal: "
               "QualifiedNumericLiteralSegment, hint {+,-}), so token arrays with a number are outside the theorem: there the pruned and "
               "the unpruned MatchResult can differ structurally (postgres `SELECT a[1]`: bare one-token span vs Newtype numeric_literal) "
               "while the trees are identical (observed by the tree comparison and counted by the monitor reference_twin_equals_real_root_match); "
               "(c) the parse cache is not part of the interpreter.",
    rule="inputs: every dialect fixture (<= 2.5 kB quick / 6 kB thorough) under its own dialect, under 1 (quick) / 12 (thorough) "
         "other dialects, rule-fixture snippets under a random dialect, token-level corruptions (delete/duplicate/swap/insert "
         "keyword/truncate/split), hand-written stress inputs, slice-length straddles at 255/256/257 tokens; each parsed 6 ways "
         "and compared (direct observations); every fixture (<= 6 kB quick / 20 kB thorough) under each of the 12 other dialects "
         "parsed 3 ways (baseline, cache off, prune off); big inputs parsed 2 ways (baseline, cache off), each parse on its own "
         "thread beside the worker pool: 6 generated shapes (many statements, VALUES list, select list, nested statements, IN list, "
         "VALUES in a scalar sub-query) of 66k-141k tokens, two of them beyond 2^16 memo locations (thorough: + every shape at "
         "exactly 65535/65536/65537/131072 tokens and at 200k tokens), and slice-length straddles at 65536 tokens: for every "
         "place of an explored input where one matcher at one token answers differently on two slice lengths (found with the "
         "longest_match recorder on the unchanged input), the input with block comments inserted so that the two slices are "
         "exactly 2^8 (+-1) / 2^16 tokens apart; "
         "grammar-directed sentences: for every node of the option set K of every dialect a complete statement (shortest token "
         "prefix that brings the parser to the node + shortest sentence of the node + shortest completion of the enclosing "
         "sequences/brackets; string parsers with every text they accept) = class aimed, and the same with the first token "
         "replaced by a text that another alternative of the same option list claims through its raw hint while this alternative "
         "claims it through its type hint = class confusable; parsed 3 ways; "
         "placeholder-templated inputs (values that render to several tokens with repeated tokens; C04's shape and corpus "
         "generators, 7 placeholder styles) parsed through Linter::parse_string 5 ways (baseline with both audits, cache off, "
         "prune off, both off, repeat), CPU limit 15 s per parse; "
         "configuration histories: per dialect and history (2: starting with every indentation switch off / on) one reused Dialect "
         "(Parser::new(&dialect, switches)) and one reused Linter (Linter::config_mut rewrites [sqruff:indentation]) parse 8 skeleton "
         "statements (JOIN/USING/ON/CTE/CASE) and 7 (quick) / 40 (thorough) fixtures of the dialect holding such words under each of "
         "16-17 (quick) / 30 (thorough) settings of the 8 switches (all off, defaults, each alone, defaults with one flipped, random, all on) "
         "in an order reshuffled per input; each serialised tree (Indent/Dedent/Implicit metas included) is compared with the tree of a "
         "dialect instance that only ever parsed under that setting, a difference is confirmed against an instance that never parsed "
         "(fresh Dialect / Linter built by FluffConfig::from_source with the switches in its source); "
         "group prune: the real prune_options on generated calls = every token of the dialect's vocabulary (every text a string "
         "parser of the grammar accepts, keyword sets, generic lexemes and operators, one token per token kind of the fixtures) x "
         "option lists of real nodes of K: every ordered pair of {kept by raw hint, kept by type hint, by both, not simple, dropped} "
         "(quick: pairs with at least one claiming option), longer lists drawn over the five categories, real option lists holding an "
         "option that claims the token (in order, shuffled, windows of long lists), random sub-lists of K, and the same lists asked at "
         "the white space behind the token; survivors compared with Cache.Model.prune (= filter keep); "
         "correspondence cases = recorded longest_match calls (3 switch settings) of every 12th (quick) / 6th (thorough) input; "
         "non-trivial input = baseline parse produced a tree and the input has >= 4 words; non-trivial call = >= 2 options and "
         "(a cache hit, a pruned option or a terminator probe); distinct = distinct (args, expected) of calls + distinct non-trivial inputs",
    assumptions=[
        "H_mfn: the result of matching an option at a position depends only on (loc_key, cache_key) and nested calls keep the "
        "cache consistent (key part discharged statically on K; context part observed end to end only)",
        "H_simple_sound: an option whose simple() hint excludes the next code token cannot match (observed end to end: prune-off vs "
        "prune-on trees; monitored, blocking: every reachable reference has the hint of the element it resolves to, every option of K "
        "survives pruning at its own shortest sentence and at every text its string parser accepts, an option dropped in a generated "
        "prune_options call does not match at that token; known exception kept as a diagnostic monitor: a NodeMatcher takes a token "
        "that already has its kind without consulting the grammar the hint is computed from; proved on the interpreter of the whole "
        "engine as Pem_hint_sound under hints_sound_b, a generated obligation per dialect)",
        "H_toks_ok (premise of Pem_prune_transparent, diagnostic monitor on recorded parses): a code token whose ASCII-upper-cased raw is a "
        "string-parser template upper-cases to the same string under to_uppercase, its class types contain its type, and it does not carry "
        "the kind of a NodeMatcher in scope whose hint lacks that kind (fails for numeric literals)",
        "H_loc: a location key identifies (token raw, working location, token type, slice length) within one parse (monitored, "
        "blocking: every longest_match call of the audited parses, including the big inputs beyond 2^16 locations)",
        "indentation switches reach the parser (monitored, blocking: in every dialect at least 5 of the 7 JOIN/CTE/CASE skeleton statements have "
        "different trees with all switches off and all on - a process-wide remembered answer would make all instances agree with each other)",
        "a parse that aborts in Dialect::ref (C14 known findings) has no tree; on/off differences where one side is such an abort are counted, not reported",
    ],
    trusted_extra=["cfg(sqruff_verif) switches in context.rs/match_algorithms.rs and the longest_match recorder, cache-hit audit and location-key audit (repo commits verif-hook: ...)"],
)
