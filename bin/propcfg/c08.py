CFG = dict(
    prop="C08", level="proof", harness="c08",
    props_files=["theories/Props/C08.v"], corr_file="theories/Corr/C08.v", corr_module="Corr.C08",
    groups={"linepos": True, "viol": True, "marker": False, "parent": False},
    show_fn={"linepos": "model_linepos", "viol": "model_viol", "marker": "model_marker", "parent": "model_parent"},
    shard=100,
    design_ref="DESIGN.md 6.8",
    technique="Coq proof (newline table + partition point = scan specification, by induction over the text with an offset "
              "accumulator) + correspondence of the Gallina model with direct calls of get_line_pos_of_char_pos and with "
              "the violations / position markers of linted files under raw and placeholder templating",
    level_text="C08_line_pos / C08_violation / C08_parse_error / C08_in_file are closed Coq theorems for every text, offset and marker: the "
               "modelled lookup never panics and returns (1 + newlines before p, p - start of line + 1); a violation built "
               "by set_position_marker carries its marker's source range and the line/column of the start of that range "
               "in the source text; (line, column) is injective in the offset; parent markers keep ranges inside the file. "
               "The model is tied to the code on every run by recomputing every reported (line, column, range) from the "
               "source text with the model (vm_compute) and in plain Rust.",
    level_note="Trusted: Coq kernel; the model is hand-written (tie = sampled correspondence); slice::binary_search is modelled by "
               "its documented contract on a strictly increasing slice (the table is proved strictly increasing); the clause "
               "'the range lies within the file' is C08_in_file: composition of C15's map theorem (token ranges inside the source), "
               "C08_parent_range and C08_violation, for token markers and spans of tokens; markers of meta/fix-created segments are "
               "outside it and the clause is also observed directly on every violation and marker.",
    rule="(linepos) random texts (0-60 bytes, newline density 0-90%, newline at start/end, runs of newlines; one third "
         "templated with a length/line-count changing value) x offsets 0, every newline and its neighbours, len, beyond len: "
         "real get_line_pos_of_char_pos(p, true|false) vs the model. (viol, marker) generated SQL files (19 skeletons with "
         "layout/capitalisation/alias violations after the placeholder slots, parse errors, malformed noqa directives) x "
         "raw templating or placeholder templating (10 parameter styles incl. a custom regex; values absent/shorter/longer/"
         "multi-token/multi-line/empty) x 8 rule selections x 13 dialects, linted with lint_string; every reported "
         "(line_no, line_pos, source_slice) and every parse-tree marker's source/templated position vs the model run on the "
         "source text. non-trivial = a replacement with non-zero net length change lies before a reported violation "
         "(linepos: the text has a newline; marker: some marker's templated start differs from its source start). "
         "Non-ASCII classes (two fifths of the linepos texts, a quarter of the linted files): 2/3/4-byte UTF-8 characters in "
         "the texts and replacement values (linepos, offsets also at / inside / after multi-byte characters) and in leading, "
         "inline and block comments, string literals, quoted identifiers, bare words, replacement values and parameter "
         "names of the linted files, before line breaks and before the violations: byte offsets differ from character "
         "indices, so a newline table, lexer or templater offset counted in characters shows as a wrong line/column; "
         "for these a file is also non-trivial when a violation lies on a later line than a multi-byte character",
    assumptions=["column unit is the implementation's own (bytes from the start of the line + 1)",
                 "the source text compared against is the linter's newline-normalised source (TemplatedFile.source_str); generated inputs contain no CR in the viol/marker groups",
                 "non-ASCII text is valid UTF-8 (the API takes &str); columns after a multi-byte character count its bytes, as the implementation does",
                 "files on which linting panics report nothing and are counted, not judged (crashes are C03's subject)",
                 "that token source ranges lie inside the file is C15's theorem; here it is observed per violation/marker"],
)
