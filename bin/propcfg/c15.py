CFG = dict(
    prop="C15", level="proof", harness="c15",
    props_files=["theories/Props/C15.v"], corr_file="theories/Corr/C15.v", corr_module="Corr.C15",
    groups={"process": True, "lex": True, "lexsyn": True, "lit": False},
    show_fn={"process": "model_process", "lex": "model_lex", "lexsyn": "model_lex", "lit": "model_lit"},
    shard=150,
    design_ref="DESIGN.md 6.15",
    technique="Coq proof about a Gallina model of PlaceholderTemplater::process, the TemplatedFile constructor checks and the "
              "lexer's iter_segments + correspondence of each with the real code on generated and synthetic inputs",
    level_text="(filled in below)",
    level_note="(filled in below)",
    rule="(filled in below)",
    assumptions=[],
)
