CFG = dict(
    prop="C15", level="proof", harness="c15",
    props_files=["theories/Props/C15.v"], corr_file="theories/Corr/C15.v", corr_module="Corr.C15",
    groups={"process": True, "lex": True, "lexsyn": True, "lit": False},
    show_fn={"process": "model_process", "lex": "model_lex", "lexsyn": "model_lex", "lit": "model_lit"},
    shard=220,
    design_ref="DESIGN.md 6.15",
    technique="Coq proof about a Gallina model of PlaceholderTemplater::process, the TemplatedFile constructor checks and the "
              "lexer's iter_segments + correspondence of each with the real code on generated and synthetic inputs",
    level_text="Closed Coq theorems, for every input: C15_render_tiling / C15_process_total (process under the regex contract "
               "H_caps never panics, renders exactly the substitution, slices tile both texts, literal slices cover identical "
               "text, raw slices tile the source, the TemplatedFile constructor accepts them); C15_map / C15_map_pieces / C15_local "
               "(iter_segments on every well-formed slice list and element list is total, every token's source range = map_spec of "
               "its own rendered range, tokens tile the elements, only whitespace is split and only at literal-slice ends, the tokens "
               "of an element are a function of the slice list and that element alone); C15_process_lex (composition + ranges inside "
               "the source). The repaired iter_segments (fix 7940035) is what is modelled; the pre-repair loop is kept as "
               "iter_segments_legacy with four _refuted witnesses. Model tied to the code on every run by three correspondences "
               "(process, lex on real templated files, lex on synthetic slice lists) plus direct observation of the property.",
    level_note="Trusted: Coq kernel; the hand-written model (tie = sampled correspondence: quick ~2.4k templated sources x 19 styles (11 built-in + 8 custom regexes), "
               "2.2k synthetic slice lists; thorough 36k + 33k); the regex engine (fancy_regex captures_iter) is an oracle whose "
               "answer is recorded and whose contract H_caps is monitored on every call; the SQL lexer's tokenisation is an oracle "
               "(the lexed elements are recorded by lexing the rendered string on its own; contract wf_elems monitored); "
               "matcher.name == 'whitespace' is observed as SyntaxKind::Whitespace; config parsing is not modelled (the placeholder "
               "section map is read back from the FluffConfig); to_source clamps a negative intermediate to 0 where the code wraps "
               "(unreachable on slice lists the constructor accepts); only byte offsets (no char-boundary panics) are modelled.",
    rule="placeholder sources: 12 base queries + rule-fixture snippets, 0-4 placeholders of one of the 11 built-in styles or eight "
         "custom regexes (named; positional; four whose param_name group is optional so that one file mixes named and positional "
         "placeholders, incl. numeric names colliding with positions; extra capture groups beside param_name; a param_name that can "
         "match the empty string), placed as a separate token, glued to an identifier, inside a quoted string, inside a "
         "whitespace run, adjacent, at file start/end; values absent/empty/int/bool/shorter/equal/longer/multi-token/multi-line/"
         "blank-padded/invalid (float, none); 13 dialects. synthetic: rendered strings of words, blanks, commas, quotes, comments, "
         "newlines cut at random offsets into literal/templated slices with zero-length slices of several types in between, plus a "
         "malformed stream (block_start/comment/escaped slices with text). Each case: real code vs Gallina model (vm_compute). "
         "direct: rendered = substitution, tiling, literal identity, token source range = map_spec (Rust re-implementation), tokens "
         "refine elements, end-of-file marker. non-trivial = process: rendered text differs from the source; lex: at least one "
         "element straddles a slice border; distinct = distinct (args, expected) pairs",
    assumptions=["H_caps: the regex engine returns captures in order, non-overlapping, inside the source (monitored, blocking)",
                 "wf_elems: the lexer returns non-empty elements contiguous from offset 0 inside the rendered text (monitored, blocking)",
                 "wf_slices: templated ranges contiguous from 0 and text-bearing slices literal/templated - proved for process output "
                 "(C15_render_tiling) and monitored; enforced by TemplatedFile::new for other templaters except the slice types",
                 "element.matcher.name == \"whitespace\" iff the token's SyntaxKind is Whitespace (true of all 13 dialect lexers today)"],
)
