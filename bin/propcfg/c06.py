CFG = dict(
    prop="C06", level="proof", harness="c06",
    props_files=["theories/Props/C06.v"], corr_file="theories/Corr/C06.v", corr_module="Corr.C06",
    extra_targets=["theories/FixTree/Examples.vo"],
    groups={"batch": False, "run": False, "synth": False},
    show_fn={"batch": "show_batch", "run": "show_run", "synth": "show_batch"},
    shard=40,
    design_ref="DESIGN.md 6.6",
    technique="Coq proof (refinement of apply_fixes to a lookup-based rewriting specification of the tree and of the leaf list; "
              "induction over the batches of the fix loop; text-level statement from tree-level preservation + re-lex stability) + "
              "correspondence of the Gallina apply_fixes / fix loop with every batch the real fix loop applies (cfg hook) + "
              "direct observation of lex(source) vs lex(fix(source)) vs final tree",
    level_text="Proved for all trees, fix lists and numbers of batches (closed Coq theorems): the modelled apply_fixes / "
               "compute_anchor_edit_info compute the lookup-based rewriting of the tree (C06_apply_fixes_refines, C06_apply_batch_spec, "
               "C06_leaves_rewrite: no edit dropped, duplicated or misplaced), batches that are code-neutral on that specification "
               "preserve the code-token sequence and the comment multiset through the whole fix loop (C06_tree), and the property as "
               "stated on texts follows when the final tree re-lexes to its own tokens (C06_text). What the reflow engine emits is not "
               "modelled: code-neutrality of each batch and re-lex stability of the final tree are hypotheses of the theorems that are "
               "observed on every run (blocking), not proved - C06_relex_not_implied shows the second one cannot follow from the first. "
               "The failures found on the original tree (token fusion by 'touch', comments swallowing code, LT10 reordering, LT08 duplicate ids) "
               "were repaired in the repository (fixed: lines in known_findings.txt).",
    level_note="Trusted: Coq kernel; the hand-written model (tie = sampled correspondence on every applied batch: trees compared with "
               "ids, kinds, classes, raws and structure); positions and source_fixes are not modelled (no_source_fixes monitored); rule "
               "bodies and the reflow engine are oracles whose output (the fix lists) is recorded data; the dialect lexer is an oracle in C06_text.",
    rule="inputs: 30 hand-written token-adjacency probes x layout configs, 9 minimised earlier failures with their configuration, and every 4th (quick) / every (thorough) dialect fixture "
         "as is, whitespace-scrambled (every whitespace run replaced by random spaces/tabs/newlines, newline kept after inline comments) "
         "and collapsed to single spaces, each under one (quick) / four (thorough) of 9 layout configurations (indent unit/size, comma "
         "and operator line position, max line length 0/20/30/40/80, trailing comments before/after), rules = layout, 13 dialects. "
         "Gap variations (the same tokens, one or two gaps between them given another shape out of: nothing, one space, three spaces, line break, "
         "empty line, line break + indent; a line break is kept after an inline comment): every single-gap variation (all gaps, both file ends) of the "
         "probes and of 15 sibling probes (several CTEs / select targets / set operators / statements / function calls / operators / WHEN branches / value "
         "tuples in one statement) under the default and randomly another layout configuration, the separator gaps (after , ) ; before , ; and the file ends) "
         "of the sibling probes again under comma-leading, operator-trailing and maxlen20-after, every two-gap variation over the separator gaps of the "
         "sibling probes (quick: one in four), and the 13 layout rules' own fixture snippets as they are plus 4 (quick, separator gaps) / 40 (thorough, all gaps) "
         "single-gap variations each. Rule selections: every probe, gap variation and corpus file is run with rules = layout and then again with each rule "
         "that proposed fixes selected alone (not LT01, which is first in the pack; LT02 alone only for the probes in the quick tier), since 'only layout rules "
         "selected' includes selections of fewer rules, where a rule meets the input as written. "
         "Comments that touch the code x layout options: 36 probes (the above plus 6 multi-line ones with operators, commas and keywords at line starts / ends) get, at each gap "
         "next to a token an option acts on (c17's option rows: operators for their line position, commas, keywords of the indentation switches; every gap for the options about "
         "comments and line breaks), each of 10 comment shapes without a space between comment and code (inline / block / multi-line block; in front, behind, both, ending or starting a line), "
         "under every layout option alone at every non-default value (18 configurations), the hand-written comma / operator configurations and 5 combinations (quick: one in ten under the "
         "options that move tokens past comments, one in forty under the others; thorough: all). Multi-line block comments (5 shapes: starting at a line end, between tokens, touching, alone on "
         "lines, with an empty line inside) at every gap of these probes under the largest line length limit of a ladder (10..120) that makes the line on which the comment starts too long "
         "(quick: one in three), plain and with an option row (one in three; half of them the options about comments), and under the default limit when that line exceeds 80. "
         "The corpus variants: 'commented' also inserts comments touching the code and multi-line block comments, 'commentate' is c17's disturbance (comments behind the code of a line and "
         "comment-only lines after it, lines joined); their configuration is drawn from the 9 hand-written ones, the 18 single options and 10 combinations. "
         "Per applied batch: case 'batch' = Gallina apply_batch(before, fixes) must equal the real tree after; per input: case 'run' = "
         "Gallina run over all batches must end in the real final tree and run_okb must equal the conjunction of the harness monitors; "
         "case 'synth' = random fix batches (all edit types, pairs in both orders, duplicates, conflicting entries, anchors on tokens / nodes / "
         "root / foreign segments, fresh and moved edits) applied through the public compute_anchor_edit_info + apply_fixes on parsed fixtures. "
         "Direct: code tokens of lex(source) = lex(fix(source)), comment multisets equal, final tree code tokens/comments = lex(fix(source)), "
         "every batch code-neutral on the real trees. non-trivial = batch with >= 3 fixes or >= 2 edit types / run with >= 2 batches; "
         "distinct = distinct (args, expected) terms",
    assumptions=["the rule selection of the 'alone' runs is set on a copy of the layout linter's configuration (keys rules / rule_allowlist of the core section) "
                 "instead of re-reading a configuration text; monitor selection_equals_configured compares the resulting rule packs with linters configured from text",
                 "linting leaks memory inside the library (about 80-150 KB per call on a two-line input): the harness runs the items in a sequence of child "
                 "processes (4 quick / 24 thorough) and merges their result lines in item order; the output is byte-identical to a single-process run",
                 "source_fixes are empty (raw templater): previous_versions is modelled on the raw text only (monitor no_source_fixes)",
                 "position markers are not modelled (C12's subject); apply_fixes' unwrap of a missing marker is not reachable in the model",
                 "a crash of fix (C03's subject) or an unlexable source leaves nothing to observe: such inputs are counted and skipped",
                 "code-neutrality of each batch and re-lex stability of the final tree are observed on every run, not proved; a failure is "
                 "reported with the fusion site (dialect, the two source tokens where the code sequences part) as key"],
)
