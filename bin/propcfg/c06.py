CFG = dict(
    prop="C06", level="partial", harness="c06",
    props_files=["theories/Props/C06.v"], corr_file="theories/Corr/C06.v", corr_module="Corr.C06",
    groups={"batch": False, "run": False},
    show_fn={"batch": "show_batch", "run": "show_run"},
    shard=40,
    design_ref="DESIGN.md 6.6",
    technique="Coq proof (refinement of apply_fixes to a lookup-based rewriting specification; induction over the fix loop) + "
              "correspondence of the Gallina apply_fixes / loop with every batch the real fix loop applies + direct observation",
    level_text="TODO",
    level_note="TODO",
    rule="TODO",
    assumptions=[],
)
