CFG = dict(
    prop="C04", level="proof", harness="c04",
    props_files=["theories/Props/C04.v"], corr_file="theories/Corr/C04.v", corr_module="Corr.C04",
    groups={"tree": False, "patches": False},
    show_fn={"tree": "model", "patches": "model_patches"},
    shard=60,
    design_ref="DESIGN.md 6.4, notes/C04.md",
    technique="Coq proof about a Gallina model of iter_patches / generate_source_patches / slice_source_file_using_patches / "
              "build_up_fixed_source_string / fix_string (for all patch lists and all trees) + correspondence of the model "
              "with the real patch list and fixed text on the final tree of every recorded fix run + direct observation",
    level_text="C04_fix_string_spec (fix_string = splice of the normalised patches, for every patch list), "
               "C04_normalise_id, C04_untemplated (for every final tree whose root spans an untemplated file: fixed text = raw of "
               "the tree), C04_unchanged and C04_templated_keeps_partial (source ranges no patch touches survive) are closed Coq "
               "theorems. The model is tied to the code on every run: the real final tree (fix-loop hook) and TemplatedFile are "
               "fed to the Gallina iter_patches/fix_string and must reproduce the real patch list and the real fix_string(); "
               "arbitrary patch lists with source-only slices are replayed against the real LintedFile::fix_string.",
    level_note="The templated half of the property (re-rendering the fixed source gives the tree's raw, placeholders in order) is "
               "decided by proof only up to C04_templated_keeps_partial (byte survival of untouched ranges under a monitored "
               "sortedness premise); the re-rendering equality itself is observed directly on every templated run, not proved. "
               "Rule bodies, apply_fixes and the templater are not modelled (the final tree and TemplatedFile are recorded data).",
    rule="fix runs (lint_parsed with fix=true) over: every dialect fixture file x rotating rule selections, layout/case-perturbed "
         "fixture files, rule yaml snippets, and fixture files whose literals are replaced by placeholders (10 styles, values "
         "shorter/equal/longer than the placeholder); per run the final tree (positions, raws) + TemplatedFile are replayed "
         "through the Gallina iter_patches + fix_string (group tree); group patches = random patch lists (sorted, overlapping, "
         "duplicate, with source-only slices) against the real fix_string. non-trivial = at least one patch; distinct = "
         "distinct (args, expected) pairs. direct = fixed text vs tree raw (untemplated), placeholders and re-render (templated)",
    assumptions=["usize subtractions in iter_patches wrap (harness profile has overflow checks off); the monitor "
                 "'no usize underflow' reports inputs on which a build with overflow checks would panic instead",
                 "source fixes are always empty in this port (SegmentBuilder::node sets source_fixes: vec![]); monitored per tree",
                 "inputs on which lexing/parsing or a rule panics are skipped and counted (C03/C15), not reported under C04",
                 "tree correspondence cases are emitted for sources up to 2500 bytes; of the runs without any patch 1 in 4 is replayed in Coq (larger inputs are still observed directly)"],
    trusted_extra=["verif hooks: core.rs verif_hook::FixEvent (final tree), TemplatedFileInner::verif_raw_sliced"],
)
