import os, re, json, concurrent.futures
import vlib

TOK_STAT = {0: "slices do not tile", 1: "tree_ok", 2: "ghost walk fails (templated side out of reading order / changed non-literal leaf / text in a dropped meta)",
            3: "root templated slice is not the whole templated text", 4: "patches not sorted/disjoint/duplicate-free", 5: "a patch is not aligned with a literal slice"}
TOK_OBS = {0: "observed fine", 1: "failed: fused-with-neighbour", 2: "failed: empty value", 3: "failed: patches out of order", 4: "failed: other", 5: "not observed"}


def post(ctx):
    """Monitor of the premise of C04_templated: evaluate Corr.C04.tok_stat (tiling + tree_ok) by vm_compute on every
    recorded templated final tree ('tok' lines of the harness), count, and compare with what was observed on the
    implementation: premise true and the observation failed in a class other than the regex-side one = a finding (or a
    model bug) with a concrete input."""
    toks = [r for r in ctx.get("recs", []) if r.get("t") == "tok"]
    if not toks:
        return
    shard = 40
    items = []
    for k in range(0, len(toks), shard):
        name = "Tok_C04_%d.v" % (k // shard)
        body = ["From Sq Require Import Base.Corr Corr.C04.", "Open Scope N_scope.",
                "Definition cases : list tok_args := [", ";\n".join(t["args"] for t in toks[k:k + shard]), "].",
                "Eval vm_compute in map tok_stat cases."]
        items.append((name, "\n".join(body) + "\n", toks[k:k + shard]))
    os.makedirs(vlib.GEN, exist_ok=True)
    for name, text, _ in items:
        open(os.path.join(vlib.GEN, name), "w").write(text)
    stats, errors = {}, []
    with concurrent.futures.ThreadPoolExecutor(max_workers=16) as ex:
        futs = {ex.submit(vlib.run_coqc, os.path.join("gen", it[0]), 900): it for it in items}
        for fut in concurrent.futures.as_completed(futs):
            name, _, ts = futs[fut]
            rc, out = fut.result()
            blocks = vlib.parse_N_list(out)
            if rc != 0 or len(blocks) != 1 or len(blocks[0]) != len(ts):
                errors.append("%s: rc=%d %s" % (name, rc, out[-1200:]))
                continue
            for t, st in zip(ts, blocks[0]):
                t["stat"] = st
    for f in os.listdir(vlib.GEN):
        if f.startswith("Tok_C04_") and not f.endswith(".v"):
            os.remove(os.path.join(vlib.GEN, f))
    R = ctx["R"]
    for e in errors:
        R.violation("broken-correspondence", dict(what="tree_ok monitor did not evaluate", log=e), False)
    done = [t for t in toks if "stat" in t]
    table = {}
    for t in done:
        k = "%s | %s" % (TOK_STAT.get(t["stat"], t["stat"]), TOK_OBS.get(t["obs"], t["obs"]))
        table[k] = table.get(k, 0) + 1
    n_ok = sum(1 for t in done if t["stat"] == 1)
    with_p = [t for t in done if t.get("nontrivial")]
    n_ok_p = sum(1 for t in with_p if t["stat"] == 1)
    bad = [t for t in done if t["stat"] == 1 and t["obs"] in (2, 3, 4)]
    missed = [t for t in done if t["stat"] != 1 and t["obs"] == 0]
    for t in bad[:3]:
        R.violation("failing-input", dict(what="tiling + tree_ok hold (premise of C04_templated) but the implementation's fixed file lost a "
                                               "placeholder or does not re-render to the final tree's raw: %s" % TOK_OBS.get(t["obs"]),
                                          cls=t["cls"], sample=t["sample"]), True)
    ctx["extra_evaluations"] = ctx.get("extra_evaluations", 0) + len(done)
    ctx.setdefault("extra_coverage", {})["tree_ok_monitor"] = dict(
        templated_final_trees=len(done), tree_ok_true=n_ok, with_patches=len(with_p), tree_ok_true_with_patches=n_ok_p,
        premise_true_but_observation_failed=len(bad), premise_false_but_observation_fine=len(missed),
        by_verdict_and_observation=table,
        examples_premise_false_observation_fine=[dict(stat=TOK_STAT.get(t["stat"]), input=t["sample"].get("input")) for t in missed[:3]])
    vlib.log("C04 tree_ok monitor: %d templated final trees, tree_ok %d (%d of %d with patches); premise true but failed: %d; table %s"
             % (len(done), n_ok, n_ok_p, len(with_p), len(bad), json.dumps(table, sort_keys=True)))


CFG = dict(
    prop="C04", level="proof", harness="c04", post=post,
    props_files=["theories/Props/C04.v"], corr_file="theories/Corr/C04.v", corr_module="Corr.C04",
    groups={"tree": False, "patches": False, "span": False},
    show_fn={"tree": "model", "patches": "model_patches", "span": "model_span"},
    shard=60,
    design_ref="DESIGN.md 6.4, notes/C04.md",
    technique="Coq proof about a Gallina model of iter_patches / generate_source_patches / slice_source_file_using_patches / "
              "build_up_fixed_source_string / fix_string (for all patch lists and all trees) and of "
              "raw_slices_spanning_source_slice (conflict side) + correspondence of the model "
              "with the real patch list and fixed text on the final tree of every recorded fix run and with the real "
              "spanning function + direct observation + a soundness monitor of has_template_conflicts on synthetic fixes",
    level_text="C04_fix_string_spec (fix_string = splice of the normalised patches, for every patch list), "
               "C04_normalise_id, C04_untemplated (for every final tree whose root spans an untemplated file: fixed text = raw of "
               "the tree), C04_unchanged and C04_templated_keeps_partial (source ranges no patch touches survive) are closed Coq "
               "theorems; C04_templated (templated clause at full strength about the model: for every slice list tiling source and templated "
               "text and every final tree with the decidable tree_ok, the fixed text is literal pieces woven around ALL placeholders' source "
               "texts, byte-identical and in order, and the tree's raw is the same pieces woven around their renderings = the fixed source "
               "re-rendered), C04_templated_rerender (the same with Templ.Model.process in the loop: process on the fixed source, same values, "
               "captures relocated with the same names, succeeds and renders the tree's raw), C04_templated_ghost / _tree_side (the ghost walk "
               "behind tree_ok is iter_patches; templated images of a segment's patches splice to its raw); "
               "C04_conflict_slices_complete / C04_conflict_verdict: over raw slices tiling the source every raw slice "
               "a source range overlaps is returned by raw_slices_spanning_source_slice, so a deletion/replacement reaching "
               "into a placeholder is a template conflict. The model is tied to the code on every run: the real final tree (fix-loop hook) and TemplatedFile are "
               "fed to the Gallina iter_patches/fix_string and must reproduce the real patch list and the real fix_string(); "
               "arbitrary patch lists with source-only slices are replayed against the real LintedFile::fix_string; the real "
               "raw_slices_spanning_source_slice (hook) is replayed against the Gallina spanning on the source ranges of every "
               "segment, ranges around every slice border and random ranges.",
    level_note="The templated half is a theorem about the model under the premise tree_ok (ghost walk along iter_patches' branches succeeds, "
               "root spans the templated text, patches sorted/disjoint/duplicate-free, every patch aligned with one literal slice or an insertion "
               "at a slice border). That real final trees satisfy tree_ok is not proved (apply_fixes/position_segments and the conflict filter are "
               "not modelled): it is evaluated by vm_compute on every recorded templated final tree (post stage, coverage.tree_ok_monitor) and "
               "compared with the observation on the implementation - premise true with a lost placeholder / wrong re-render is reported as a "
               "failing input. The regex engine's answer on the FIXED text (captures = the relocated ones) is a hypothesis of "
               "C04_templated_rerender observed directly (templated-placeholders); it is what the known finding fused-with-neighbour breaks. "
               "fix_slices / templated_slice_to_source_slice (the window has_template_conflicts inspects) are not modelled: the "
               "filter's soundness (every fix that would delete/replace placeholder source or insert inside a placeholder's "
               "rendering is reported as a conflict) is a blocking monitor over synthetic fixes anchored at every segment x edit type. "
               "Rule bodies, apply_fixes and the templater are not modelled (the final tree and TemplatedFile are recorded data).",
    rule="fix runs (lint_parsed with fix=true) over: every dialect fixture file x rotating rule selections, layout/case-perturbed "
         "fixture files, rule yaml snippets, fixture files whose literals are replaced by placeholders (10 styles, values "
         "shorter/equal/longer than the placeholder, placeholder as its own token), the same with the wide generator (13 styles incl. "
         "apache_camel and two param_regex; identifiers replaced whole or in part = placeholder glued to an identifier; values lexing "
         "into several tokens, padded, with a line break; file cut so that it ends in a placeholder without newline; values through "
         "the ini text or the configuration object) and synthetic statements (52 skeletons; placeholders as column / table / alias / "
         "value / keyword / clause / statement, glued, adjacent, in comments and quoted literals, at the start and the very end of the "
         "file; single-token, multi-token, multi-line, blank and empty values); per run the final tree (positions, raws) + "
         "TemplatedFile are replayed through the Gallina iter_patches + fix_string (group tree); group patches = random patch lists "
         "(sorted, overlapping, duplicate, with source-only slices) against the real fix_string; group span = "
         "raw_slices_spanning_source_slice on segment ranges, slice borders and random ranges against the Gallina spanning. "
         "non-trivial = at least one patch (span: a range spanning several raw slices); distinct = distinct (args, expected) pairs. "
         "direct = fixed text vs tree raw (untemplated), placeholders and re-render (templated)",
    assumptions=["iter_patches' gap test is a comparison since the repair (no usize subtraction left); the diagnostic monitor "
                 "'no child starts before the running templated index' counts the trees on which the unrepaired code underflowed",
                 "source fixes are always empty in this port (SegmentBuilder::node sets source_fixes: vec![]); monitored per tree",
                 "inputs on which lexing/parsing or a rule panics are skipped and counted (C03/C15), not reported under C04",
                 "templated failures are keyed by class when the outcome shows one of the recorded findings (placeholder fused with its "
                 "neighbour after a literal blank was removed; placeholder with an empty value swallowed; patches out of order after a "
                 "rule moved code) - see known_findings.txt; everything else is keyed per input",
                 "tree_ok (premise of C04_templated) on real final trees is measured (coverage.tree_ok_monitor), not proved; the regex engine finding the "
                 "relocated captures in the fixed text (hypothesis of C04_templated_rerender) is observed directly",
                 "tree correspondence cases are emitted for sources up to 2500 bytes; of the runs without any patch 1 in 4 is replayed in Coq (larger inputs are still observed directly)"],
    trusted_extra=["verif hooks: core.rs verif_hook::FixEvent (final tree, applied fixes), TemplatedFileInner::verif_raw_sliced_idx, "
                   "TemplatedFileInner::verif_raw_slices_spanning",
                   "bin/propcfg/c04.py post stage (shard writer and parser of the tree_ok monitor; Gallina printer of the sliced file in harness/src/c04.rs)"],
)
