CFG = dict(
    prop="C04", level="proof", harness="c04",
    props_files=["theories/Props/C04.v"], corr_file="theories/Corr/C04.v", corr_module="Corr.C04",
    groups={"tree": False, "patches": False, "span": False},
    show_fn={"tree": "model", "patches": "model_patches", "span": "model_span"},
    shard=60,
    design_ref="DESIGN.md 6.4, notes/C04.md",
    technique="Coq proof about a Gallina model of iter_patches / generate_source_patches / slice_source_file_using_patches / "
              "build_up_fixed_source_string / fix_string (for all patch lists and all trees) and of "
              "raw_slices_spanning_source_slice (conflict side) + correspondence of the model "
              "with the real patch list and fixed text on the final tree of every recorded fix run and with the real "
              "spanning function + direct observation + a soundness monitor of has_template_conflicts on synthetic fixes",
    level_text="C04_fix_string_spec (fix_string = splice of the normalised patches, for every patch list), "
               "C04_normalise_id, C04_untemplated (for every final tree whose root spans an untemplated file: fixed text = raw of "
               "the tree), C04_unchanged and C04_templated_keeps_partial (source ranges no patch touches survive) are closed Coq "
               "theorems; C04_conflict_slices_complete / C04_conflict_verdict: over raw slices tiling the source every raw slice "
               "a source range overlaps is returned by raw_slices_spanning_source_slice, so a deletion/replacement reaching "
               "into a placeholder is a template conflict. The model is tied to the code on every run: the real final tree (fix-loop hook) and TemplatedFile are "
               "fed to the Gallina iter_patches/fix_string and must reproduce the real patch list and the real fix_string(); "
               "arbitrary patch lists with source-only slices are replayed against the real LintedFile::fix_string; the real "
               "raw_slices_spanning_source_slice (hook) is replayed against the Gallina spanning on the source ranges of every "
               "segment, ranges around every slice border and random ranges.",
    level_note="The templated half of the property (re-rendering the fixed source gives the tree's raw, placeholders in order) is "
               "decided by proof only up to C04_templated_keeps_partial (byte survival of untouched ranges under a monitored "
               "sortedness premise); the re-rendering equality itself is observed directly on every templated run, not proved. "
               "fix_slices / templated_slice_to_source_slice (the window has_template_conflicts inspects) are not modelled: the "
               "filter's soundness (every fix that would delete/replace placeholder source or insert inside a placeholder's "
               "rendering is reported as a conflict) is a blocking monitor over synthetic fixes anchored at every segment x edit type. "
               "Rule bodies, apply_fixes and the templater are not modelled (the final tree and TemplatedFile are recorded data).",
    rule="fix runs (lint_parsed with fix=true) over: every dialect fixture file x rotating rule selections, layout/case-perturbed "
         "fixture files, rule yaml snippets, fixture files whose literals are replaced by placeholders (10 styles, values "
         "shorter/equal/longer than the placeholder, placeholder as its own token), the same with the wide generator (13 styles incl. "
         "apache_camel and two param_regex; identifiers replaced whole or in part = placeholder glued to an identifier; values lexing "
         "into several tokens, padded, with a line break; file cut so that it ends in a placeholder without newline; values through "
         "the ini text or the configuration object) and synthetic statements (52 skeletons; placeholders as column / table / alias / "
         "value / keyword / clause / statement, glued, adjacent, in comments and quoted literals, at the start and the very end of the "
         "file; single-token, multi-token, multi-line, blank and empty values); per run the final tree (positions, raws) + "
         "TemplatedFile are replayed through the Gallina iter_patches + fix_string (group tree); group patches = random patch lists "
         "(sorted, overlapping, duplicate, with source-only slices) against the real fix_string; group span = "
         "raw_slices_spanning_source_slice on segment ranges, slice borders and random ranges against the Gallina spanning. "
         "non-trivial = at least one patch (span: a range spanning several raw slices); distinct = distinct (args, expected) pairs. "
         "direct = fixed text vs tree raw (untemplated), placeholders and re-render (templated)",
    assumptions=["usize subtractions in iter_patches wrap (harness profile has overflow checks off); the monitor "
                 "'no usize underflow' reports inputs on which a build with overflow checks would panic instead",
                 "source fixes are always empty in this port (SegmentBuilder::node sets source_fixes: vec![]); monitored per tree",
                 "inputs on which lexing/parsing or a rule panics are skipped and counted (C03/C15), not reported under C04",
                 "templated failures are keyed by class when the outcome shows one of the recorded findings (placeholder fused with its "
                 "neighbour after a literal blank was removed; placeholder with an empty value swallowed; patches out of order after a "
                 "rule moved code) - see known_findings.txt; everything else is keyed per input",
                 "tree correspondence cases are emitted for sources up to 2500 bytes; of the runs without any patch 1 in 4 is replayed in Coq (larger inputs are still observed directly)"],
    trusted_extra=["verif hooks: core.rs verif_hook::FixEvent (final tree, applied fixes), TemplatedFileInner::verif_raw_sliced_idx, "
                   "TemplatedFileInner::verif_raw_slices_spanning"],
)
