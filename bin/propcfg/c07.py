CFG = dict(
    prop="C07", level="proof", harness="c07",
    props_files=["theories/Props/C07.v"], corr_file="theories/Corr/C07.v", corr_module="Corr.C07",
    groups={"sched": False, "lintloop": False, "verdict": False},
    show_fn={"sched": "model_sched", "lintloop": "model_loop", "verdict": "model_verdict"},
    shard=250,
    design_ref="DESIGN.md 6.7; notes/C07.md",
    technique="Coq proof about Gallina models of (a) the lint-mode fix loop skeleton and LintedFile::fix_string and (b) the "
              "lint_paths expansion loop (seen-set keyed by the file's identity) and fan-out/fan-in bookkeeping (any path arguments, any "
              "completion order = any permutation of the selected files), + "
              "correspondence of both models with the real code (fix-loop observer hook; lint_paths vs lint_string on batches under "
              "RAYON_NUM_THREADS 1/4/16 in separate processes) and (c) the OutputStreamFormatter's verdict (has_fail, files "
              "dispatched) for any dispatch order + direct observation of every clause, including the outcome seen through the "
              "formatters and configuration histories across linters and processes",
    level_text="Closed Coq theorems, for all inputs: C07_lint_mode_applies_nothing (lint mode = one main-phase pass, tree handed back "
               "unchanged whatever the rules propose), C07_fix_string_no_patches, C07_lint_no_change (no patches and fix_string = source "
               "under the monitored hypothesis that the parsed tree yields no patch), C07_schedule_independent / "
               "C07_no_panic_and_buckets (for every completion order the result is, directory by directory, the same multiset; bucket i "
               "holds exactly the selected files attributed to argument i), C07_each_exactly_once, C07_batch_independent (for expansions "
               "without duplicates every selected file has exactly one entry, equal to the per-file lint result, whatever the rest of the "
               "batch), C07_dedup_at_most_once / C07_dedup_each_file_exactly_once / C07_dedup_batch_independent (the whole of lint_paths, "
               "expansion loop included: for all path arguments - repeated, overlapping, the same file under several spellings - no "
               "panic, one directory per argument, no file twice; a file has exactly one entry iff some argument reaches it and it "
               "is not ignored; its result does not depend on the other arguments or their spelling), C07_verdict_order_independent / C07_verdict_is_any_fail / C07_verdict_batch_independent / "
               "C07_verdict_monotone (the formatter's has_fail and file count after dispatching the files in any order: 'some file "
               "fails', each file once, at every verbosity >= 0; never reset by a later clean file). Real rayon interleavings, data races and the per-file function's purity (H_pure) are outside the model: they are "
               "explored (thread counts, repeated runs, fresh/reused linters, separate processes) and monitored, hence partial.",
    level_note="partial: the theorems are about bookkeeping and control flow; purity of lint_rendered (H_pure) and emptiness of the parse "
               "tree's patches (H_parse_patches) are hypotheses monitored on every run; global id counters / OnceLock caches "
               "(renaming lemma of DESIGN 6.7) are not modelled, only exercised. Trusted: Coq kernel, hand-written models, the harness.",
    rule="part A: corpus files (own dialect, plus CRLF variants), rule-fixture snippets and junk texts (empty, CR/CRLF, unparsable, "
         "non-ASCII): parse (H_parse_patches), lint without fix through the fix-loop observer (group lintloop: the Gallina "
         "lint_fix_parsed with the rule list of the real linter and 'this rule proposes a fix' oracles taken from the fixable "
         "violations must predict the event trace and that the final tree is the initial one), patches empty, fix_string = "
         "normalised source, same linter twice and fresh linter (H_pure). part B: a 20-file tree (same content under different "
         "names, upper-case extension, ignored files, a non-sql file, nested directories, a symbolic link to a file and one to a "
         "directory); seeded batches (all files permuted, directories, subsets, mixes; every file alone, every directory alone, no "
         "argument, nothing but ignored files, random batches of 1-3 files; the same file reached through several arguments: "
         "repeated arguments, a directory and something inside it, the same file or directory spelled differently - ./x, absolute, "
         "d/../d/x, d//x, d/, d/., through the links - in both orders) x 4 ignore predicates (on the canonical path) x 2 rule sets x RAYON_NUM_THREADS in "
         "{1,4,16} (one process each) x {reused linter, same again, fresh linter, linter with OutputStreamFormatter at verbosity "
         "0/1/2/-1, linter with JsonFormatter}; every result compared with lint_string per file, every selected file (identity = canonical path) exactly once "
         "under whichever spelling, every stored path a path of some argument's expansion, directory attribution, has_fail = some selected file fails, files dispatched = files selected, JSON collection = per-file "
         "collections; digests equal across runs/linters/formatters/thread counts/processes; lint_string sequences (pairs, tree "
         "order, random) on one linter + formatter with the verdict checked after every file; group sched: the Gallina lint_paths (expansion loop "
         "with the seen-set + collect) on the recorded expansion lists (spelled paths), the identity of every spelling, ignore set, "
         "reference results and observed completion order must reproduce the observed directories exactly (which spelling is "
         "kept, under which argument), and the observed order must be a permutation of the model's selected paths; group verdict: the "
         "Gallina dispatch_all on the (fails, warns) of the files must give the formatter's has_fail and file count. part C: 40 "
         "configurations (5 dialects, rule selections, rule/layout options, every placeholder param_style, 7 param_regex incl. an "
         "invalid one, erroneous templater sections) x 10 texts: each configuration alone in a process of its own, and all of them "
         "one after the other in a different order in each worker process (fresh linters; linters created up front and used "
         "interleaved under one file name; lint_paths on a directory): templated text + violations identical everywhere "
         "(H_pure_history), lint-only fix_string = source under every configuration. non-trivial: lintloop = at least "
         "one rule proposed a fix; sched = more than one argument and (more than two selected files or a file reached more than once); verdict = failing and clean "
         "files mixed; distinct = distinct (args, expected)",
    assumptions=[
        "H_pure: lint_rendered is a function of (file content, configuration) (monitored: repeated and fresh-linter runs; blocking)",
        "H_pure_history: what is reported for (content, configuration) does not depend on the configurations, linters and files the "
        "process handled before (monitored: every configuration alone in a process vs. inside three differently ordered histories; blocking)",
        "H_parse_patches: the freshly parsed tree yields no patch (consequence of C01/C02's lexer/parser invariants; monitored; blocking)",
        "two paths are the same file iff std::fs::canonicalize gives the same path (hard links are different files); the ignore "
        "predicates of the batches are functions of the canonical path (for a spelling-dependent ignorer the theorem is at-most-once)",
        "input newlines are normalised before templating: 'equals the source' is checked against the normalised source (DESIGN section 8)",
        "texts with '-- sqlfluff' inline configuration lines are excluded (process_inline_config panics: C03)",
    ],
    trusted_extra=["rayon / AppendOnlyVec are not modelled: the model quantifies over all completion orders of a fan-in that pushes each "
                   "completed file exactly once"],
)
