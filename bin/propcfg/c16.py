import vlib


def _pre(ctx):
    """The command line is one of the ways of fixing a text: build the real sqruff binary from the tree for the harness."""
    cb = vlib.cli_build()
    if not cb["ok"]:
        vlib.log(cb["log"])
        ctx["R"].violation("broken-correspondence", dict(what="the sqruff binary does not build from the tree", log=cb["log"][-3000:]), False)
        return
    ctx["harness_extra"] = ["--sqruff", cb["bin"]]


CFG = dict(
    prop="C16", level="proof", harness="c16", pre=_pre,
    props_files=["theories/Props/C16.v"], corr_file="theories/Corr/C16.v", corr_module="Corr.C16",
    extra_targets=["theories/Caps/Proofs.vo", "theories/Caps/Reach.vo"],
    groups={"call": False, "crawl": False},
    show_fn={"call": "model", "crawl": "model_crawl"},
    shard=400,
    design_ref="DESIGN.md 6.16",
    technique="Coq proof (ASCII model of handle_segment: upper/lower/capitalise/pascal, refutation memory, consistent resolution, "
              "ignore_words guard, one crawl with threaded memory) + call-by-call correspondence through a cfg(sqruff_verif) "
              "recorder in cp01.rs + direct observation of fix_string / lint(fix) / fix(fix) / protected leaves through every public "
              "entry point of the Linter (lint_string, lint_paths on a file and on a directory, render_string+lint_rendered, "
              "lint_string_wrapped) and through the sqruff binary built from the tree (sqruff fix/lint over ten shapes of the path "
              "argument list, stdin included) + an independent reading of which tokens each policy applies to (scope walk over the "
              "parse tree): every such token is in the configured case after the fix, is handed to handle_segment during a lint "
              "(recorder), and the calls of each rule's whole crawl agree with the Gallina trace over the scope tokens; the same "
              "observations on placeholder-templated sources (templater = placeholder, every param_style): the source text fix "
              "writes back is compared with the source, re-rendered and re-linted / re-fixed; which tokens come out of a placeholder "
              "is read off the templater's slice table, not through is_templated",
    level_text="C16_case_only, C16_concrete_idempotent, C16_pass_case_only and C16_concrete_pass_stable are closed Coq theorems for "
               "every ASCII token, token sequence, memory, ignore list and option list: a fix changes only letter case, and for "
               "upper/lower/capitalise/pascal a second crawl reports and changes nothing. For consistent the frozen-verdict "
               "lemma (C16_consistent_frozen_partial) and 'all fixes of one crawl use one single case' (C16_consistent_single_case) are proved. "
               "Convergence of consistent is proved too: with the basic option list (CP01/CP03/CP04) one crawl is enough -- a second "
               "crawl reports and changes nothing, for every ignore list and token sequence, from the empty memory "
               "(C16_basic_consistent_one_pass) and from every memory a crawl can be in (C16_basic_consistent_one_pass_from, "
               "C16_wf_reachable), though not from an arbitrary unreachable memory (C16_basic_one_pass_any_memory_refuted); with the "
               "extended option list (CP02/CP05) one crawl is not enough (C16_consistent_one_pass_refuted) but the result of the "
               "second crawl is always stable (C16_extended_consistent_two_pass, C16_consistent_two_pass_from), so the three crawls "
               "the fix loop runs for post-phase rules suffice on the model; that the loop runs them that way is observed "
               "(fix(fix)=fix, lint(fix) clean). Every recorded call of handle_segment is replayed on the model on every run. "
               "Reaching the policy: after a crawl under a concrete policy every token not on the ignore list (exact lower-cased word), "
               "not empty and not templated is in the case of the policy (C16_concrete_pass_reaches); a token not on the list is always "
               "handed to handle_segment (C16_not_ignored_is_called); a crawl is its call trace applied to the tokens (C16_pass_is_trace), "
               "and that trace is compared with the recorder for every rule's crawl over the tokens an independent scope walk finds.",
    level_note="Trusted: Coq kernel; the recorder hook in cp01.rs; the hand-written model (tie = sampled call-by-call correspondence). "
               "Non-ASCII tokens are excluded from the model comparison (Rust Unicode case mapping not modelled) but kept in the "
               "direct checks. Which tokens the crawler visits (grammar dependent) and that quoted/comment leaves are never "
               "visited is observed, not modelled. The fix loop itself (three crawls of a post-phase rule, fixes applied in between) is "
               "not modelled: the convergence theorems are about iterated crawls of the model. The scope walk (which segment kinds each "
               "rule covers and its exemptions) is a hand-written specification in harness/src/c16.rs, compared with the recorder on every "
               "input; ignore_words_regex is evaluated only for the anchored patterns the generator writes.",
    rule="hand-written statements mixing the five element kinds x every uniform policy and random per-kind policies x dialects x "
         "ignore_words; corpus files and case scrambles of them (upper, lower, per-char, per-word) under random per-kind "
         "policies and ignore_words drawn from the file; each fixed with only CP01-CP05 selected, through lint_string and through "
         "each other public entry point (lint_paths(file), lint_paths(dir with a sibling file), render_string+lint_rendered, "
         "lint_string_wrapped), fix / lint-of-fix / fix-of-fix going through the same entry point; one input in three also through "
         "two of ten command line shapes of the sqruff binary (file, directory, file + directory, a clean argument next to dirty "
         "ones, a directory without SQL files, the working directory, --config, stdin). ignore_words hold whole words of the text "
         "or parts of them (pieces between underscores, prefixes, suffixes), ignore_words_regex anchored patterns over them. "
         "Per input and element kind: the scope tokens against the recorded calls of a lint (direct), the whole crawl against "
         "the Gallina trace (group crawl), every scope token of the fixed text in the configured case (direct, per entry point). "
         "Placeholder-templated sources: the same statements, corpus files and scrambles with tokens the dialect's parser finds "
         "(identifiers, function names, integer and simple string literals, one source in four also keywords / types / null / booleans) "
         "replaced, at three densities, by placeholders of a random param_style whose parameter value is the token's text (names short "
         "and long: values shorter than, as long as and longer than the placeholder; placeholders that start a syntax element, sit "
         "inside or end one, with tokens to re-case before and after), through every entry point and the command line. "
         "Every handle_segment call "
         "(raw, policy, option list, memory before/after, result) is a correspondence case, deduplicated per file; "
         "non-trivial = the call reported a fix; distinct = distinct (args, expected) terms",
    assumptions=["tokens handed to handle_segment are ASCII (others are counted and excluded from the model comparison)",
                 "H_memory_threads: the memory a call sees is the memory the previous call of the same crawl left, or empty at the start of a crawl (monitored)",
                 "H_exempt_tokens_not_visited: a token the scope reading exempts (ignore_words, ignore_words_regex, outside the rule's segment kinds) is never handed to handle_segment (monitored)"],
    trusted_extra=["#[cfg(sqruff_verif)] recorder in crates/lib/src/rules/capitalisation/cp01.rs (add-only wrapper around handle_segment)",
                   "the scope reading in harness/src/c16.rs (segment kinds and exemptions per capitalisation rule), the parser of the human report format of sqruff lint"],
)
