CFG = dict(
    prop="C16", level="proof", harness="c16",
    props_files=["theories/Props/C16.v"], corr_file="theories/Corr/C16.v", corr_module="Corr.C16",
    extra_targets=["theories/Caps/Proofs.vo"],
    groups={"call": False},
    show_fn={"call": "model"},
    shard=400,
    design_ref="DESIGN.md 6.16",
    technique="Coq proof (ASCII model of handle_segment: upper/lower/capitalise/pascal, refutation memory, consistent resolution, "
              "ignore_words guard, one crawl with threaded memory) + call-by-call correspondence through a cfg(sqruff_verif) "
              "recorder in cp01.rs + direct observation of fix_string / lint(fix) / fix(fix) / protected leaves through every public "
              "entry point of the Linter (lint_string, lint_paths on a file and on a directory, render_string+lint_rendered, "
              "lint_string_wrapped)",
    level_text="C16_case_only, C16_concrete_idempotent, C16_pass_case_only and C16_concrete_pass_stable are closed Coq theorems for "
               "every ASCII token, token sequence, memory, ignore list and option list: a fix changes only letter case, and for "
               "upper/lower/capitalise/pascal a second crawl reports and changes nothing. For consistent the frozen-verdict "
               "lemma (C16_consistent_frozen_partial) and 'all fixes of one crawl use one single case' (C16_consistent_single_case) are proved. "
               "Convergence of consistent is proved too: with the basic option list (CP01/CP03/CP04) one crawl is enough -- a second "
               "crawl reports and changes nothing, for every ignore list and token sequence, from the empty memory "
               "(C16_basic_consistent_one_pass) and from every memory a crawl can be in (C16_basic_consistent_one_pass_from, "
               "C16_wf_reachable), though not from an arbitrary unreachable memory (C16_basic_one_pass_any_memory_refuted); with the "
               "extended option list (CP02/CP05) one crawl is not enough (C16_consistent_one_pass_refuted) but the result of the "
               "second crawl is always stable (C16_extended_consistent_two_pass, C16_consistent_two_pass_from), so the three crawls "
               "the fix loop runs for post-phase rules suffice on the model; that the loop runs them that way is observed "
               "(fix(fix)=fix, lint(fix) clean). Every recorded call of handle_segment is replayed on the model on every run.",
    level_note="Trusted: Coq kernel; the recorder hook in cp01.rs; the hand-written model (tie = sampled call-by-call correspondence). "
               "Non-ASCII tokens are excluded from the model comparison (Rust Unicode case mapping not modelled) but kept in the "
               "direct checks. Which tokens the crawler visits (grammar dependent) and that quoted/comment leaves are never "
               "visited is observed, not modelled. The fix loop itself (three crawls of a post-phase rule, fixes applied in between) is "
               "not modelled: the convergence theorems are about iterated crawls of the model.",
    rule="hand-written statements mixing the five element kinds x every uniform policy and random per-kind policies x dialects x "
         "ignore_words; corpus files and case scrambles of them (upper, lower, per-char, per-word) under random per-kind "
         "policies and ignore_words drawn from the file; each fixed with only CP01-CP05 selected, through lint_string and through "
         "each other public entry point (lint_paths(file), lint_paths(dir with a sibling file), render_string+lint_rendered, "
         "lint_string_wrapped), fix / lint-of-fix / fix-of-fix going through the same entry point. Every handle_segment call "
         "(raw, policy, option list, memory before/after, result) is a correspondence case, deduplicated per file; "
         "non-trivial = the call reported a fix; distinct = distinct (args, expected) terms",
    assumptions=["tokens handed to handle_segment are ASCII (others are counted and excluded from the model comparison)",
                 "H_memory_threads: the memory a call sees is the memory the previous call of the same crawl left, or empty at the start of a crawl (monitored)"],
    trusted_extra=["#[cfg(sqruff_verif)] recorder in crates/lib/src/rules/capitalisation/cp01.rs (add-only wrapper around handle_segment)"],
)
