def _post(ctx):
    # the grammar-dependent clauses as theorems about the parser-engine interpreter (DESIGN.md 6.21, notes/C12.md):
    # the 13 grammar graphs are dumped from the built tree and the decidable side condition of
    # Pem_clean_parse_meta_balanced and of Pem_bracketed_shape are evaluated on each (coq/gen/PemMeta_<d>.v, PemBrk_<d>.v, with
    # the theorems instantiated for the dialect)
    import cpem
    cpem.pem_stage(ctx, dialects=cpem.ALL, with_cases=False, meta_balance=True, bracket_shape=True)


CFG = dict(
    post=_post,
    prop="C12", level="proof", harness="c12",
    props_files=["theories/Props/C12.v"], corr_file="theories/Corr/C12.v", corr_module="Corr.C12",
    extra_targets=["theories/Corr/Pem.vo", "theories/Pem/Proofs.vo", "theories/Pem/MetaBalProofs.vo", "theories/Pem/BrkShapeProofs.vo"],   # imported by the generated coq/gen/PemGrammar_<d>.v / PemMeta_<d>.v / PemBrk_<d>.v
    groups={"infer": False, "linepos": False, "hull": False, "ps": False, "metapos": False, "tflinepos": False, "tfmarker": False},
    show_fn={"infer": "model_infer", "linepos": "model_linepos", "hull": "model_hull", "ps": "model_ps", "metapos": "model_metapos", "tflinepos": "model_tflinepos", "tfmarker": "model_tfmarker"},
    shard=150,
    design_ref="DESIGN.md 6.12; notes/C12.md",
    technique="Coq proofs about the position kernels (infer_next_position = line/col walk; get_line_pos_of_char_pos = line/col of the "
              "prefix; from_child_markers = hull; position_segments incl. the 'marker did not move' shortcut; the position bookkeeping "
              "of apply_fixes; contiguity of all leaf markers of root_parse's tree from lexer tiling) + correspondence of each Gallina "
              "kernel with the real function (recorded position_segments calls during real fixing, perturbed real trees, real markers) "
              "+ direct structural checks on every parse tree and on every tree the fix loop rebuilds, also under a templater whose output "
              "differs from its input (placeholder) and on generated bracket-structure inputs; the templated file's two newline tables "
              "(TemplatedFile::new / get_line_pos_of_char_pos(p, source) / PositionMarker::new) are modelled (tf_new, tf_line_pos, marker_new) and tied",
    level_text="Closed Coq theorems for all inputs: C12_infer_next_spec/concat, C12_line_pos_of_spec, C12_hull_spec, C12_contiguous_hull, "
               "C12_position_segments_working/leaves (every leaf below the repositioned segments has the working line/col computed "
               "from the text before it, under the stated input invariant, shortcut included), C12_apply_fixes_invariant, C12_postfix "
               "(any fix batch whose new segments carry no marker keeps the invariant), C12_parse_leaves_contiguous (with C01 tiling "
               "and the C02 well-formedness hypothesis), C12_templated_file_line_pos / C12_marker_new_positions (a templated file answers with the "
               "line/col computed from the text the source flag selects; a fresh marker sits at the line/col of its templated start in the "
               "templated text). Grammar-dependent clauses, as closed theorems about the Gallina interpreter of the parser engine "
               "(Pem, DESIGN 6.21; validated against the real parser under C02) with decidable side conditions evaluated by vm_compute on all 13 dumped "
               "grammar graphs on every run (coq/gen/PemMeta_<d>.v, PemBrk_<d>.v, theorems instantiated per dialect): "
               "Pem_clean_parse_meta_balanced / Pem_match_net_value (meta_balanced_b g: a consistent table of net Indent/Dedent values per node; for every "
               "token list without tokens of a valued node kind, regex oracle, fuel and span the inserted metas of a root match without unparsable "
               "section sum to zero), C12_apply_metas_are_inserts + Pem_clean_parse_tree_meta_balanced (MatchResult::apply creates one meta per insert "
               "entry, so the File tree root_parse builds balances), both hypotheses shown necessary by vm_compute witnesses "
               "(Pem_meta_balance_arbitrary_graph_refuted, Pem_meta_balance_token_kind_refuted); Pem_bracketed_shape / Pem_match_bracketed_shape "
               "(brk_safe_b g, which implies wf_safe_b: every bracketed node of every match has the opening bracket token as its first child and "
               "the closing bracket token of the same pair of a bracket set at its end), Pem_bracket_shape_arbitrary_graph_refuted. "
               "Still only observed on every tree (blocking monitors): nodes start/end with code; the transfer of the bracket shape through apply "
               "to the tree node; conditional metas are checked under the dumped indentation configuration and the two extreme ones (all flags set / none), not under every mixed valuation.",
    level_note="Trusted: Coq kernel; hand-written models tied by sampled correspondence; which segments a fix batch edits is an oracle "
               "(its contract H_edit_pre is monitored on every recorded position_segments call); rule bodies and the reflow engine are not "
               "modelled; columns are byte based as in the code.",
    rule="(a) parse side: 13 dialects x corpus fixtures, rule snippets, cross-dialect sample, token corruptions, junk (multi-line tokens, "
         "non-ASCII in strings/comments): every tree is checked for contiguous leaf slices, leaf text = slice, node span = hull of children, "
         "line/col = computed from the text, matching brackets, code at node edges, indent balance when fully parsed; "
         "(b) fix side: rule yaml snippets, multi-line/non-ASCII snippets and corpus samples x 14 rule selections through lint_string(fix): "
         "every tree after every applied batch (FixEvent hook) must have leaf working positions equal to those computed from the rewritten "
         "text; every position_segments call is recorded, its input checked against the theorem's hypothesis, a sample replayed in Coq; "
         "(c) kernels: infer_next_position, get_line_pos_of_char_pos, from_child_markers on real markers, position_segments on randomly "
         "perturbed children of real nodes, meta markers of apply vs get_point_pos_at_idx; "
         "(d) configurations: Linter::parse_string / lint_string(fix) under the placeholder templater (9 parameter styles; corpus files, rule "
         "snippets and multi-line/non-ASCII skeletons with 1-4 tokens replaced by placeholders whose sample values are the original text, "
         "longer, shorter, empty or multi-line, so that source and templated newline tables differ): all clauses against the templated "
         "text, source slices ordered / inside the source / spelling the leaf in literal regions, source_position from the source text; "
         "get_line_pos_of_char_pos(p, source) and PositionMarker::new on the real and on synthetic templated files vs tf_line_pos / marker_new; "
         "(e) bracket structure: generated well-nested / crossed (two closers or openers of different kinds exchanged) / kind-changed / "
         "dropped bracket bodies put into 21 statement skeletons (expression, list, subquery positions and the free-form bracketed regions "
         "of the grammars) x 13 dialects and into the bracket pairs of corpus files. "
         "non-trivial = newline in raw / >= 3 children / a segment moved / >= 2 metas",
    assumptions=["Pem balance theorem: no lexer token carries the kind of a named node with a non-zero net Indent/Dedent value (SelectClause; TransformClause in sparksql/databricks) - node kinds the lexers never assign; not monitored",
                 "the lexer's tokens tile the text (C01); inputs where the token text differs from the input are skipped and counted",
                 "H_WF_root_match of C02 for the parse-side theorem",
                 "H_edit_pre: segments handed to position_segments that still carry a marker are consistent below it (monitored on every recorded call, blocking)",
                 "offsets and columns are bytes (the implementation's unit)",
                 "under templating the source slices of leaves are not a tiling (every token of a replaced region claims the whole placeholder): they are checked to be ordered, inside the source, and to spell the leaf in literal regions"],
)
