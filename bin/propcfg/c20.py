"""C20 — the language server tracks documents and formats them faithfully.

Standard flow (vlib.standard_check) for the `format` / `docend` kernel groups, plus a `post` step that
replays the recorded *histories* on the Gallina state machine: the harness emits compact `hist`
records (ids), the tables (texts, lint and fix results of the real linter per (config, text)) and the
distinct published values; they are written once per shard into coq/gen/Cases_C20_hist_<k>.v and
evaluated with vm_compute."""
import concurrent.futures
import hashlib
import json
import os

import vlib

SHARD = 250
OPN = ["Open", "Change", "Close", "WriteDisk", "Save", "Format", "Other"]


def _readable(h, tables):
    names = tables.get("save_names", [])
    out = []
    for tag, a, b in h["ops"]:
        if tag in (0, 1):
            out.append("%s(doc%d, text%d)" % (OPN[tag], a, b))
        elif tag == 2:
            out.append("Close(doc%d)" % a)
        elif tag == 3:
            out.append("WriteDisk(config%d)" % a)
        elif tag == 4:
            out.append("Save(%s)" % (names[a] if a < len(names) else a))
        elif tag == 5:
            out.append("Format(doc%d)" % a)
        else:
            out.append("Other")
    return out


def _small_ids(vals):
    """content-hash ids of the harness -> small consecutive ids (per kind)"""
    m = {"d": {}, "e": {}}
    for v in vals:
        m[v["kind"]].setdefault(v["id"], len(m[v["kind"]]))
    return m


def _header(tables, vals, ids):
    dv = ";\n".join("(%d, %s)" % (ids["d"][v["id"]], v["g"]) for v in vals if v["kind"] == "d")
    ev = ";\n".join("(%d, %s)" % (ids["e"][v["id"]], v["g"]) for v in vals if v["kind"] == "e")
    return "\n".join([
        "From Sq Require Import Base.Corr Corr.C20.", "Open Scope N_scope.",
        "Definition T : tables := (%s,\n %s,\n %s,\n %s,\n [%s],\n [%s])." % (tables["texts"], tables["names"], tables["lint"], tables["fix"], dv, ev),
    ])


def _op(o):
    return "%d" % (o[0] + 8 * (o[1] + 32 * o[2]))


def _ev(e, ids):
    if e[0] == 0:
        return "%d" % (4 * (e[1] + 8 * ids["d"][e[2]]))
    if e[0] == 1:
        return "%d" % (1 + 4 * ids["e"][e[1]])
    return "2"


def _case(h, ids):
    ops = ";".join(_op(o) for o in h["ops"])
    ev = ";".join("[" + ";".join(_ev(e, ids) for e in b) + "]" for b in h["ev"])
    return "(%d, (%d, [%s]), [%s])" % (h["i"], h["c0"], ops, ev)


def post(ctx):
    R = ctx["R"]
    recs = ctx.get("recs", [])
    tables = [r for r in recs if r.get("t") == "tables"]
    hists = [r for r in recs if r.get("t") == "hist"]
    vals = [r for r in recs if r.get("t") == "val"]
    ctx.setdefault("extra_coverage", {})
    if not tables or not hists:
        if not ctx.get("replay"):
            R.violation("broken-correspondence", dict(what="the harness produced no history records"), False)
        return
    tables = tables[0]
    os.makedirs(vlib.GEN, exist_ok=True)
    for f in os.listdir(vlib.GEN):
        if f.startswith("Cases_C20_hist"):
            os.remove(os.path.join(vlib.GEN, f))
    ids = _small_ids(vals)
    header = _header(tables, vals, ids)
    jobs = []
    for k in range(0, len(hists), SHARD):
        name = "Cases_C20_hist_%d.v" % (k // SHARD)
        body = [header, "Definition cases : list case_t_hist := ["]
        body.append(";\n".join(_case(h, ids) for h in hists[k:k + SHARD]))
        body.append("].")
        body.append("Eval vm_compute in mismatches (check_hist T) cases.")
        open(os.path.join(vlib.GEN, name), "w").write("\n".join(body) + "\n")
        jobs.append(name)
    mism, errors = [], []
    with concurrent.futures.ThreadPoolExecutor(max_workers=16) as ex:
        futs = {ex.submit(vlib.run_coqc, os.path.join("gen", n), 1500): n for n in jobs}
        for fut in concurrent.futures.as_completed(futs):
            rc, out = fut.result()
            blocks = vlib.parse_N_list(out)
            if rc != 0 or len(blocks) != 1:
                errors.append("%s: rc=%d %s" % (futs[fut], rc, out[-1500:]))
            else:
                mism += blocks[0]
    for f in os.listdir(vlib.GEN):
        if f.startswith("Cases_C20_hist") and not f.endswith(".v"):
            os.remove(os.path.join(vlib.GEN, f))
    for e in errors:
        R.violation("broken-correspondence", dict(what="history replay did not evaluate", log=e), False)
    by_i = {h["i"]: h for h in hists}
    mism = sorted(set(mism))
    # report the shortest mismatching histories first
    worst = sorted(mism, key=lambda i: (len(by_i[i]["ops"]), i))[:3]
    for n, i in enumerate(worst):
        h = by_i[i]
        detail = dict(correspondence="Corr.C20.check_hist (Lsp.Model.run vs LanguageServer events)", cls=h["cls"],
                      mismatching_histories=len(mism),
                      sample=dict(input=dict(c0=h["c0"], ops=h["ops"]), readable=_readable(h, tables), real_events=h["ev"],
                                  legend="events: (0,doc,diag-list id) publish | (1,edit-list id,0) edits | (2,0,0) crash"))
        if n == 0:
            name = "Cases_C20_hist_show.v"
            open(os.path.join(vlib.GEN, name), "w").write("\n".join([
                header, "Set Printing Width 200.", "Set Printing Depth 100000.",
                "Eval vm_compute in model_hist T (%d, [%s])." % (h["c0"], ";".join(_op(o) for o in h["ops"]))]) + "\n")
            rc, out = vlib.run_coqc(os.path.join("gen", name), 300)
            detail["model_says"] = out[-3000:]
        R.violation("broken-correspondence", detail, False)

    nontriv = set()
    classes = {}
    lens = {}
    nsub = 0
    for h in hists:
        for start, ln, nt in h.get("sub", [[0, len(h["ops"]), h.get("nontrivial", False)]]):
            nsub += 1
            classes[h["cls"]] = classes.get(h["cls"], 0) + 1
            lens[ln] = lens.get(ln, 0) + 1
            if nt:
                nontriv.add(hashlib.sha1(json.dumps([h["c0"], h["ops"][start:start + ln]]).encode()).hexdigest())
    ctx["extra_evaluations"] = nsub
    ctx["extra_nontrivial"] = len(nontriv)
    pick = [hists[0], hists[len(hists) // 2], hists[-1]]
    ctx["extra_samples"] = [dict(kind="history", cls=h["cls"], c0=h["c0"], ops=_readable(h, tables), real_events=h["ev"]) for h in pick]
    ctx["extra_coverage"].update(dict(
        histories=nsub, chains=len(hists), chain_mismatches=len(mism), history_shards=len(jobs), history_classes=classes,
        history_length_histogram={str(k): v for k, v in sorted(lens.items())},
        distinct_published_values=len([v for v in vals if v["kind"] == "d"]),
        distinct_edit_values=len([v for v in vals if v["kind"] == "e"]),
        traces_validated_against_impl=nsub + len([r for r in recs if r.get("t") == "case"]),
        chaining="exhaustive histories run in chains of up to 12 on one real server; between two histories the harness resets the server "
                 "with ordinary operations (close open documents, restore .sqruff, save it if needed) that are part of the replayed "
                 "operation list, so the model sees exactly the operations the server saw; random histories use one server each",
        exhaustive_families="quick: every history of length <= 3 over the 27-operation alphabet (2 documents x 4 texts, 3 configurations, "
                            "3 save uris, format, other) and every history of length 4 over a 12-operation sub-alphabet; thorough: length <= 4 "
                            "and length 5 respectively; every history of length <= 3 (thorough: 4) over the 9-operation violation-kind alphabet (documents whose lint "
                            "result contains violations that come from no rule: malformed noqa directives inline with rule violations, several of them, "
                            "a text the parser rejects; a configuration switch; format); for every (initial configuration, text) the 6-operation history "
                            "open / format / switch configuration / save / change a second document to the text / format it; plus seeded random histories "
                            "of length 8..40 over 3 documents x 49 texts (15 base texts + the 34 texts of the violation-kind family: 14 comment directives, "
                            "well-formed and malformed, inline and on their own line, combinations, unparsable texts, a text with > 100 violations) "
                            "x 5 configurations (one of which switches the templater)",
        configs=tables.get("configs"), texts=tables.get("texts_j"),
    ))


CFG = dict(
    prop="C20", level="proof", harness="c20",
    props_files=["theories/Props/C20.v"], corr_file="theories/Corr/C20.v", corr_module="Corr.C20",
    groups={"format": True, "fmtedit": False, "docend": False},
    show_fn={"format": "model_format", "fmtedit": "model_format", "docend": "model_docend"},
    post=post, shard=400,
    design_ref="DESIGN.md 6.20, A.4; notes/C20.md",
    technique="Coq proof (refinement of the LanguageServer state machine to a map uri -> latest text + latest configuration, by "
              "induction over operation histories; whole-document edit lemma for format) + correspondence of the Gallina state "
              "machine with the real LanguageServer on exhaustive and random histories, lint/fix oracles tabulated from the real linter",
    level_text="C20_diag, C20_refines, C20_zero_based, C20_format, C20_edit_whole_document, C20_closed are closed Coq theorems for every "
               "history (no bound) and every text: after any sequence of open/change/close/config-write/save/format/other operations "
               "the last diagnostics published for each open document are the lint of its latest text under the latest configuration "
               "at zero-based positions, and the edit returned by a formatting request, applied per the LSP specification, yields "
               "exactly the fix. lint and fix are oracles (Section variables). C20_format_legacy_refuted and C20_legacy_templater_refuted witness the "
               "two defects repaired by e932172 and 17cf9d4. The model is tied to crates/lsp/src/lib.rs on every run by event-by-event comparison on histories.",
    level_note="Trusted: Coq kernel; hand-written model (tie = sampled/exhaustive-bounded correspondence: ~42.5k histories quick, run as ~4k chains); the "
               "linter is an oracle tabulated by a fresh Linter per configuration file; serde/lsp-types (de)serialisation and the "
               "client's edit application are outside the model (the latter is specified in Gallina per LSP 3.17 and mirrored in the harness).",
    rule="histories of LSP operations (didOpen/didChange/didClose/didSave, rewriting <cwd>/.sqruff, textDocument/formatting, other "
         "methods) run on a fresh real LanguageServer in worker processes, one working directory each; exhaustive families and seeded "
         "random histories (see coverage.exhaustive_families). Each history is replayed on the Gallina model with lint/fix tables "
         "filled by the real linter and compared event by event (batches of one operation as multisets); the property itself is "
         "observed directly (own uri->text map; last published diagnostics of every open document — the complete list, including "
         "diagnostics without a code for violations that come from no rule —; edits applied in UTF-16 units = fix). "
         "non-trivial history = a formatting request whose fix changes the number of lines, a configuration switch re-checking an "
         "open document, or an open document with non-empty final diagnostics; distinct = distinct (initial config, ops). "
         "Standard cases per (config, text): group format = the real edit applied by the Gallina apply_edits gives the fix (the property on "
         "that input), group fmtedit = the model predicts the real edit; group docend = end_of_document on exhaustive {a,\\n,\\r}^<=5 and random texts incl. non-BMP characters",
    assumptions=[
        "lint/fix are functions of (configuration file content, text): tabulated by a fresh Linter built from the same file (C07 covers purity)",
        "the working directory's .sqruff is the only configuration source (harness runs in an otherwise empty directory)",
        "LSP clients apply a TextEdit as specified (positions in UTF-16 units; the edit's end is exact, no clamping needed)",
        "didChange carries one full-document change (the server registers TextDocumentSyncKind::FULL and reads content_changes[0])",
        "a formatting request for a document that is not open panics (modelled as Crash; in the real server the process dies)",
    ],
    trusted_extra=["bin/propcfg/c20.py (history shard writer)", "harness worker processes: own LSP edit application (offset_of/apply_edits in harness/src/c20.rs)"],
)
