def _post(ctx):
    # the parser engine itself as a Gallina interpreter (DESIGN.md 6.21): translator + correspondence with the
    # root MatchResult of the real parser, and the span-bounds theorem (first clause of wf) for every combinator
    import cpem
    cpem.pem_stage(ctx, with_cases=True)


CFG = dict(
    post=_post,
    prop="C02", level="proof", harness="c02",
    props_files=["theories/Props/C02.v", "theories/Props/Pem.v"], corr_file="theories/Corr/C02.v", corr_module="Corr.C02",
    extra_targets=["theories/Corr/Pem.vo"],   # imported by the generated coq/gen/PemGrammar_<d>.v of the Pem stage (absent in a fresh clone / after make clean)
    groups={"root": False, "append": False, "wrap": False},
    show_fn={"root": "model_root", "append": "model_append", "wrap": "model_wrap"},
    shard=120,
    design_ref="DESIGN.md 6.2, A.2; notes/C02.md",
    technique="Coq proof (MatchResult::apply re-slices exactly its span for every well-formed match; root_parse covers every "
              "token; append/wrap preserve well-formedness) + correspondence of the Gallina root_parse/apply/append/wrap with "
              "the real parser on recorded (tokens, root MatchResult) + direct observation leaves(tree) == lexer tokens "
              "+ direct observation of the second sentence: every code leaf outside the unparsable nodes that still has its lexer kind is "
              "accepted under that kind by some terminal parser of the dialect (terminals re-tag what they match), else it was kept silently",
    level_text="Pem (DESIGN 6.21): the combinator engine is also modelled, as a Gallina interpreter over the dumped grammar graphs, validated on every run against the root MatchResult of the real parser (4 dialects quick / 13 thorough); Pem_match_bounds / Pem_root_bounds prove for every grammar and token list that every match result satisfies idx <= start <= end <= len (the span clause of wf). The remaining clauses of wf stay a monitored hypothesis (they are false for arbitrary graphs). "
               "C02_apply_leaves / C02_root / C02_unparsable_kept / C02_append_WF / C02_wrap_WF are closed Coq theorems for every token "
               "array and every well-formed MatchResult (unbounded depth and width): apply never panics and its non-meta leaves are "
               "exactly the token slice of its span, in order, each once; root_parse returns a File tree whose non-meta leaves are "
               "exactly all tokens (unmatched tail under Unparsable / trailing File node) or the grammar's parse error. "
               "That the 13 grammars only produce well-formed matches is a monitored (blocking) hypothesis, not proved.",
    level_note="Trusted: Coq kernel; hand-written model tied by sampled correspondence (whole-tree comparison: kinds, structure, leaf ids) "
               "on every recorded root match of <= 260 tokens; the combinator engine and the grammars are an oracle whose results are "
               "recorded and checked against WF on every run. Panics inside the grammar (dangling keyword references, C14) are known findings.",
    rule="13 dialects x (876 corpus fixtures in their own dialect, rule yaml snippets, cross-dialect sample (thorough: all 13x876), "
         "token-level corruptions delete/duplicate/swap/insert/truncate/drain of lexed corpus files, junk stream: empty, comments only, "
         "unbalanced brackets, unterminated quotes, CRLF, non-ASCII, garbage between statements, "
         "gap-junk: one junk token (a token no terminal of the dialect accepts - unlexable characters, foreign operators - or an ordinary one) "
         "inserted after every opening bracket / before every closing bracket / after every ';' / at random gaps of every corpus file <= 1500 chars "
         "(thorough: every gap) and at every gap of 16 greedy-site statements (IN lists, VALUES, USING, OVER, array literals, scripting blocks) "
         "under every dialect). Each input is lexed by the dialect lexer "
         "and parsed by Parser::parse; the recorded root MatchResult and token array are replayed through the Gallina root_parse and the "
         "resulting tree compared with the real tree; append/wrap are replayed on sibling sub-matches. "
         "non-trivial = the recorded match has >= 3 nodes; distinct = distinct (tokens, match, tree) terms",
    assumptions=["H_WF_root_match: every MatchResult returned by the root grammar is well-formed (Apply.Model.wf_root) - monitored on every parse, blocking",
                 "token ids produced by the lexer are pairwise distinct and tokens are leaves (monitored, blocking)",
                 "the tree is compared with the tokens the lexer produced, not with the raw input (lexer losslessness is C01)"],
)
