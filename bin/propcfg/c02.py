def _post(ctx):
    # the parser engine itself as a Gallina interpreter (DESIGN.md 6.21): translator + correspondence with the
    # root MatchResult of the real parser; wf_safe=True: the side condition of Pem_parse_keeps_every_token
    # (Props/C02.v) is evaluated on every dumped graph (coq/gen/PemWf_<d>.v)
    import cpem
    cpem.pem_stage(ctx, with_cases=True, wf_safe=True)


CFG = dict(
    post=_post,
    prop="C02", level="proof", harness="c02",
    props_files=["theories/Props/C02.v", "theories/Props/Pem.v"], corr_file="theories/Corr/C02.v", corr_module="Corr.C02",
    extra_targets=["theories/Corr/Pem.vo", "theories/Pem/WfRoot.vo", "theories/Pem/NoPanicMon.vo"],   # imported by the generated coq/gen/PemGrammar_<d>.v of the Pem stage (absent in a fresh clone / after make clean)
    groups={"root": False, "append": False, "wrap": False},
    show_fn={"root": "model_root", "append": "model_append", "wrap": "model_wrap"},
    shard=120,
    design_ref="DESIGN.md 6.2, A.2; notes/C02.md",
    technique="Coq proof (MatchResult::apply re-slices exactly its span for every well-formed match; root_parse covers every "
              "token; append/wrap preserve well-formedness) + correspondence of the Gallina root_parse/apply/append/wrap with "
              "the real parser on recorded (tokens, root MatchResult) + direct observation leaves(tree) == lexer tokens "
              "+ direct observation of the second sentence: every code leaf outside the unparsable nodes that still has its lexer kind is "
              "accepted under that kind by some terminal parser of the dialect (terminals re-tag what they match), else it was kept silently",
    level_text="Pem (DESIGN 6.21): the combinator engine is also modelled, as a Gallina interpreter over the dumped grammar graphs, validated on every run against the root MatchResult of the real parser (4 dialects quick / 13 thorough). "
               "Pem_match_node_wf proves, for every grammar graph that satisfies the decidable side condition wf_safe_b (whatever can close a bracket - in a Bracketed node or in the dialect's bracket set - is a one-code-token String/MultiString parser behind Refs), "
               "every token map, regex oracle, fuel, node, start index and terminator context, that every successful match of the interpreter is well-formed (Apply.Model.wf: children nested, non-overlapping, inserts inside the span and outside the children, named nodes non-empty, Newtype over one token); "
               "Pem_parse_root_wf_root gives wf_root for the root match and Pem_parse_keeps_every_token composes it with C02_root: if the interpreter answers with a match, root_parse builds a File tree whose leaves are exactly all tokens in order. "
               "wf_safe_b is evaluated by vm_compute on every dumped dialect graph on every run (coq/gen/PemWf_<d>.v, with the theorem instantiated for the dialect); without it the statement is false (Pem_wf_arbitrary_graph_refuted, Pem_wf_greedy_bracket_refuted: vm_compute witnesses with duplicated leaves). "
               "C02_apply_leaves / C02_root / C02_unparsable_kept / C02_append_WF / C02_wrap_WF are closed Coq theorems for every token "
               "array and every well-formed MatchResult (unbounded depth and width): apply never panics and its non-meta leaves are "
               "exactly the token slice of its span, in order, each once; root_parse returns a File tree whose non-meta leaves are "
               "exactly all tokens (unmatched tail under Unparsable) or the grammar's parse error. "
               "That the real engine behaves like the interpreter is sampled correspondence (Pem stage); well-formedness of every real root match stays a monitored (blocking) hypothesis as a cross-check of that tie.",
    level_note="Trusted: Coq kernel; hand-written model tied by sampled correspondence (whole-tree comparison: kinds, structure, leaf ids) "
               "on every recorded root match of <= 260 tokens; the combinator engine and the grammars are an oracle whose results are "
               "recorded and checked against WF on every run. Panics inside the grammar (dangling keyword references, C14) are known findings.",
    rule="13 dialects x (876 corpus fixtures in their own dialect, rule yaml snippets, cross-dialect sample (thorough: all 13x876), "
         "token-level corruptions delete/duplicate/swap/insert/truncate/drain of lexed corpus files, junk stream: empty, comments only, "
         "unbalanced brackets, unterminated quotes, CRLF, non-ASCII, garbage between statements, "
         "gap-junk: one junk token (a token no terminal of the dialect accepts - unlexable characters, foreign operators - or an ordinary one) "
         "inserted after every opening bracket / before every closing bracket / after every ';' / at random gaps of every corpus file <= 1500 chars "
         "(thorough: every gap) and at every gap of 16 greedy-site statements (IN lists, VALUES, USING, OVER, array literals, scripting blocks) "
         "under every dialect). Each input is lexed by the dialect lexer "
         "and parsed by Parser::parse; the recorded root MatchResult and token array are replayed through the Gallina root_parse and the "
         "resulting tree compared with the real tree; append/wrap are replayed on sibling sub-matches. "
         "non-trivial = the recorded match has >= 3 nodes; distinct = distinct (tokens, match, tree) terms",
    assumptions=["H_WF_root_match: every MatchResult returned by the root grammar is well-formed (Apply.Model.wf_root) - proved for the interpreter of the engine on every graph with wf_safe_b (Pem_parse_root_wf_root; wf_safe_b evaluated on every dumped dialect graph), and monitored on every real parse, blocking",
                 "token ids produced by the lexer are pairwise distinct and tokens are leaves (monitored, blocking)",
                 "the tree is compared with the tokens the lexer produced, not with the raw input (lexer losslessness is C01)"],
)
