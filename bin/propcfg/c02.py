import concurrent.futures
import hashlib
import json
import os
import re


def _post(ctx):
    # the parser engine itself as a Gallina interpreter (DESIGN.md 6.21): translator + correspondence with the
    # root MatchResult of the real parser; wf_safe=True: the side condition of Pem_parse_keeps_every_token
    # (Props/C02.v) is evaluated on every dumped graph (coq/gen/PemWf_<d>.v)
    import cpem
    cpem.pem_stage(ctx, with_cases=True, wf_safe=True)
    _flag_stage(ctx)


FLAG_SHARD = 25


def _flag_stage(ctx):
    """Second sentence of C02 against the reference semantics of the engine (coq/theories/Corr/C02Pem.v): truncated /
    token-deleted / element-deleted / grammar-cut statements are parsed by the real parser (`sqv c02 --flag-cases`), the
    recorded root match is compared with what the Gallina interpreter of the engine answers over the dialect's freshly
    dumped grammar. verdict 2 (a code token the interpreter puts under an unparsable node is outside every unparsable
    node of the implementation's tree, no parse error) is a concrete failing input; verdict 1 (any other difference) a
    broken correspondence."""
    import cpem
    import vlib
    R = ctx["R"]
    tier, seed = ctx["tier"], ctx["seed"]
    extra = []
    if ctx.get("replay"):
        payload = json.load(open(ctx["replay"]))
        d = payload.get("detail", payload)
        d = d.get("sample", d)
        d = d.get("input", d)
        if d.get("via") != "interpreter":
            return
        dialects = [d.get("dialect", "ansi")]
        gr = cpem.dump_grammars(ctx["bin"], dialects)
        if not gr[dialects[0]][0]:
            R.violation("translator-obligation", dict(what="grammar dump of %s does not compile" % dialects[0], log=gr[dialects[0]][1]), False)
            return
        inp = os.path.join(vlib.CACHE, "runs", "C02F-replay-%d.json" % os.getpid())
        json.dump(d, open(inp, "w"))
        extra = ["--replay-input", inp]
    else:
        cov = ctx.get("extra_coverage", {})
        dialects = [g["dialect"] for g in cov.get("pem_graphs", [])
                    if os.path.exists(os.path.join(vlib.GEN, "PemGrammar_%s.vo" % g["dialect"]))]
        dialects = [d for d in cov.get("pem_dialects", []) if d in dialects]
    if not dialects:
        return
    if any(r.get("t") == "direct_fail" and str(r.get("key", "")).startswith("c02-no-termination") for r in ctx.get("recs", [])):
        # the parser does not return on some inputs (already reported as failing inputs): `--flag-cases` parses the same
        # statements without a watchdog
        vlib.log("C02 interpreter verdicts: skipped, the main run found parses that do not return")
        ctx.setdefault("extra_coverage", {}).update(interpreter_verdict_cases=0, interpreter_verdict_skipped="the main run found parses that do not return")
        return
    import time
    t0 = time.time()
    outp = os.path.join(vlib.CACHE, "runs", "C02F-%d.jsonl" % os.getpid())
    os.makedirs(os.path.dirname(outp), exist_ok=True)
    rc, out = vlib.harness_run(ctx["bin"], "c02", tier, seed, outp, ["--flag-cases", "--dialects", ",".join(dialects)] + extra,
                               timeout=900 if tier == "quick" else 3600)
    recs = vlib.read_jsonl(outp) if os.path.exists(outp) else []
    cases = [r for r in recs if r.get("t") == "case"]
    if rc != 0 or not cases:
        R.violation("broken-correspondence", dict(what="sqv c02 --flag-cases produced no cases", rc=rc, log=out[-1500:]), False)
        return
    for f in os.listdir(vlib.GEN):
        if f.startswith("Cases_C02F_"):
            os.remove(os.path.join(vlib.GEN, f))
    by_d = {}
    for c in cases:
        by_d.setdefault(c["group"][len("pem_"):], []).append(c)
    jobs = []
    for d, cs in sorted(by_d.items()):
        for k in range(0, len(cs), FLAG_SHARD):
            name = "Cases_C02F_%s_%d.v" % (d, k // FLAG_SHARD)
            body = ["From Sq Require Import Base.Corr Corr.Pem Corr.C02Pem.", "From SqGen Require Import PemGrammar_%s." % d,
                    "Open Scope N_scope.", "Definition cases : list case_t := [",
                    ";\n".join("(%d, %s, %s)" % (c["id"], c["args"], c["exp"]) for c in cs[k:k + FLAG_SHARD]), "].",
                    "Eval vm_compute in verdicts g cases."]
            open(os.path.join(vlib.GEN, name), "w").write("\n".join(body) + "\n")
            jobs.append(name)
    verdicts, errors = {}, []
    with concurrent.futures.ThreadPoolExecutor(max_workers=16) as ex:
        futs = {ex.submit(vlib.run_coqc, os.path.join("gen", name), 1500): name for name in jobs}
        for fut in concurrent.futures.as_completed(futs):
            rc, out = fut.result()
            blocks = vlib.parse_N_list(out)
            if rc != 0 or len(blocks) != 1 or len(blocks[0]) % 2:
                errors.append("%s: rc=%d %s" % (futs[fut], rc, out[-1500:]))
            else:
                verdicts.update(zip(blocks[0][0::2], blocks[0][1::2]))
    for f in os.listdir(vlib.GEN):
        if f.startswith("Cases_C02F_") and not f.endswith(".v"):
            os.remove(os.path.join(vlib.GEN, f))
    vlib.log("C02 interpreter verdicts: %d cases, %d shards, %.0f s" % (len(cases), len(jobs), time.time() - t0))
    for e in errors:
        R.violation("broken-correspondence", dict(what="the verdict of the engine interpreter did not evaluate", log=e[-1500:]), False)
    by_id = {c["id"]: c for c in cases}
    shown = 0
    # smallest inputs first
    silent = sorted((i for i, v in verdicts.items() if v == 2), key=lambda i: (len(by_id[i]["sample"]["input"]["sql"]), i))
    other = sorted((i for i, v in verdicts.items() if v != 2), key=lambda i: (len(by_id[i]["sample"]["input"]["sql"]), i))
    for i in silent[:40]:
        c = by_id[i]
        inp = dict(c["sample"]["input"], via="interpreter")
        d = inp["dialect"]
        key = "c02-unflagged-vs-interpreter:%s:%s" % (d, hashlib.sha1(inp["sql"].encode()).hexdigest()[:12])
        detail = dict(key=key, cls=c["cls"], input=inp,
                      msg="the root match of Parser::parse keeps code tokens outside every unparsable node, without a parse error, that the "
                          "reference semantics of the engine (Gallina interpreter over the dumped %s grammar) puts under an unparsable node: "
                          "text the grammar cannot match is accepted silently" % d)
        if shown < 3:
            shown += 1
            name = "Cases_C02F_show.v"
            body = ["From Sq Require Import Base.Corr Corr.Pem Corr.C02Pem.", "From SqGen Require Import PemGrammar_%s." % d, "Open Scope N_scope.",
                    "Set Printing Width 200.", "Set Printing Depth 100000.", "Eval vm_compute in show_with g %s %s." % (c["args"], c["exp"])]
            open(os.path.join(vlib.GEN, name), "w").write("\n".join(body) + "\n")
            rc, out = vlib.run_coqc(os.path.join("gen", name), 300)
            detail["interpreter_root_match_and_token_indices_it_flags_but_the_parser_does_not"] = re.sub(r"\s+", " ", out[-1800:])
            detail["parser_root_match"] = c["exp"][:1500]
        if key in R.known:
            R.known_hits[key] = R.known[key]
        else:
            R.violation("failing-input", detail, True)
    for i in other[:20]:
        c = by_id[i]
        R.violation("broken-correspondence", dict(correspondence="Corr.C02Pem.verdict_with (Gallina parser-engine interpreter vs the real root MatchResult, verdict %d)" % verdicts[i],
                                                  cls=c["cls"], sample=dict(c["sample"], input=dict(c["sample"]["input"], via="interpreter"))), False)
    hist = {}
    for c in cases:
        hist[c["cls"]] = hist.get(c["cls"], 0) + 1
    ctx["extra_evaluations"] = ctx.get("extra_evaluations", 0) + len(cases)
    ctx.setdefault("extra_coverage", {}).update(
        interpreter_verdict_cases=len(cases), interpreter_verdict_classes=hist, interpreter_verdict_dialects=sorted(by_d),
        interpreter_verdict_silently_kept=len(silent), interpreter_verdict_other_mismatches=len(other), interpreter_verdict_shards=len(jobs),
        interpreter_verdict_counts=[r.get("v") for r in recs if r.get("t") == "counts"])
    try:
        os.remove(outp)
    except OSError:
        pass


CFG = dict(
    post=_post,
    prop="C02", level="proof", harness="c02",
    props_files=["theories/Props/C02.v", "theories/Props/Pem.v"], corr_file="theories/Corr/C02.v", corr_module="Corr.C02",
    extra_targets=["theories/Corr/Pem.vo", "theories/Pem/WfRoot.vo", "theories/Pem/NoPanicMon.vo", "theories/Corr/C02Pem.vo"],   # imported by the generated coq/gen/PemGrammar_<d>.v of the Pem stage (absent in a fresh clone / after make clean)
    groups={"root": False, "append": False, "wrap": False},
    show_fn={"root": "model_root", "append": "model_append", "wrap": "model_wrap"},
    shard=120,
    design_ref="DESIGN.md 6.2, A.2; notes/C02.md",
    technique="Coq proof (MatchResult::apply re-slices exactly its span for every well-formed match; root_parse covers every "
              "token; append/wrap preserve well-formedness) + correspondence of the Gallina root_parse/apply/append/wrap with "
              "the real parser on recorded (tokens, root MatchResult) + direct observation leaves(tree) == lexer tokens "
              "+ direct observation of the second sentence: every code leaf outside the unparsable nodes that still has its lexer kind is "
              "accepted under that kind by some terminal parser of the dialect (terminals re-tag what they match), else it was kept silently "
              "+ the same sentence judged by the reference semantics of the engine: on truncated / token-deleted / element-deleted / grammar-cut / junk-at-a-gap statements "
              "the root match of the real parser is compared with the Gallina interpreter's over the freshly dumped grammar (Corr/C02Pem.v); a code token the "
              "interpreter puts under an unparsable node but the parser keeps outside every unparsable node is a failing input "
              "+ every input under a CPU-time watchdog (a parse that does not return is a failing input) + templated token streams (placeholder templater)",
    level_text="Pem (DESIGN 6.21): the combinator engine is also modelled, as a Gallina interpreter over the dumped grammar graphs, validated on every run against the root MatchResult of the real parser (4 dialects quick / 13 thorough). "
               "Pem_match_node_wf proves, for every grammar graph that satisfies the decidable side condition wf_safe_b (whatever can close a bracket - in a Bracketed node or in the dialect's bracket set - is a one-code-token String/MultiString parser behind Refs), "
               "every token map, regex oracle, fuel, node, start index and terminator context, that every successful match of the interpreter is well-formed (Apply.Model.wf: children nested, non-overlapping, inserts inside the span and outside the children, named nodes non-empty, Newtype over one token); "
               "Pem_parse_root_wf_root gives wf_root for the root match and Pem_parse_keeps_every_token composes it with C02_root: if the interpreter answers with a match, root_parse builds a File tree whose leaves are exactly all tokens in order. "
               "wf_safe_b is evaluated by vm_compute on every dumped dialect graph on every run (coq/gen/PemWf_<d>.v, with the theorem instantiated for the dialect); without it the statement is false (Pem_wf_arbitrary_graph_refuted, Pem_wf_greedy_bracket_refuted: vm_compute witnesses with duplicated leaves). "
               "C02_apply_leaves / C02_root / C02_unparsable_kept / C02_append_WF / C02_wrap_WF are closed Coq theorems for every token "
               "array and every well-formed MatchResult (unbounded depth and width): apply never panics and its non-meta leaves are "
               "exactly the token slice of its span, in order, each once; root_parse returns a File tree whose non-meta leaves are "
               "exactly all tokens (unmatched tail under Unparsable) or the grammar's parse error. "
               "That the real engine behaves like the interpreter is sampled correspondence (Pem stage); well-formedness of every real root match stays a monitored (blocking) hypothesis as a cross-check of that tie.",
    level_note="Trusted: Coq kernel; hand-written model tied by sampled correspondence (whole-tree comparison: kinds, structure, leaf ids) "
               "on every recorded root match of <= 260 tokens; the combinator engine and the grammars are an oracle whose results are "
               "recorded and checked against WF on every run. Panics inside the grammar (dangling keyword references, C14) are known findings.",
    rule="13 dialects x (876 corpus fixtures in their own dialect, rule yaml snippets, cross-dialect sample (thorough: all 13x876), "
         "token-level corruptions delete/duplicate/swap/insert/truncate/drain of lexed corpus files, junk stream: empty, comments only, "
         "unbalanced brackets, unterminated quotes, CRLF, non-ASCII, garbage between statements, "
         "gap-junk: one junk token (a token no terminal of the dialect accepts - unlexable characters, foreign operators - or an ordinary one) "
         "inserted after every opening bracket / before every closing bracket / after every ';' / at random gaps of every corpus file <= 1500 chars "
         "(thorough: every gap) and at every gap of 16 greedy-site statements (IN lists, VALUES, USING, OVER, array literals, scripting blocks) "
         "under every dialect), "
         "truncation / token-deleted / element-deleted: every prefix at a token boundary, every single code token removed, runs of sibling elements of the parse tree removed, "
         "of 34 small statements under every dialect and of a third of the corpus files <= 1500 chars (thorough: all), "
         "templated-span: a run of 2..14 tokens of those statements / of corpus files becomes the value of a placeholder (7 parameter styles; two runs in three hold a repeated code token), "
         "templated-literals / templated-shapes: C04's placeholder generators; a templated source is rendered by the placeholder templater and its TemplatedFile lexed by the dialect lexer. "
         "interpreter verdict (4 dialects quick / 13 thorough): ~135 cut statements + 30 junk-at-a-gap + 30 grammar-derived cut sentences (c03g) per dialect, each <= 160 chars. "
         "Each input is lexed by the dialect lexer "
         "and parsed by Parser::parse; the recorded root MatchResult and token array are replayed through the Gallina root_parse and the "
         "resulting tree compared with the real tree; append/wrap are replayed on sibling sub-matches. "
         "non-trivial = the recorded match has >= 3 nodes; distinct = distinct (tokens, match, tree) terms",
    assumptions=["H_WF_root_match: every MatchResult returned by the root grammar is well-formed (Apply.Model.wf_root) - proved for the interpreter of the engine on every graph with wf_safe_b (Pem_parse_root_wf_root; wf_safe_b evaluated on every dumped dialect graph), and monitored on every real parse, blocking",
                 "token ids produced by the lexer are pairwise distinct and tokens are leaves (monitored, blocking)",
                 "the tree is compared with the tokens the lexer produced, not with the raw input (lexer losslessness is C01)",
                 "what 'the grammar cannot match' means on the cut statements is what the Gallina interpreter of the engine (Pem/Model.v, validated against the real root match on every run) answers over the dumped grammar",
                 "a parse that uses more than 10 s of CPU time (+10 s per 5000 characters; the slowest input of a run needs ~0.15 s) is counted as not returning"],
)
