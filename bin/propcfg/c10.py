CFG = dict(
    prop="C10", level="proof", harness="c10",
    props_files=["theories/Props/C10.v"], corr_file="theories/Corr/C10.v", corr_module="Corr.C10",
    groups={"readme": True, "odd": False},
    design_ref="DESIGN.md 6.10",
    technique="Coq proof (state machine = last-relevant-directive specification, by induction over the sorted directive list) + "
              "end-to-end correspondence of the Gallina parse+mask model with lint results",
    level_text="C10_exact / C10_filter are closed Coq theorems for every directive list and violation: the mask computed by the "
               "modelled loop equals the documented 'last relevant range directive wins, line directives cover their line' "
               "specification. The model (comment parsing, stable sort, cut-off, state machine, filter) is tied to the code on "
               "every run by predicting the noqa-on violation list from the noqa-off list and the real comment leaves.",
    level_note="Trusted: Coq kernel; the model is hand-written (tie = sampled correspondence, ~3.2k files quick / ~40k thorough); "
               "Rust trim()/split() modelled for ASCII; rule bodies are not modelled (their output is the recorded noqa-off list).",
    rule="generated SQL files (2-7 lines of statements that violate CP01/LT01/AL02/...) with README-form "
         "noqa directives (group readme) or malformed/odd directives (group odd) on random lines, 13 dialects, "
         "6 rule selections; the same lines behind up to 60 lines of padding and at random indentation; one select list over "
         "many lines with directives before / between / behind the aliased columns of a line; the (line, column) grid of a "
         "leading and a trailing range directive; the same under templater = placeholder (8 parameter styles, values shorter / "
         "longer than the placeholder or spanning several lines, set through the ini text or the configuration object; "
         "positions compared are source positions); some files with CRLF line ends; each linted with noqa off and on; the Coq model of parse+mask is run on the real "
         "comment leaves and the noqa-off violation list and must predict the noqa-on list exactly. "
         "non-trivial = at least one violation is masked; distinct = distinct (comments, violations) tuples",
    assumptions=["comment texts are ASCII (Rust trim() is modelled for ASCII whitespace only; non-ASCII comments are skipped and counted)",
                 "the violation list with disable_noqa is parse violations followed by rule violations"],
)
