import json
import os

import vlib


def _pre(ctx):
    """Translator: dump the matcher tables of the 13 dialect lexers of the freshly built tree into
    coq/gen/LexTables.v and let coqc re-check the table-level obligations on them."""
    os.makedirs(os.path.join(vlib.CACHE, "runs"), exist_ok=True)
    tmp_v = os.path.join(vlib.CACHE, "runs", "LexTables-%d.v" % os.getpid())
    tmp_j = os.path.join(vlib.CACHE, "runs", "LexTables-%d.jsonl" % os.getpid())
    rc, out = vlib.harness_run(ctx["bin"], "c01", ctx["tier"], ctx["seed"], tmp_j, ["--tables", tmp_v], timeout=600)
    if rc != 0 or not os.path.exists(tmp_v):
        ctx["R"].violation("translator-obligation", dict(what="dump of the lexer matcher tables failed", rc=rc, log=out[-2000:]), False)
        return
    text = open(tmp_v).read()
    ok, _ = vlib.gen_check(ctx, "LexTables.v", text, 4,
                           "lexer tables of the 13 dialects: every subdivider has a trim pattern, the last-resort matcher is plain and of kind "
                           "Unlexable, no table entry has kind EndOfFile, every regex_syntax-parsable pattern has minimum_len >= 1")
    recs = vlib.read_jsonl(tmp_j)
    stat = [r["v"] for r in recs if r.get("t") == "stat"]
    hyps = [r for r in recs if r.get("t") == "hyp"]
    for h in hyps:
        if h["failures"]:
            ctx["R"].violation("translator-obligation", dict(what="dumped tables disagree with the Lexer object", hypothesis=h["name"], example=h["example"]), False)
    if stat:
        s = stat[0]
        ctx.setdefault("extra_coverage", {})["lex_tables"] = dict(
            dialects=len(s["tables"]), per_dialect=s["tables"], patterns=s["patterns"],
            progress_decided_statically=s["progress_static"],
            progress_monitored_only=s["progress_monitored_only"], obligations_ok=ok)
    for f in (tmp_v, tmp_j):
        try:
            os.remove(f)
        except OSError:
            pass


CFG = dict(
    prop="C01", level="proof", harness="c01",
    props_files=["theories/Props/C01.v"], corr_file="theories/Corr/C01.v", corr_module="Corr.C01",
    extra_targets=["theories/Lexer/Tables.vo"],
    groups={"lex": False, "lextpl": False},
    pre=_pre, shard=40,
    design_ref="DESIGN.md 6.1, notes/C01.md",
    technique="Coq proof about a Gallina model of Lexer::lex (string input) with the regex engines as oracles under monitored contracts "
              "+ translator (matcher tables of 13 dialects re-checked by coqc) + correspondence (model run on recorded oracle answers) "
              "+ direct observation of the property on the real lexer",
    level_text="C01_total / C01_lossless / C01_tiling / C01_one_eof / C01_refines_spec are closed Coq theorems for every input string, every "
               "matcher table satisfying the table obligations and every oracle (pattern engine) satisfying the bounds/progress contracts: "
               "the modelled Lexer::lex returns a token list whose texts concatenate to the input, whose slices tile [0,len) contiguously, "
               "which ends with exactly one end-of-file marker at len, and whose elements are exactly those of the flat specification "
               "'first matcher that matches, else the combined regex, else an unlexable chunk from the last-resort pattern'. "
               "The loop as it was before the repair is kept as lex_main_legacy with C01_legacy_refuted.",
    level_note="Trusted: Coq kernel; the model is hand-written and tied to the code by the correspondence on sampled inputs (every oracle "
               "query the real lexer makes is logged by a cfg(sqruff_verif) hook and answered by the real pattern object); regex engines and "
               "native cursor functions are oracles whose contracts are monitored on every recorded answer and, for progress, decided "
               "statically with regex_syntax where the pattern is in its language; only StringOrTemplate::String (one literal slice) is "
               "modelled and proved -- the templated entry Lexer::lex(Template(file)) is observed directly on every run and tied (group lextpl) "
               "to the composition of this model of the lexing loop with C15's model of iter_segments, whose theorems are C15's; byte offsets only (line/column of the position marker are not modelled).",
    rule="13 dialects x (regression strings incl. 'SELECT @x, b FROM t', last-resort probes, own corpus, cross-dialect corpus, rule "
         "fixture snippets, token-level mutations, junk stream with @ $ \\ lone quotes non-ASCII CR/CRLF control chars, junk spliced into SQL, "
         "2-/3-/4-byte characters inside every token shape [32 comment / quote / dollar / literal / identifier styles, terminated and "
         "unterminated, six layouts, enumerated + random mixtures], large inputs [44 shapes: one token or one unterminated token of 450 kB "
         "and 1.3 MB in every quoting / comment / literal style, many-token inputs of 16 and 48 kB; observed directly only], "
         "LF / CR LF / lone CR / blank / text mixtures [all strings of up to 4 letters] inside block comments and hints and [up to 2] inside the other 28 "
         "token shapes, corpus files rewritten with CR LF, doubled and mixed line endings -- all given to Lexer::lex as the raw string); "
         "13 dialects x templated files given to the lexer's other entry Lexer::lex(Template(file)) [1-3 placeholders inside one run of blanks with "
         "every separator combination and empty / blank / other values, between text, at the start and at the end of the file; placeholders with "
         "values shorter, longer, of equal length, empty, multi-token, multi-line, non-ASCII, first / last / alone; random fragment sequences; "
         "corpus files templatised in ten parameter styles -- made by the real PlaceholderTemplater::process and by TemplatedFile::new; "
         "observed directly in both coordinate systems [and a per-class budget of files <= 600 bytes replayed on the composed Gallina model]: texts concatenate to the templated text, templated slices tile it, raw = text at "
         "the slice, source slices inside the source, a token inside a literal slice sits at the translated place and the source shows the same "
         "text, consecutive source slices contiguous up to source text that renders to nothing or share one placeholder, one end-of-file marker at "
         "the end of the templated text and at the end of the source (up to trailing source that renders to nothing)]; "
         "each lexed by the real Lexer::lex on a helper thread under a CPU-time watchdog (a call that does not return is a failing input): "
         "property observed directly (returns, concat, tiling, raw=slice, src=tpl, one EOF at len, no panic/Err) and, "
         "for a per-class budget of inputs <= 600 bytes, the Gallina model run on the recorded oracle answers must produce the same token list "
         "(kind, raw, source slice, templated slice). non-trivial = at least 4 distinct token kinds",
    assumptions=["oracle contracts H_match_bounds, H_match_progress, H_search_contract, H_rx_contract, H_resort_progress, H_trim_greedy "
                 "(monitored on every recorded answer; blocking)",
                 "pattern answers depend only on the &str they are given (the model's oracles additionally receive the absolute offset)",
                 "regex/cursor match boundaries are UTF-8 character boundaries (the model slices bytes)",
                 "the theorems are about untemplated input (StringOrTemplate::String); Lexer::lex(Template(..)) is covered by direct observation of the "
                 "property in templated and source coordinates and by correspondence with the composed model (lexing loop of this area, "
                 "then Templ.Model.lex_segments of C15 on the slice list); a token is taken to be splittable iff its kind is Whitespace "
                 "(the code tests the matcher name 'whitespace')",
                 "a lexer call is taken not to return when its thread has used 10 s + 15 ms/kB^2 of CPU time (15 s + 40 s/MB for the "
                 "generated one-token inputs of 100 kB and more); the watchdog is self-tested on every run (blocking monitor)"],
    show_fn={"lex": "model", "lextpl": "model_lextpl"},
)
