import json
import os

import vlib


def _checked_profile(ctx):
    """Second build profile (DESIGN 2.4): overflow-checks and debug assertions on, as the repository's tests and
    debug builds run. Quick tier: regression + corpus (own dialect, all+fix) + rule fixtures; thorough: the whole search."""
    R = ctx["R"]
    if ctx.get("replay"):
        return
    hb = vlib.harness_build("chk")
    if not hb["ok"]:
        R.violation("broken-correspondence", dict(what="harness (profile chk) does not build", log=hb["log"][-2000:]), False)
        return
    outp = os.path.join(vlib.CACHE, "runs", "C03-chk-%d.jsonl" % os.getpid())
    extra = [] if ctx["tier"] == "thorough" else ["--subset"]
    rc, out = vlib.harness_run(hb["bin"], "c03", ctx["tier"], ctx["seed"], outp, extra, timeout=7200)
    recs = vlib.read_jsonl(outp) if os.path.exists(outp) else []
    done = [r for r in recs if r.get("t") == "done"]
    if rc != 0 or not done:
        R.violation("broken-correspondence", dict(what="harness run (profile chk) failed", rc=rc, log=out[-2000:]), False)
        return
    fails = [r for r in recs if r.get("t") == "direct_fail"]
    for r in fails:
        r["profile"] = "chk (overflow-checks on)"
        if isinstance(r.get("input"), dict):
            r["input"]["profile"] = "chk"
        R.direct_fail(r)
    n = sum(r.get("direct", 0) for r in done)
    ctx["extra_evaluations"] = ctx.get("extra_evaluations", 0) + n
    ctx.setdefault("extra_coverage", {})["checked_profile"] = dict(
        profile="chk: overflow-checks=on, debug-assertions=on", runs=n, failures=len(fails),
        classes=next((r.get("direct_by_class") for r in recs if r.get("t") == "counts"), {}))
    try:
        os.remove(outp)
    except OSError:
        pass


def _post(ctx):
    """(1) the second build profile of the crash search; (2) the parser engine's panic-freedom and termination theorems
    instantiated on every dialect's freshly dumped grammar graph (Pem stage: coq/gen/PemGrammar_<d>.v + coq/gen/PemNoPanic_<d>.v
    + coq/gen/PemTerm_<d>.v)."""
    _checked_profile(ctx)
    if ctx.get("replay"):
        return
    import cpem
    # all 13 graphs on every run: the obligation is one vm_compute per dialect (5-35 s each, run in parallel); the
    # interpreter-vs-parser replay (with_cases) stays with C02 / bin/check PEM
    cpem.pem_stage(ctx, dialects=cpem.ALL, with_cases=False, no_panic=True, terminates=True)


CFG = dict(
    prop="C03", level="other", harness="c03",
    props_files=["theories/Props/C03.v"], corr_file="theories/Corr/C03.v", corr_module="Corr.C03",
    # a mismatch in 'scan' is a text on which the real scan panics: a concrete failing input of C03
    groups={"scan": True, "htc": False, "loop": False, "aei": False},
    show_fn={"scan": "model_scan", "htc": "model_htc", "loop": "model_loop", "aei": "model_aei"},
    shard=150,
    harness_timeout=2400,
    post=_post,
    design_ref="DESIGN.md 6.3",
    technique="exhaustive-in-class crash search on the real linter (child processes, catch_unwind, watchdog) + Coq theorems about "
              "a Gallina model of the crash envelope (config scan, has_template_conflicts/fix_slices arithmetic, bounded fix loop, "
              "stage pipeline) tied to the code by correspondence with the panic bit",
    level_text="Claimed level: other. The technique (Coq proof about a model) does not decide C03 on its own: panic-freedom of the "
               "60 rule bodies and the reflow engine is not a theorem here, and non-termination of the parser is excluded by the search only. "
               "The parser engine's part is a theorem about its Gallina interpreter (Pem.Model, replayed against the real parser by C02 / "
               "bin/check PEM): Pem_parse_never_panics - for every graph with panic_safe_b g = true (decidable: a computed data-flow "
               "certificate of the context terminators, checked locally; evaluated by vm_compute on all 13 freshly dumped dialect graphs on "
               "every run, coq/gen/PemNoPanic_<d>.v) and every token array, regex oracle, fuel and span, the root parse ends in none of the "
               "engine's panic!/unwrap/unimplemented!/index sites (for the dialects with dangling keyword references: in none but the recorded "
               "'Grammar refers to ...' abort at a listed node); premise start_ok on the first token when parsing starts at index 0, with "
               "_refuted witnesses that it and the side condition are needed. What else is proved (closed theorems, all inputs): "
               "the in-file configuration scan returns; has_template_conflicts/fix_slices (run on every lint result outside the "
               "rules' catch_unwind) return under a stated stage invariant, with the two places where the unrepaired code violated "
               "it as _refuted lemmas; the fix loop adds no crash, ends within 10+2 passes / 12*|rules| crawls and never re-accepts "
               "a tree version; stage invariants chain through the lint_string pipeline (conditional, stages abstract). Everything "
               "else is decided by direct observation: every run of the crash search is a real lint/fix in a child process.",
    level_note="Trusted: Coq kernel; hand-written model tied by sampled correspondence (scan: exact panic bit on ~270 texts; "
               "has_template_conflicts: ~2.5k generated fix shapes x templated files incl. panics; loop: ~700 recorded fix-loop traces); "
               "templated_slice_to_source_slice, rule crawls and apply_fixes are recorded oracles. The crash search samples the "
               "property's input classes (about 73k lint/fix runs quick, ~220k thorough); it is exhaustive only for single-token "
               "deletions/duplications of the selected small files, for the dialects' keyword sets as statement openers and for the "
               "nodes of the dialect grammars (one shortest derivation context per node: a node is reached, not every path to it). Deep nesting in fix mode "
               "needs up to 11 GB: quick tier runs 64 nested subqueries in fix mode for ansi only.",
    rule="direct: one run = (dialect, rule selection in {core, all, 7 groups}, lint|fix, text) executed by Linter::lint_string (+ fix_string) "
         "in a child process under catch_unwind with a 60 s (x5 on retry) watchdog and a 16 GB address-space limit; classes: regression, corpus "
         "(own dialect, all+fix for every file), cross-dialect, rule fixtures, exhaustive single-token delete/duplicate on small files, "
         "seeded multi-token corruption with junk/keywords/config lines, every reserved+unreserved keyword of every dialect as statement "
         "opener, '-- sqlfluff' lines at every line, junk stream, nesting 1..64 of 9 bracket/CASE/subquery shapes, files to 20 kB, "
         "grammar-driven sentences: for every node of every dialect's grammar graph reachable from FileSegment (walked through the "
         "cfg(sqruff_verif) accessors on the freshly built dialect) a shortest token sequence leading the parser to that node - complete, "
         "cut right after the node, with a foreign identifier in its place, and complete with the optional elements in front of the node "
         "present (~55k texts; every keyword/segment reference site of a grammar is a node of its own). "
         "correspondence: scan/htc/loop kernels as described in level_note; non-trivial = scan: text has a config line; htc: positioned "
         "anchor in a multi-slice file; loop: at least one fix batch",
    assumptions=["the main search runs a build whose usize arithmetic wraps (overflow-checks off, like release); a second build with overflow "
                 "checks on runs the regression+corpus+rule-fixture subset in quick tier and the whole search in thorough tier",
                 "templated_slice_to_source_slice, rule crawls (inside catch_unwind) and apply_fixes are recorded, not modelled",
                 "no segment carries source fixes in this code base, so the source-edit branch of fix_slices is exercised only by the model"],
    trusted_extra=["harness/src/c03.rs child-process protocol (a worker that dies or times out is an observation; SIGKILL and first timeouts are retried alone)"],
)
