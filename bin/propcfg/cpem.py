"""Pem: the parser engine as a Gallina interpreter (DESIGN.md 6.21). Internal engine, not a property of
its own: `bin/check PEM` runs its translator + correspondence; C02/C11/C13 use pem_stage()."""
import concurrent.futures
import json
import os
import sys

sys.path.insert(0, os.path.dirname(os.path.dirname(os.path.abspath(__file__))))
import vlib  # noqa: E402

ALL = ["ansi", "athena", "bigquery", "clickhouse", "databricks", "duckdb", "mysql", "postgres", "redshift",
       "snowflake", "sparksql", "sqlite", "trino"]


def dump_grammars(binary, dialects):
    """Translator: regenerate coq/gen/PemGrammar_<d>.v from the freshly built code and compile them."""
    os.makedirs(vlib.GEN, exist_ok=True)
    res = {}

    def one(d):
        path = os.path.join(vlib.GEN, "PemGrammar_%s.v" % d)
        rc, out = vlib.sh([binary, "pem", "--dump-grammar", d, "--out", path], timeout=300)   # a dump takes < 1 s; a first-token hint that never returns is caught by the dump's own watchdog (exit 3 within seconds)
        if rc != 0:
            return d, False, "dump failed: " + out[-1500:]
        rc, out2 = vlib.run_coqc(os.path.join("gen", "PemGrammar_%s.v" % d), 1200)
        return d, rc == 0, (out + out2)[-1500:]

    with concurrent.futures.ThreadPoolExecutor(max_workers=13) as ex:
        for d, ok, log in ex.map(one, dialects):
            res[d] = (ok, log)
    return res


def pem_stage(ctx, dialects=None, with_cases=True):
    """Called from the `post` hook of C14 (closure theorems about the interpreter) and C02 (interpreter vs real
    parser): regenerate the Pem grammar files from the built tree, check their generated theorems, and replay
    the interpreter on recorded parses. Adds obligations / violations to the calling check's result."""
    R = ctx["R"]
    tier, seed = ctx["tier"], ctx["seed"]
    if ctx.get("replay"):
        return
    if dialects is None:
        if tier == "thorough":
            dialects = ALL
        else:   # quick: ansi + 3 dialects rotating with the seed
            rest = [d for d in ALL if d != "ansi"]
            k = seed % len(rest)
            dialects = ["ansi"] + [rest[(k + i * 4) % len(rest)] for i in range(3)]
    gr = dump_grammars(ctx["bin"], dialects)
    info = {}
    for d in dialects:
        ok, log = gr[d]
        ctx["extra_obligations"] += 2          # closure (or exact dangling list) + its corollary
        for line in log.splitlines():
            if "{" in line and '"dialect"' in line:      # the dump's summary line (prefixed by "dump failed: " when it exits non-zero)
                try:
                    info[d] = json.loads(line[line.index("{"):])
                except ValueError:
                    pass
        if ok:
            ctx["extra_discharged"] += 2
        elif info.get(d, {}).get("hint_hangs"):
            # the dump's watchdog (harness/src/pem.rs): Matchable::simple of these nodes never returned
            R.violation("translator-obligation", dict(what="Pem grammar of %s cannot be dumped: the first-token hint (Matchable::simple) of some nodes never returns" % d,
                                                      file="coq/gen/PemGrammar_%s.v" % d, nodes_whose_hint_never_returns=info[d]["hint_hangs"][:10]), False)
        else:
            R.violation("translator-obligation", dict(what="Pem grammar of %s: generated theorems (pem_closed / pem_dangling_exact) or the dump do not check" % d,
                                                      file="coq/gen/PemGrammar_%s.v" % d, log=log[-2000:]), False)
    cov = dict(pem_dialects=dialects, pem_graphs=[dict(dialect=d, nodes=i.get("nodes"), closed=(not i.get("dangling") and i.get("brackets_closed")),
                                                       dangling=i.get("dangling")) for d, i in sorted(info.items())])
    if with_cases:
        good = [d for d in dialects if gr[d][0]]
        outp = os.path.join(vlib.CACHE, "runs", "PEM-%d.jsonl" % os.getpid())
        os.makedirs(os.path.dirname(outp), exist_ok=True)
        rc, out = vlib.harness_run(ctx["bin"], "pem", tier, seed, outp, ["--dialects", ",".join(good)])
        recs = vlib.read_jsonl(outp) if os.path.exists(outp) else []
        cases = [r for r in recs if r.get("t") == "case"]
        if rc != 0 or not cases:
            R.violation("broken-correspondence", dict(what="sqv pem produced no cases", rc=rc, log=out[-1500:]), False)
        mism, errors, nsh = vlib.replay_cases("PEM", "Corr.Pem", cases, shard=20, timeout=1500,
                                              group_imports=lambda g: "From SqGen Require Import PemGrammar_%s." % g[len("pem_"):])
        by_id = {c["id"]: c for c in cases}
        for e in errors:
            R.violation("broken-correspondence", dict(what="Pem replay did not evaluate", log=e[-1500:]), False)
        for i in mism[:20]:
            c = by_id[i]
            R.violation("broken-correspondence", dict(correspondence="Corr.Pem.check_%s (Gallina parser-engine interpreter vs the real root MatchResult)" % c["group"],
                                                      sample=c["sample"]), False)
        cov.update(pem_cases=len(cases), pem_mismatches=len(mism), pem_shards=nsh,
                   pem_counts=[r.get("v") for r in recs if r.get("t") == "counts"])
        ctx["extra_evaluations"] = ctx.get("extra_evaluations", 0) + len(cases)
        try:
            os.remove(outp)
        except OSError:
            pass
    ctx.setdefault("extra_coverage", {}).update(cov)


def run(cfg, tier, seed, replay=None):
    R = vlib.Result("PEM", tier, seed, "translation_validation")
    cb = vlib.coq_build(["theories/Props/Pem.v"], ["theories/Corr/Pem.vo"])
    if cb["rc"] != 0:
        vlib.log(cb["log"])
        R.violation("broken-theorem", dict(what="Pem development does not build", log=cb["log"][-2000:]), False)
    hb = vlib.harness_build()
    if not hb["ok"]:
        vlib.log(hb["log"])
        R.violation("broken-correspondence", dict(what="harness does not build", log=hb["log"][-2000:]), False)
        return R.finish()
    dialects = os.environ.get("SQV_PEM_DIALECTS", ",".join(ALL)).split(",")
    gr = dump_grammars(hb["bin"], dialects)
    for d, (ok, log) in gr.items():
        if not ok:
            R.violation("translator-obligation", dict(what="grammar dump of %s does not compile" % d, log=log), False)
    good = [d for d in dialects if gr[d][0]]
    outp = os.path.join(vlib.CACHE, "runs", "PEM-%d.jsonl" % os.getpid())
    os.makedirs(os.path.dirname(outp), exist_ok=True)
    extra = ["--dialects", ",".join(good)]
    if replay:
        inp = outp + ".replay.json"
        d = json.load(open(replay))
        d = d.get("detail", d)
        d = d.get("sample", d)
        d = d.get("input", d)
        json.dump(d, open(inp, "w"))
        extra += ["--replay-input", inp]
    rc, out = vlib.harness_run(hb["bin"], "pem", tier, seed, outp, extra)
    recs = vlib.read_jsonl(outp) if os.path.exists(outp) else []
    cases = [r for r in recs if r.get("t") == "case"]
    mism, errors, nsh = vlib.replay_cases("PEM", "Corr.Pem", cases, shard=int(os.environ.get("SQV_PEM_SHARD", "20")), timeout=1500,
                                          group_imports=lambda g: "From SqGen Require Import PemGrammar_%s." % g[len("pem_"):])
    by_id = {c["id"]: c for c in cases}
    for e in errors:
        R.violation("broken-correspondence", dict(what="Pem replay did not evaluate", log=e[-1500:]), False)
    for i in mism[:50]:
        c = by_id[i]
        R.violation("broken-correspondence", dict(correspondence="Corr.Pem.check_%s" % c["group"], sample=c["sample"]), False)
    R.coverage.update(dict(programs=len(good), disagreements_checked=len(cases), mismatches=len(mism), coq_shards=nsh,
                           samples=[c["sample"] for c in cases[:3]] or [dict(note="none")],
                           stats=[r for r in recs if r.get("t") == "counts"]))
    print("PEM: %d cases, %d mismatches, %d errors" % (len(cases), len(mism), len(errors)), file=sys.stderr)
    for i in mism[:20]:
        print("  mismatch:", json.dumps(by_id[i]["sample"])[:300], file=sys.stderr)
    return R.finish()


CFG = dict(prop="PEM", level="translation_validation", run=run, unclaimed="internal engine (serves C02, C11, C13)")
