"""C14 — every dialect grammar is closed (translator property).

pre : passes the known-finding keys (<dialect>:<reference name>) and the gen directory to `sqv c14`.
run : `sqv c14` walks the 13 freshly built dialects through the cfg(sqruff_verif) accessors, observes
      `Dialect::ref` on every reference reachable from FileSegment (direct observation), asks every node for
      its real `simple()` / `is_optional()`, and writes coq/gen/Grammar_<d>.v.  Every real `simple()` and every
      real parse runs on a helper thread under a watchdog (a left-corner self reference makes `Ref::simple`
      re-enter its own OnceLock and block at 0 % CPU): a hint computation that does not end is reported within
      seconds as a direct failure naming dialect, reference cycle, path from FileSegment and SQL whose parse
      blocks / aborts, never as a harness timeout.
post: the 13 generated files are compiled by coqc in parallel; each states 6 vm_compute obligations
      (closed-except, known names really dangling, rank certificate, model simple = real simple for every
      node (blocked computations included: SHang), model deref = real Dialect::ref, pinned string ids) and 3
      instances of the general theorems; a dialect with a left-corner cycle additionally gets the Coq-checked
      refutation `<d>_leftcorner_cycle_k` / `<d>_has_no_rank_certificate_k` before `ranked_<d>` fails.
"""
import json
import os
import re

import vlib

DIALECTS = ["ansi", "athena", "bigquery", "clickhouse", "databricks", "duckdb", "mysql", "postgres",
            "redshift", "snowflake", "sparksql", "sqlite", "trino"]
N_OBL = 9


def _pre(ctx):
    R = ctx["R"]
    os.makedirs(vlib.GEN, exist_ok=True)
    for f in os.listdir(vlib.GEN):
        if f.startswith("Grammar_"):
            os.remove(os.path.join(vlib.GEN, f))
    keys = sorted(k for k in R.known if ":" in k)
    ctx["harness_extra"] = ["--gen-dir", vlib.GEN, "--known", ",".join(keys)]


def _diag(out):
    """the (101..107, value) tuples printed by the generated file before / between its theorems"""
    d = {}
    for m in re.finditer(r"=\s*\((10[1-7]),\s*(.*?)\)\s*:\s*N \*", out, flags=re.S):
        d[int(m.group(1))] = re.sub(r"\s+", " ", m.group(2))[:1500]
    return d


def _post(ctx):
    R = ctx["R"]
    recs = ctx.get("recs", [])
    if ctx.get("replay"):
        return
    items = []
    missing = []
    for d in DIALECTS:
        p = os.path.join(vlib.GEN, "Grammar_%s.v" % d)
        if os.path.exists(p):
            items.append(("Grammar_%s.v" % d, open(p).read(), N_OBL,
                          "generated obligations for dialect %s (closure, known findings dangling, rank certificate, "
                          "simple/deref agree with the implementation)" % d))
        else:
            missing.append(d)
    for d in missing:
        ctx["extra_obligations"] += N_OBL
        R.violation("translator-obligation", dict(what="no grammar dump was produced for dialect " + d), False)
    res = vlib.gen_check_many(ctx, items, timeout=1500)
    diags = {}
    closed_lines = 0
    for fname, (ok, out) in sorted(res.items()):
        dg = _diag(out)
        diags[fname] = dg
        closed_lines += out.count("Closed under the global context")
        if ok and out.count("Closed under the global context") != 3:
            R.violation("broken-theorem", dict(what="generated theorems of %s are not closed under the global context" % fname,
                                               log=out[-1500:]), False)
        if not ok:
            # name what no longer checks (the generic translator-obligation violation is already recorded)
            strs = []
            sp = os.path.join(vlib.GEN, fname[:-2] + ".strs.json")
            if os.path.exists(sp):
                strs = json.load(open(sp))
            names = lambda txt: [strs[int(x)] if int(x) < len(strs) else x for x in re.findall(r"\d+", txt)]
            detail = dict(file="coq/gen/" + fname)
            m = re.search(r'line (\d+), characters', out)
            if m:
                lines = open(os.path.join(vlib.GEN, fname)).read().split("\n")
                ln = int(m.group(1))
                for k in range(min(ln, len(lines)) - 1, -1, -1):
                    t = re.match(r"Theorem (\w+)", lines[k])
                    if t:
                        detail["theorem_that_no_longer_checks"] = t.group(1)
                        break
            if dg.get(102, "[]") != "[]":
                pairs = re.findall(r"\((\d+),\s*(\d+)\)", dg[102])
                detail["dangling_node_and_name"] = [(int(a), strs[int(b)] if int(b) < len(strs) else b) for a, b in pairs][:40]
            if dg.get(103, "[]") != "[]":
                detail["nodes_where_model_simple_differs_from_Matchable_simple"] = dg[103]
            if dg.get(104, "[]") != "[]":
                detail["names_where_model_deref_differs_from_Dialect_ref"] = names(dg[104])[:40]
            if dg.get(105, "[]") != "[]":
                detail["reachable_nodes_without_rank(left-corner cycle)"] = dg[105]
            if dg.get(106, "[]") != "[]":
                # (node, code): what the Gallina simple answers on the dumped graph for the unranked reachable nodes
                code = {"1": "model out of fuel (does not terminate)", "2": "blocks: a Ref re-enters its own OnceLock (SHang)",
                        "3": "panics 'Self referential grammar detected' (SSelfRef)"}
                detail["model_simple_of_unranked_reachable_nodes"] = [dict(node=int(a), model=code.get(b, b)) for a, b in re.findall(r"\((\d+),\s*(\d+)\)", dg[106])][:40]
            if detail.get("theorem_that_no_longer_checks", "").startswith("ranked_") and "_has_no_rank_certificate_0" in open(os.path.join(vlib.GEN, fname)).read():
                detail["coq_checked_refutation"] = ("%s_leftcorner_cycle_k / %s_has_no_rank_certificate_k (left-corner cycle through a reachable node, found by the translator, "
                                                    "checked by vm_compute; by C14_reachable_cycle_no_certificate no rank certificate exists)" % (fname[8:-2], fname[8:-2]))
                if dg.get(107):
                    detail["model_simple_of_cycle_nodes"] = dg[107]
            merged = False
            for (_kind, vd, _c) in R.violations:
                if isinstance(vd, dict) and vd.get("file") == "coq/gen/" + fname:
                    vd.update(detail)
                    merged = True
            if not merged:
                R.violation("translator-obligation", dict(what="which obligation of %s failed" % fname, **detail), False)
    stats = [r["v"] for r in recs if r.get("t") == "stat" and isinstance(r.get("v"), dict) and "dialect" in r["v"]]
    n_nodes = sum(s["nodes"] for s in stats)
    n_reach = sum(s["reachable"] for s in stats)
    n_edges = sum(s["reference_edges"] for s in stats)
    n_names = sum(s["distinct_reference_names"] for s in stats)
    ctx["extra_nontrivial"] = n_names
    ctx["extra_evaluations"] = n_nodes            # one model-vs-real simple() comparison per node, inside Coq
    fails = [r for r in recs if r.get("t") == "direct_fail"]
    ctx["extra_samples"] = [dict(kind="per-dialect statistics", **{k: s[k] for k in ("dialect", "nodes", "library", "reachable", "reference_edges", "dangling")}) for s in stats[:3]] \
        + [f["input"] for f in fails[:3]]
    ctx["extra_coverage"] = dict(
        programs=len(stats), exhaustive=True, states=n_reach, transitions=n_edges,
        grammar_nodes=n_nodes, reachable_nodes=n_reach, reachable_reference_edges=n_edges,
        distinct_reachable_reference_names=n_names, dangling_reachable_names=len(fails),
        generated_theorems_closed=closed_lines,
        per_dialect=[{k: s[k] for k in ("dialect", "nodes", "library", "reachable", "reference_edges", "distinct_reference_names", "max_rank", "node_kinds")} | dict(dangling=len(s["dangling"])) for s in stats],
        sql_synthesised=[r["v"] for r in recs if r.get("t") == "stat" and isinstance(r.get("v"), dict) and "sql_synthesised_for" in r["v"]],
    )
    # third sentence of the property, as theorems about the parser-engine interpreter (DESIGN.md 6.21):
    # per dialect `pem_closed` + `pem_never_dangling`, or the exact list of dangling nodes + `pem_dangling_only_listed`
    import cpem
    cpem.pem_stage(ctx, dialects=DIALECTS, with_cases=False)


CFG = dict(
    prop="C14", level="proof", harness="c14",
    props_files=["theories/Props/C14.v", "theories/Props/Pem.v"], corr_file=None, corr_module=None,
    extra_targets=["theories/Corr/Pem.vo"],      # the generated PemGrammar_<d>.v import it (a clean clone has no stale .vo to rely on)
    groups={}, pre=_pre, post=_post, harness_timeout=900,
    design_ref="DESIGN.md 6.14",
    technique="translator: the 13 dialect grammar graphs are dumped from the freshly built code into Gallina terms; a closure "
              "check and a rank certificate proved sound once in Coq are evaluated on them by vm_compute (exhaustive over all "
              "nodes); the dump is validated against behaviour (model simple()/deref vs the real ones for every node/name)",
    level_text="Pem_dangling_sound / Pem_closed_never_dangling (DESIGN 6.21): for the Gallina interpreter of the parser engine (validated against the real parser under C02) an abort 'Grammar refers to ...' can only name a node whose reference is missing from the dumped graph, and on a closed graph no token stream can cause it; instantiated per dialect by generated theorems. "
               "C14_closed_except_sound / C14_closed_no_dangling: if closed_except_b g K = true then on every path of interpreter "
               "edges from FileSegment every reference resolves (or is one of the listed known names) and every bracket type "
               "exists; C14_simple_terminates: with a checked rank certificate simple() of every reachable element neither loops "
               "nor blocks in the OnceLock of a Ref asked again from its own initialiser (SHang) nor hits the self-reference "
               "panic, and C14_reachable_cycle_no_certificate: a checked left-corner cycle through a reachable element refutes "
               "every rank certificate; C14_known_finding_is_dangling: every listed known name has a checked path "
               "certificate (stale entries fail). Per dialect the generated file proves closed_<d>, ranked_<d>, "
               "known_dangling_<d> by vm_compute over all nodes and instantiates the general theorems.",
    level_note="Trusted: Coq kernel + vm_compute; the translator (harness/src/c14.rs + the cfg(sqruff_verif) accessors) prints what "
               "the accessors return - cross-checked by simple_agrees_<d> (Gallina simple on the dump = real Matchable::simple "
               "for every node, panics and blocked computations included; the real calls run under a watchdog whose verdict "
               "'blocked' = helper thread asleep with no CPU for 1.5 s, confirmed on a dialect built afresh, and which is "
               "self-tested on a re-entrant OnceLock on every run) and deref_agrees_<d> / the dump_deref_agrees monitor; string interning is the "
               "translator's (HashMap). That the interpreter only follows the modelled edges (node_children/node_refs) is read "
               "off the match_segments bodies, not proved.",
    rule="all 13 dialects (kind_to_dialect) x every grammar node reachable from the library (exhaustive); evaluations = one direct "
         "observation of Dialect::ref per distinct reference name reachable from FileSegment per dialect + one model-vs-real "
         "simple() comparison per node; non-trivial/distinct = distinct (dialect, reference name) pairs reachable from FileSegment",
    assumptions=[
        "the interpreter reaches Dialect::ref only through Ref::_get_elem, Bracketed::get_bracket_from_dialect and "
        "next_ex_bracket_match('bracket_pairs') (greedy modes, Anything); FileSegment is the root (Parser::parse)",
        "Delimited ignores its base.exclude (it does today); an AHashSet bracket set has at most one pair per bracket type",
        "SegmentGenerators are expanded by Dialect::expand before parsing (the dump is taken after expand, as the linter does)",
        "std's OnceLock blocks when initialised again from its own initialiser (documented as unspecified, 'currently deadlocks'); "
        "monitored on every run (watchdog_sees_reentrant_oncelock). The value cached in Ref::simple_cache is not modelled: a "
        "computation that completes answers the same whatever the crumbs, one that panics or blocks leaves the cell empty",
    ],
    trusted_extra=["harness/src/c14.rs graph walk and Gallina printer; cfg(sqruff_verif) accessors in lib-core (commit verif-hook: read-only accessors ...)"],
)
