"""Per-property configuration of bin/check: every bin/propcfg/cNN.py defines CFG = dict(...)
(see vlib.standard_check for the keys). NOT_CLAIMED gives reasons for properties without a check."""
import importlib
import os
import sys

PROPS = {}
NOT_CLAIMED = {}

_d = os.path.join(os.path.dirname(os.path.abspath(__file__)), "propcfg")
sys.path.insert(0, _d)
for _f in sorted(os.listdir(_d)):
    if _f.endswith(".py") and _f[0] == "c":
        _m = importlib.import_module(_f[:-3])
        if hasattr(_m, "CFG"):
            PROPS[_m.CFG["prop"]] = _m.CFG
        if hasattr(_m, "NOT_CLAIMED"):
            NOT_CLAIMED.update(_m.NOT_CLAIMED)
