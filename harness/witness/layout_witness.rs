//! Layout witnesses for the parser (verification worktree only): prints the code-only view of the
//! parse tree of pairs of texts that differ only in layout.  `cargo test -p sqruff-lib --test
//! layout_witness -- --nocapture`; pairs can be added with LAYOUT_PAIRS="dialect|a|b;;dialect|a|b"
//! (`\n` in the variable stands for a newline).
use sqruff_lib::core::config::FluffConfig;
use sqruff_lib::core::linter::core::Linter;
use sqruff_lib_core::dialects::syntax::SyntaxKind;
use sqruff_lib_core::parser::segments::base::{ErasedSegment, Tables};

fn mk_linter(dialect: &str) -> Linter {
    let src = format!("[sqruff]\ndialect = {}\nrules = core\n", dialect);
    Linter::new(FluffConfig::from_source(&src, None), None, None, true)
}

fn shape(seg: &ErasedSegment, out: &mut String) {
    if seg.segments().is_empty() {
        if seg.is_code() {
            out.push_str(seg.get_type().as_str());
            out.push(':');
            if seg.get_type() == SyntaxKind::Keyword {
                out.push_str(&seg.raw().to_uppercase());
            } else {
                out.push_str(seg.raw());
            }
            out.push(' ');
        }
        return;
    }
    if !seg.is_code() {
        return;
    }
    out.push_str(seg.get_type().as_str());
    out.push('(');
    for c in seg.segments() {
        shape(c, out);
    }
    out.push(')');
}

fn view(dialect: &str, sql: &str) -> String {
    let linter = mk_linter(dialect);
    let tables = Tables::default();
    let r = std::panic::catch_unwind(std::panic::AssertUnwindSafe(|| {
        let p = linter.parse_string(&tables, sql, None).ok()?;
        let tree = p.tree?;
        let mut s = String::new();
        shape(&tree, &mut s);
        Some((s, p.violations.len()))
    }));
    match r {
        Ok(Some((s, nviol))) => format!("violations={} {}", nviol, s),
        Ok(None) => "no tree".to_string(),
        Err(_) => "PANIC".to_string(),
    }
}

#[test]
fn layout_pairs() {
    let mut pairs: Vec<(String, String, String)> = vec![
        // postgres concatenates adjacent string literals only across a newline
        ("postgres".into(), "SELECT 'a' 'b'".into(), "SELECT 'a'\n'b'".into()),
        ("postgres".into(), "SELECT 'a'\n'b' FROM t".into(), "SELECT 'a' 'b' FROM t".into()),
        // the recorded finding: a comment abutting the next keyword
        ("ansi".into(), "SELECT a FROM t".into(), "SELECT a /* c */FROM t".into()),
    ];
    if let Ok(extra) = std::env::var("LAYOUT_PAIRS") {
        for item in extra.split(";;") {
            let f: Vec<&str> = item.split('|').collect();
            if f.len() == 3 {
                pairs.push((f[0].to_string(), f[1].replace("\\n", "\n"), f[2].replace("\\n", "\n")));
            }
        }
    }
    for (d, a, b) in pairs {
        let va = view(&d, &a);
        let vb = view(&d, &b);
        println!("--- {} {:?} vs {:?}\n  A: {}\n  B: {}\n  same={}", d, a, b, va, vb, va == vb);
    }
}

/// Engine-level replay of the interpreter witness `LayoutEx.layout_greedy_option_sensitive`
/// (coq/theories/Pem/LayoutEx.v of the verification tree): a Greedy AnyNumberOf as an alternative of a
/// one_of that is tried at the start of a gap; only the *length* of the gap differs between the texts.
#[test]
fn greedy_option_is_layout_sensitive() {
    use sqruff_lib::core::test_functions::fresh_ansi_dialect;
    use sqruff_lib_core::parser::context::ParseContext;
    use sqruff_lib_core::parser::grammar::anyof::{AnyNumberOf, one_of};
    use sqruff_lib_core::parser::grammar::sequence::Sequence;
    use sqruff_lib_core::parser::match_result::{MatchResult, Matched};
    use sqruff_lib_core::parser::matchable::{Matchable, MatchableTrait};
    use sqruff_lib_core::parser::parser::Parser;
    use sqruff_lib_core::parser::parsers::StringParser;
    use sqruff_lib_core::parser::segments::meta::MetaSegment;
    use sqruff_lib_core::parser::segments::test_functions::lex;
    use sqruff_lib_core::helpers::{Config, ToMatchable};
    use sqruff_lib_core::parser::types::ParseMode;

    fn show(m: &MatchResult, out: &mut String) {
        let k = match &m.matched {
            None => "None".to_string(),
            Some(Matched::SyntaxKind(k)) => format!("Kind({})", k.as_str()),
            Some(Matched::Newtype(k)) => format!("Newtype({})", k.as_str()),
        };
        out.push_str(&format!("MR {} {} {} [", m.span.start, m.span.end, k));
        for c in &m.child_matches {
            show(c, out);
            out.push(';');
        }
        out.push(']');
    }
    fn has_unparsable(m: &MatchResult) -> bool {
        matches!(&m.matched, Some(Matched::SyntaxKind(SyntaxKind::Unparsable))) || m.child_matches.iter().any(has_unparsable)
    }

    let dialect = fresh_ansi_dialect();
    let config = FluffConfig::new(<_>::default(), None, None);
    let kw = |s: &str| -> Matchable { StringParser::new(s, SyntaxKind::Keyword).to_matchable() };
    let sym = |s: &str| -> Matchable { StringParser::new(s, SyntaxKind::Symbol).to_matchable() };
    let grammar = || -> Matchable {
        let greedy = AnyNumberOf::new(vec![
            Sequence::new(vec![MetaSegment::indent().to_matchable(), kw("zzz")]).to_matchable(),
        ])
        .config(|this| {
            this.terminators = vec![sym(";")];
            this.parse_mode = ParseMode::Greedy;
        })
        .to_matchable();
        let seqb = Sequence::new(vec![MetaSegment::indent().to_matchable(), kw("b")]).to_matchable();
        let tail = AnyNumberOf::new(vec![sym(","), sym(";")]).to_matchable();
        Sequence::new(vec![kw("a"), one_of(vec![greedy, seqb]).to_matchable(), tail])
            .allow_gaps(false)
            .to_matchable()
    };
    let mut results = vec![];
    for sql in ["a \nb,;", "a b,;"] {
        let parser: Parser = (&config).into();
        let mut ctx: ParseContext = (&parser).into();
        let mut segments = lex(&dialect, sql);
        if segments.last().unwrap().get_type() == SyntaxKind::EndOfFile {
            segments.pop();
        }
        let m = grammar().match_segments(&segments, 0, &mut ctx).unwrap();
        let mut s = String::new();
        show(&m, &mut s);
        println!("{:?} tokens={:?}\n   {}   unparsable={}", sql, segments.iter().map(|t| t.raw().to_string()).collect::<Vec<_>>(), s, has_unparsable(&m));
        results.push(has_unparsable(&m));
    }
    // the interpreter's answer (LayoutEx.g2): clean with the two-token gap, an unparsable section with the one-token gap
    assert_eq!(results, vec![false, true]);
}
