//! C07 — linting is pure, deterministic and independent of scheduling.
//!
//! Part A (purity, in process): for corpus files / rule snippets / junk texts: the freshly parsed tree
//! yields no patch (hypothesis `H_parse_patches`), a lint-only result has no patches and its
//! `fix_string` is the newline-normalised source, repeated / fresh-linter runs give the same
//! violations (`H_pure`), and the fix loop observed through the `cfg(sqruff_verif)` hook does what
//! the Gallina `lint_fix_parsed false` predicts (group `lintloop`).
//! Part B (worker processes with RAYON_NUM_THREADS = 1, 4, 16):
//! * scheduling: `lint_paths` on batches (subsets, permutations, directories, same content under different
//!   names; single files / single directories / no argument / nothing but ignored files; the same file
//!   reached through several arguments: repeated, overlapping, spelled differently (`./`, absolute, `..`,
//!   doubled slashes, trailing slash, symbolic links to a file and to a directory); several ignore
//!   predicates; two rule sets) with reused and fresh `Linter`s, compared with `lint_string` per file
//!   *identity* (canonical path); the `Sched` model (expansion loop with its seen-set + fan-in) is
//!   replayed on the recorded expansion lists (group `sched`);
//! * verdict: the same invocations with an `OutputStreamFormatter` (verbosity 0, 1, 2, -1) or a
//!   `JsonFormatter` attached, and `lint_string` sequences on one linter + formatter: `has_fail`, the
//!   number of files reported and the JSON collection are those of the files linted alone, whatever the
//!   order (group `verdict`: the Gallina `dispatch_all`);
//! * configuration histories: some forty configurations (dialects, rule sets, rule options, every
//!   placeholder style, several `param_regex`) used one after the other in a different order in each
//!   worker process, fresh and interleaved linters, `lint_string` and `lint_paths`: what is reported for
//!   (content, configuration) is the same in every process (`H_pure_history`);
//! digests are compared across the worker processes.
use std::cell::RefCell;
use std::collections::{BTreeMap, HashMap};
use std::io::Write as _;
use std::path::{Path, PathBuf};
use std::rc::Rc;
use std::sync::Arc;

use serde_json::{Value, json};
use sqruff_lib::cli::formatters::{Formatter, OutputStreamFormatter};
use sqruff_lib::cli::json::JsonFormatter;
use sqruff_lib::core::config::FluffConfig;
use sqruff_lib::core::linter::core::{Linter, verif_hook};
use sqruff_lib::core::rules::base::LintPhase;
use sqruff_lib_core::errors::SQLBaseError;
use sqruff_lib_core::parser::segments::base::Tables;

use crate::common::*;

type Viol = (usize, usize, Option<String>, String);
fn canon(vs: &[SQLBaseError]) -> Vec<Viol> {
    vs.iter().map(|v| (v.line_no, v.line_pos, v.rule.as_ref().map(|r| r.code.to_string()), v.description.clone())).collect()
}
fn fnv(s: &str) -> u64 {
    let mut h: u64 = 0xcbf29ce484222325;
    for b in s.as_bytes() {
        h ^= *b as u64;
        h = h.wrapping_mul(0x100000001b3);
    }
    h
}
fn normalise(s: &str) -> String {
    s.replace("\r\n", "\n").replace('\r', "\n")
}
fn mk_linter(dialect: &str) -> Linter {
    Linter::new(FluffConfig::from_source(&format!("[sqruff]\ndialect = {}\n", dialect), None), None, None, false)
}

// ------------------------------------------------------------------ part A: purity
struct Item {
    cls: &'static str,
    dialect: String,
    name: String,
    sql: String,
}
type Linters = HashMap<String, Linter>;

#[derive(Clone, Debug)]
enum Rec {
    Start(usize, bool),
    Batch(u8, usize, String, bool),
    PassEnd(u8, usize, bool),
    End(usize),
}

fn purity_one(ls: &mut Linters, it: &Item, out: &mut Buf) {
    out.count("purity_files", 1);
    let input = json!({"dialect":it.dialect,"sql":it.sql,"name":it.name});
    if !ls.contains_key(&it.dialect) {
        ls.insert(it.dialect.clone(), mk_linter(&it.dialect));
    }
    let linter = &ls[&it.dialect];
    let sql = it.sql.as_str();
    if sql.lines().any(|l| l.starts_with("-- sqlfluff")) {
        out.count("skipped_inline_config", 1);
        return;
    }
    let events: Rc<RefCell<Vec<Rec>>> = Rc::new(RefCell::new(vec![]));
    let r = catch(|| {
        // hypothesis: the parsed tree yields no patch
        let tables = Tables::default();
        let parsed = linter.parse_string(&tables, sql, None).unwrap();
        let parse_patches = parsed.tree.as_ref().map(|t| t.iter_patches(&parsed.templated_file).len());
        // lint-only run, observed through the fix-loop hook
        let ev2 = events.clone();
        verif_hook::FIX_HOOK.with(|h| {
            *h.borrow_mut() = Some(Box::new(move |e| {
                let rec = match e {
                    verif_hook::FixEvent::Start { tree, fix } => Rec::Start(tree.addr(), fix),
                    verif_hook::FixEvent::Batch { phase, pass, rule, accepted, .. } => Rec::Batch(if phase == LintPhase::Main { 0 } else { 1 }, pass, rule.to_string(), accepted),
                    verif_hook::FixEvent::PassEnd { phase, pass, changed } => Rec::PassEnd(if phase == LintPhase::Main { 0 } else { 1 }, pass, changed),
                    verif_hook::FixEvent::End { tree } => Rec::End(tree.addr()),
                };
                ev2.borrow_mut().push(rec);
            }));
        });
        let a = linter.lint_string(sql, None, false);
        verif_hook::FIX_HOOK.with(|h| *h.borrow_mut() = None);
        let a_v = canon(&a.violations);
        let fixable: Vec<String> = a.violations.iter().filter(|v| v.fixable).filter_map(|v| v.rule.as_ref().map(|r| r.code.to_string())).collect();
        let a_patches = a.patches.len();
        let a_fixed = a.fix_string();
        // repeated run on the same linter, and a fresh linter
        let b_v = canon(&linter.lint_string(sql, None, false).violations);
        let fresh = mk_linter(&it.dialect);
        let c_v = canon(&fresh.lint_string(sql, None, false).violations);
        let rules: Vec<(String, u8, bool)> = linter.rules().iter().map(|r| (r.code().to_string(), if r.lint_phase() == LintPhase::Main { 0 } else { 1 }, r.is_fix_compatible())).collect();
        (parse_patches, a_v, fixable, a_patches, a_fixed, b_v, c_v, rules)
    });
    verif_hook::FIX_HOOK.with(|h| *h.borrow_mut() = None);
    let (parse_patches, a_v, fixable, a_patches, a_fixed, b_v, c_v, rules) = match r {
        Ok(x) => x,
        Err(_) => {
            out.count("purity_panics_skipped (C03)", 1);
            return;
        }
    };
    let key = format!("{:x}", fnv(&format!("{}|{}", it.dialect, sql)) & 0xffffffffff);
    if let Some(n) = parse_patches {
        out.hyp("H_parse_patches (iter_patches of the freshly parsed tree is empty)", "blocking", n == 0, json!({"input":input,"patches":n}));
    }
    out.hyp("H_pure (same linter twice and a fresh linter give the same violations)", "blocking", a_v == b_v && a_v == c_v, json!({"input":input,"first":a_v,"second":b_v,"fresh":c_v}));
    out.direct(it.cls, a_patches == 0, &format!("c07-lint-patches:{}", key), &format!("lint-only result carries {} patches", a_patches), input.clone());
    let want = normalise(sql);
    out.direct(it.cls, a_fixed == want, &format!("c07-lint-changes-text:{}", key), &format!("fix_string of a lint-only result differs from the normalised source: {:?} vs {:?}", trunc(&a_fixed, 200), trunc(&want, 200)), input.clone());
    if sql.contains('\r') {
        out.count("crlf_inputs", 1);
    }
    if !a_v.is_empty() {
        out.count("purity_files_with_violations", 1);
    }
    // the loop trace
    let evs = events.borrow().clone();
    if evs.is_empty() {
        out.count("no_tree (unparsable: loop not entered)", 1);
        return;
    }
    let mut start = None;
    let mut end = None;
    let mut fixflag = None;
    let mut trace: Vec<String> = vec![];
    let rule_id = |code: &str| rules.iter().position(|r| r.0 == code).unwrap_or(9999);
    for e in &evs {
        match e {
            Rec::Start(a, f) => {
                start = Some(*a);
                fixflag = Some(*f);
            }
            Rec::End(a) => end = Some(*a),
            Rec::Batch(ph, pass, rule, acc) => trace.push(g_tuple(&["0".into(), ph.to_string(), pass.to_string(), rule_id(rule).to_string(), g_bool(*acc)])),
            Rec::PassEnd(ph, pass, ch) => trace.push(g_tuple(&["1".into(), ph.to_string(), pass.to_string(), "0".into(), g_bool(*ch)])),
        }
    }
    let mut fx: Vec<usize> = fixable.iter().map(|c| rule_id(c)).collect();
    fx.sort();
    fx.dedup();
    let args = g_tuple(&[
        g_bool(fixflag.unwrap_or(true)),
        g_list(rules.iter().enumerate().map(|(i, r)| g_tuple(&[i.to_string(), r.1.to_string(), g_bool(r.2)]))),
        g_list(fx.iter().map(|i| i.to_string())),
    ]);
    let exp = g_tuple(&[g_bool(start.is_some() && start == end), g_list(trace.clone())]);
    out.case("lintloop", it.cls, !fx.is_empty(), args, exp, json!({"input":input,"events":format!("{:?}", evs),"fixable_rules":fixable}));
}

fn purity_items(args: &Args) -> Vec<Item> {
    let mut items = vec![];
    let mut rng = Rng::new(args.seed ^ 0x707);
    let junk: &[(&str, &str)] = &[
        ("empty", ""),
        ("newline", "\n"),
        ("no-trailing-newline", "select 1"),
        ("crlf", "SELECT a\r\nFROM t\r\n"),
        ("cr", "SELECT a\rFROM t\r"),
        ("mixed", "SeLeCt  a ,b\r\nfrom t\n\n\n"),
        ("unparsable", "SELECT FROM WHERE ((("),
        ("junk", "@@ $$ \\ 'unterminated"),
        ("comment", "-- just a comment\n"),
        ("utf8", "SELECT 'h\u{e9}llo \u{1F600}'  AS x\n"),
        ("tabs", "SELECT\ta,\tb\nFROM\tt\n"),
        ("noqa", "SeLeCt  1 from tBl ; -- noqa: disable=all\nSeLeCt 2\n"),
    ];
    for (name, sql) in junk {
        for d in ["ansi", "bigquery", "postgres"] {
            items.push(Item { cls: "junk", dialect: d.to_string(), name: name.to_string(), sql: sql.to_string() });
        }
    }
    let snippets = rule_snippets();
    let n_snip = if args.thorough() { snippets.len() } else { 250.min(snippets.len()) };
    let mut idx: Vec<usize> = (0..snippets.len()).collect();
    rng.shuffle(&mut idx);
    for &i in idx.iter().take(n_snip) {
        items.push(Item { cls: "rule-snippet", dialect: "ansi".into(), name: snippets[i].0.clone(), sql: snippets[i].1.clone() });
    }
    let files = corpus();
    let n_corpus = if args.thorough() { files.len() } else { 160.min(files.len()) };
    let mut idx: Vec<usize> = (0..files.len()).collect();
    rng.shuffle(&mut idx);
    for &i in idx.iter().take(n_corpus) {
        let f = &files[i];
        if f.text.len() > 20000 {
            continue;
        }
        items.push(Item { cls: "corpus", dialect: f.dialect.clone(), name: f.name.clone(), sql: f.text.clone() });
        if i % 4 == 0 {
            items.push(Item { cls: "corpus-crlf", dialect: f.dialect.clone(), name: f.name.clone(), sql: f.text.replace('\n', "\r\n") });
        }
    }
    items
}

// ------------------------------------------------------------------ part B: scheduling, verdict, configuration histories
const SNIPPETS: [&str; 10] = [
    "SELECT a FROM t\n",
    "SeLeCt  a from t\n",
    "select a,b from t\n\n\n",
    "SELECT a FROM t UNION SELECT b FROM u\n",
    "SELECT col_a a FROM foo\n",
    "SELECT a\r\nFROM t\r\n",
    "",
    "SELECT a FROM t WHERE ((\n",
    "SELECT\n    a,\n    b\nFROM t\nWHERE a in (1,2)\n",
    "select 1",
];
/// (relative path, snippet index): same content under different names, an upper-case extension, files
/// the ignorer skips, a non-sql file.
const TREE: [(&str, usize); 20] = [
    ("top.sql", 1),
    ("zz_last.sql", 3),
    ("d1/a.sql", 1),
    ("d1/b.sql", 2),
    ("d1/c.SQL", 4),
    ("d1/notes.txt", 0),
    ("d1/m.sql", 8),
    ("d2/a.sql", 1),
    ("d2/e.sql", 5),
    ("d2/empty.sql", 6),
    ("d2/sub/f.sql", 7),
    ("d2/sub/g.sql", 2),
    ("d2/sub/deep/h.sql", 9),
    ("d3/skip_i.sql", 1),
    ("d3/j.sql", 0),
    ("d3/k.sql", 3),
    ("d3/skip_dir/l.sql", 4),
    ("d4/n.sql", 8),
    ("d4/o.sql", 2),
    ("d4/p.sql", 1),
];
/// Linter configurations of the batches and string sequences: the default rule set (most snippets
/// fail) and a small one (most snippets are clean), so that batches mix failing and clean files.
const BCFG: [(&str, &str); 2] = [("ansi-default", "[sqruff]\ndialect = ansi\n"), ("ansi-cp01-lt12", "[sqruff]\ndialect = ansi\nrules = CP01,LT12\n")];
/// Verbosities of the `OutputStreamFormatter` runs (the CLI takes it from `[sqruff] verbose`).
const VERBOSITIES: [i32; 4] = [0, 1, 2, -1];
/// Ignore predicates (on the path relative to the working directory).
const N_IGNORERS: usize = 4;
fn ignored_rel(k: usize, rel: &str) -> bool {
    match k {
        0 => rel.contains("skip"),
        1 => false,
        2 => rel.contains("skip") || rel.starts_with("d2/sub") || rel.ends_with("top.sql"),
        _ => true,
    }
}

fn cache_dir() -> PathBuf {
    if let Ok(t) = std::env::var("CARGO_TARGET_DIR") {
        if let Some(p) = PathBuf::from(t).parent() {
            return p.to_path_buf();
        }
    }
    let exe = std::env::current_exe().unwrap();
    exe.ancestors().nth(3).map(|p| p.to_path_buf()).unwrap_or_else(std::env::temp_dir)
}
fn is_sql(p: &str) -> bool {
    p.to_lowercase().ends_with(".sql")
}
fn rel_of(wd: &str, p: &str) -> String {
    let p = p.strip_prefix(wd).map(|x| x.trim_start_matches('/')).unwrap_or(p);
    p.trim_start_matches("./").to_string()
}
fn canon_rel(wd: &str, p: &str) -> String {
    let c = std::fs::canonicalize(p).map(|c| c.to_string_lossy().to_string()).unwrap_or_else(|_| p.to_string());
    rel_of(wd, &c)
}
fn mk_cfg_linter(src: &str, fmt: Option<Arc<dyn Formatter>>) -> Linter {
    Linter::new(FluffConfig::from_source(src, None), fmt, None, false)
}
/// (fails, warns) as `OutputStreamFormatter::format_file_violations` counts them, and "some violation
/// is not a warning" (what `JsonFormatter::has_fail` looks at).
fn fail_counts(vs: &[SQLBaseError]) -> (usize, usize, bool) {
    (vs.iter().filter(|v| !v.ignore && !v.warning).count(), vs.iter().filter(|v| v.warning).count(), vs.iter().any(|v| !v.warning))
}

#[derive(Clone)]
struct Batch {
    cls: &'static str,
    /// path arguments; `{WD}` stands for the (absolute, canonical) working directory of the worker
    args: Vec<String>,
    ign: usize,
    cfg: usize,
}
impl Batch {
    fn eff_args(&self, wd: &str) -> Vec<String> {
        self.args.iter().map(|a| a.replace("{WD}", wd)).collect()
    }
}
/// What one invocation is expected to do, computed without `lint_paths`: the expansion of every
/// argument as *spelled* paths (hook `verif_paths_from_path`; a file argument is taken verbatim), the
/// file each spelling reaches (identity = canonical path), the ignored files and the selected ones
/// (every file some argument reaches and the ignorer does not skip, once, in order of first reach).
struct Plan {
    spell: Vec<String>,
    exps: Vec<Vec<usize>>,
    ident: Vec<usize>,
    ignored: Vec<usize>,
    selected: Vec<usize>,
    /// some file is reached more than once (repeated / overlapping / respelled arguments, links)
    multi_reach: bool,
}
/// Other spellings of a path of the tree (file or directory).
fn respell(rng: &mut Rng, rel: &str) -> String {
    let split = rel.rsplit_once('/');
    match rng.below(8) {
        0 => rel.to_string(),
        1 => format!("./{}", rel),
        2 => format!("{{WD}}/{}", rel),
        3 => match split {
            Some((par, name)) => format!("{}/../{}/{}", par, par.rsplit('/').next().unwrap_or(par), name),
            None => format!("d4/../{}", rel),
        },
        4 => match split {
            Some((par, name)) => format!("{}//{}", par, name),
            None => format!(".//{}", rel),
        },
        5 => format!("{{WD}}/./{}", rel),
        6 => format!("d2/sub/../../{}", rel),
        _ => {
            // through a symbolic link, where there is one
            if rel == "d1/a.sql" {
                "links/alias.sql".to_string()
            } else if rel == "d4" || rel.starts_with("d4/") {
                format!("links/dlink{}", &rel[2..])
            } else {
                format!("././{}", rel)
            }
        }
    }
}
/// The same file reached through several arguments: a few files / directories of the tree, each under
/// two or three spellings, now and then together with the directory above; in any order.
fn gen_alias(rng: &mut Rng) -> Batch {
    let dirs = ["d1", "d2", "d3", "d4", "d2/sub", "d2/sub/deep", "d3/skip_dir"];
    let mut args: Vec<String> = vec![];
    for _ in 0..(1 + rng.below(3)) {
        let base: String = if rng.chance(1, 3) { dirs[rng.below(dirs.len())].to_string() } else { TREE[rng.below(TREE.len())].0.to_string() };
        for _ in 0..(2 + rng.below(2)) {
            args.push(respell(rng, &base));
        }
        if rng.chance(1, 2) {
            if let Some((par, _)) = base.rsplit_once('/') {
                args.push(if rng.chance(1, 2) { par.to_string() } else { respell(rng, par) });
            } else if rng.chance(1, 4) {
                args.push(".".to_string());
            }
        }
    }
    rng.shuffle(&mut args);
    Batch { cls: "aliased-arguments", args, ign: if rng.chance(1, 2) { 0 } else { rng.below(N_IGNORERS) }, cfg: rng.below(BCFG.len()) }
}
/// Distinct, non-overlapping path arguments: each top-level directory is given either as a whole,
/// or through some of its files / sub-directories.
fn gen_batch(rng: &mut Rng) -> Batch {
    let files: Vec<&str> = TREE.iter().map(|x| x.0).collect();
    let kind = rng.below(5);
    let mut args: Vec<String> = vec![];
    let cls;
    match kind {
        0 => {
            cls = "all-files-permuted";
            args = files.iter().filter(|f| is_sql(f)).map(|s| s.to_string()).collect();
        }
        1 => {
            cls = "dirs-and-top-files";
            args = vec!["d1".into(), "d2".into(), "d3".into(), "d4".into(), "top.sql".into(), "zz_last.sql".into()];
        }
        2 => {
            cls = "file-subset";
            for f in files.iter().filter(|f| is_sql(f)) {
                if rng.chance(1, 2) {
                    args.push(f.to_string());
                }
            }
            if args.is_empty() {
                args.push("top.sql".into());
            }
        }
        _ => {
            cls = "mixed";
            for d in ["d1", "d2", "d3", "d4"] {
                match rng.below(4) {
                    0 => args.push(d.to_string()),
                    1 => {}
                    2 => {
                        if d == "d2" {
                            // the sub-directory and some of d2's own files
                            args.push("d2/sub".into());
                            for f in ["d2/a.sql", "d2/e.sql", "d2/empty.sql"] {
                                if rng.chance(1, 2) {
                                    args.push(f.to_string());
                                }
                            }
                        } else {
                            args.push(d.to_string());
                        }
                    }
                    _ => {
                        for f in files.iter().filter(|f| f.starts_with(&format!("{}/", d)) && is_sql(f)) {
                            if rng.chance(1, 2) {
                                args.push(f.to_string());
                            }
                        }
                    }
                }
            }
            for f in ["top.sql", "zz_last.sql"] {
                if rng.chance(1, 2) {
                    args.push(f.to_string());
                }
            }
            if args.is_empty() {
                args.push("d4".into());
            }
        }
    }
    rng.shuffle(&mut args);
    // mostly the "skip" ignorer and the default configuration; the others now and then
    let ign = if rng.chance(2, 3) { 0 } else { rng.below(N_IGNORERS) };
    let cfg = if rng.chance(2, 3) { 0 } else { 1 };
    Batch { cls, args, ign, cfg }
}
/// Small batches: one file, two files, three files (any file of the tree, ignored or not, in any order).
fn gen_small(rng: &mut Rng) -> Batch {
    let n = 1 + rng.below(3);
    let mut ids: Vec<usize> = (0..TREE.len()).collect();
    rng.shuffle(&mut ids);
    let args = ids.iter().take(n).map(|i| TREE[*i].0.to_string()).collect();
    Batch { cls: "small-batch", args, ign: rng.below(N_IGNORERS), cfg: rng.below(BCFG.len()) }
}
fn batches(args: &Args) -> Vec<Batch> {
    let mut rng = Rng::new(args.seed ^ 0x5c4ed);
    let b = |cls: &'static str, a: &[&str], ign: usize, cfg: usize| Batch { cls, args: a.iter().map(|s| s.to_string()).collect(), ign, cfg };
    let mut v = vec![b("regression", &["d1", "d2"], 0, 0), b("regression", &["d2/sub", "d2/a.sql", "d1/a.sql", "d3"], 0, 0), b("regression", &["zz_last.sql", "top.sql"], 0, 0)];
    // degenerate invocations: every file of the tree alone (ignored ones included), every directory alone
    // (one of them holds a single, ignored, file), no argument at all (= the working directory),
    // nothing but ignored files, everything ignored
    for (i, (p, _)) in TREE.iter().enumerate() {
        v.push(b("single-file", &[p], 0, i % BCFG.len()));
    }
    for d in ["d1", "d2", "d3", "d4", "d2/sub", "d2/sub/deep", "d3/skip_dir", "."] {
        v.push(b("single-dir", &[d], 0, 0));
    }
    v.push(b("no-argument", &[], 0, 0));
    v.push(b("no-argument", &[], 1, 1));
    v.push(b("only-ignored", &["d3/skip_i.sql", "d3/skip_dir"], 0, 0));
    v.push(b("only-ignored", &["d3/skip_dir/l.sql", "d3/skip_i.sql"], 0, 1));
    v.push(b("only-ignored", &["d1", "top.sql", "d2"], 3, 0));
    v.push(b("only-ignored", &["d4/o.sql"], 3, 0));
    v.push(b("single-file", &["d2/sub/g.sql"], 2, 0));
    v.push(b("single-file", &["top.sql"], 2, 1));
    // the same file reached through more than one argument: repeated arguments, a directory and something
    // inside it, the same file / directory spelled differently (both orders: which spelling comes first
    // decides which one a de-duplication keeps)
    for a in [&["d1/a.sql", "d1/a.sql"][..], &["d1", "d1"], &["top.sql", "d2", "top.sql", "d2"]] {
        v.push(b("repeated-argument", a, 0, 0));
    }
    for a in [&["d1", "d1/a.sql"][..], &["d1/a.sql", "d1"], &["d2", "d2/sub"], &["d2/sub/deep", "d2/sub", "d2"], &[".", "d1", "top.sql"], &["d3/skip_i.sql", "d3"], &["d4/o.sql", ".", "d4"]] {
        v.push(b("overlapping-arguments", a, 0, 0));
    }
    v.push(b("overlapping-arguments", &["d2", "d2/sub", "d2/sub/g.sql"], 2, 1));
    for a in [
        &["d1/a.sql", "./d1/a.sql"][..],
        &["./d1/a.sql", "d1"],
        &["d1", "./d1/a.sql"],
        &["d1", "{WD}/d1/a.sql"],
        &["{WD}/d1/a.sql", "d1/a.sql"],
        &["d1/../d1/b.sql", "d1"],
        &["d1//a.sql", "d1"],
        &["./d1", "d1/a.sql"],
        &["d1/", "d1"],
        &["d1/.", "d1/m.sql"],
        &["{WD}/d2", "d2/sub/g.sql", "./d2/sub"],
        &["links/alias.sql", "d1/a.sql"],
        &["d1", "links/alias.sql"],
        &["links/alias.sql"],
        &["links"],
        &["links/dlink", "d4"],
        &["d4/n.sql", "links/dlink"],
        &["links/dlink/o.sql", "d4/o.sql", "./d4/o.sql"],
        &["./top.sql", "top.sql", "{WD}/top.sql", ".//top.sql", "."],
        &["./d3/skip_i.sql", "d3"],
        &["d3", "d3/../d3/skip_dir/l.sql", "d3//j.sql"],
        &["{WD}"],
        &["{WD}", "."],
    ] {
        v.push(b("respelled-argument", a, 0, 0));
    }
    v.push(b("respelled-argument", &["./d1/b.sql", "d1/b.sql", "d2/../d1/b.sql"], 1, 1));
    v.push(b("respelled-argument", &["d2/sub/../../top.sql", "top.sql", "d2/./sub", "d2"], 2, 0));
    for _ in 0..(if args.thorough() { 150 } else { 24 }) {
        v.push(gen_alias(&mut rng));
    }
    for _ in 0..(if args.thorough() { 120 } else { 16 }) {
        v.push(gen_small(&mut rng));
    }
    for _ in 0..(if args.thorough() { 400 } else { 60 }) {
        v.push(gen_batch(&mut rng));
    }
    v
}

/// What the three parts of a worker have in common.
struct RefEntry {
    rid: usize,
    viols: Vec<Viol>,
    fails: usize,
    json_fail: bool,
    diags: Value,
}
struct Worker {
    wd: String,
    threads: String,
    /// per configuration of `BCFG`, per file of `TREE`: `lint_string` of the content on a fresh linter
    reference: Rc<Vec<Vec<RefEntry>>>,
    wr: std::io::BufWriter<std::fs::File>,
}
impl Worker {
    fn emit(&mut self, v: Value) {
        writeln!(self.wr, "{}", v).unwrap();
    }
    fn dfail(&mut self, cls: &str, key: &str, msg: &str, input: &Value) {
        self.emit(json!({"t":"dfail","cls":cls,"key":key,"msg":msg,"input":input}));
    }
    fn dok(&mut self, cls: &str, n: usize) {
        self.emit(json!({"t":"dcount","cls":cls,"n":n}));
    }
    /// The file a path reaches: its canonical path (symbolic links, `.`, `..`, doubled slashes resolved;
    /// relative paths are relative to the working directory = `wd`), relative to `wd`.
    fn canon_rel(&self, p: &str) -> String {
        canon_rel(&self.wd, p)
    }
    fn file_id(&self, p: &str) -> usize {
        let r = self.canon_rel(p);
        TREE.iter().position(|x| x.0 == r).unwrap_or(9999)
    }
}

/// One `lint_paths` call on a batch; every clause of the property that is visible in the result, in
/// the formatter attached to the linter (if any) and the case for the `sched` model.
fn run_batch(w: &mut Worker, b: &Batch, input: &Value, linter: &mut Linter, run_name: &str, plan: &Plan, stream: Option<(&Arc<OutputStreamFormatter>, i32)>, jsonf: Option<&Arc<JsonFormatter>>) -> Option<(u64, bool)> {
    let wd = w.wd.clone();
    let ign = b.ign;
    let (ignored, selected) = (&plan.ignored, &plan.selected);
    // the ignorer is a property of the file (it looks at the canonical path), not of the spelling
    let ignorer = move |p: &Path| ignored_rel(ign, &canon_rel(&wd, &p.to_string_lossy()));
    let eff = b.eff_args(&w.wd);
    let paths: Vec<PathBuf> = eff.iter().map(PathBuf::from).collect();
    let r = catch(|| {
        let res = linter.lint_paths(paths, false, &ignorer);
        res.paths.iter().map(|d| (d.path.clone(), d.files.iter().map(|f| (f.path.clone(), canon(&f.violations), f.patches.len(), fail_counts(&f.violations))).collect::<Vec<_>>())).collect::<Vec<_>>()
    });
    let dirs = match r {
        Ok(d) => d,
        Err(m) => {
            w.dfail(b.cls, "c07-lint-paths-panic", &format!("lint_paths panicked: {}", m), input);
            return None;
        }
    };
    let refs = w.reference.clone();
    let reference = &refs[b.cfg];
    // with no argument the working directory is linted
    let want_dirs: Vec<String> = if b.args.is_empty() { vec![w.wd.clone()] } else { eff.clone() };
    let mut fails: Vec<(String, String)> = vec![];
    let mut seen: HashMap<usize, usize> = HashMap::new();
    let mut observed: Vec<Vec<(usize, usize)>> = vec![];
    let mut observed_ids: Vec<usize> = vec![];
    let mut counts: Vec<(usize, usize)> = vec![];
    let mut dig: Vec<(String, u64)> = vec![];
    if dirs.len() != want_dirs.len() {
        fails.push(("c07-dir-order".into(), format!("the result has {} directories for {} arguments", dirs.len(), want_dirs.len())));
    }
    for (di, (dpath, files)) in dirs.iter().enumerate() {
        if di >= want_dirs.len() || *dpath != want_dirs[di] {
            fails.push(("c07-dir-order".into(), format!("directory {} of the result is {:?}, argument is {:?}", di, dpath, want_dirs.get(di))));
        }
        let mut bucket = vec![];
        for (p, v, np, fc) in files {
            let id = w.file_id(p);
            // the spelling under which the file is stored (the linter keeps the expanded path verbatim)
            let sid = plan.spell.iter().position(|s| s == p).unwrap_or(9000 + observed_ids.len());
            let spelled = rel_of(&w.wd, p);
            let p = w.canon_rel(p);
            *seen.entry(id).or_default() += 1;
            if sid >= 9000 {
                fails.push((format!("c07-unexpanded-path:{}", p), format!("the result holds {:?}, which is not a path of any argument's expansion", spelled)));
            }
            let rid = match reference.get(id) {
                Some(e) if e.viols == *v => e.rid,
                Some(e) => {
                    fails.push((format!("c07-differs-from-lint-string:{}", p), format!("{}: lint_paths reports {:?}, lint_string reports {:?}", p, v, e.viols)));
                    8888
                }
                None => 9999,
            };
            if *np != 0 {
                fails.push((format!("c07-lint-patches:{}", p), format!("{}: lint-only result carries {} patches", p, np)));
            }
            if di < plan.exps.len() && !plan.exps[di].iter().any(|s| plan.ident[*s] == id) {
                fails.push((format!("c07-wrong-dir:{}", p), format!("{} (as {:?}) stored under argument {:?}", p, spelled, dpath)));
            }
            bucket.push((sid, rid));
            observed_ids.push(id);
            counts.push((fc.0, fc.1));
            dig.push((p.clone(), fnv(&format!("{:?}", v))));
        }
        observed.push(bucket);
    }
    let name = |id: usize| TREE.get(id).map(|x| x.0).unwrap_or("?");
    for s in selected {
        let n = seen.get(s).copied().unwrap_or(0);
        if n != 1 {
            let as_: Vec<String> = dirs.iter().flat_map(|d| d.1.iter()).filter(|f| w.file_id(&f.0) == *s).map(|f| f.0.replace(&w.wd, "<wd>")).collect();
            fails.push((format!("c07-not-exactly-once:{}", name(*s)), format!("selected file {} appears {} times in the result of lint_paths {:?} (as {:?})", name(*s), n, eff.iter().map(|a| a.replace(&w.wd, "<wd>")).collect::<Vec<_>>(), as_)));
        }
    }
    for id in seen.keys() {
        if !selected.contains(id) {
            fails.push((format!("c07-unselected:{}", name(*id)), format!("file {:?} was not selected (ignored: {}) but appears in the result", name(*id), ignored.contains(id))));
        }
    }
    // the verdict of the invocation as the formatter holds it
    let failing: Vec<&str> = selected.iter().filter(|s| reference.get(**s).is_some_and(|e| e.fails > 0)).map(|s| name(*s)).collect();
    let stored: Vec<&str> = observed_ids.iter().map(|x| name(*x)).collect();
    let mut verdict = false;
    if let Some((f, v)) = stream {
        let got = f.has_fail();
        verdict = got;
        let want = v >= 0 && !failing.is_empty();
        if got != want {
            fails.push((format!("c07-verdict:{}:v{}", BCFG[b.cfg].0, v), format!("verbosity {}: has_fail() is {} after lint_paths, but the failing files of the batch are {:?} (files as stored: {:?})", v, got, failing, stored)));
        }
        let n = f.verif_files_dispatched();
        let want_n = if v >= 0 { selected.len() } else { 0 };
        if n != want_n {
            fails.push((format!("c07-files-dispatched:v{}", v), format!("verbosity {}: the formatter counted {} files, {} were selected", v, n, want_n)));
        }
        let g_args = g_tuple(&[g_bool(v < 0), v.unsigned_abs().to_string(), g_list(counts.iter().map(|c| g_tuple(&[c.0.to_string(), c.1.to_string()])))]);
        let g_exp = g_tuple(&[g_bool(got), n.to_string()]);
        w.emit(json!({"t":"wcase","group":"verdict","cls":b.cls,"nontrivial":!failing.is_empty() && failing.len() < selected.len() && v >= 0,"args":g_args,"exp":g_exp,
            "sample":{"input":input,"run":run_name,"verbosity":v,"counts":counts,"has_fail":got,"files_dispatched":n}}));
    }
    if let Some(f) = jsonf {
        let got = f.has_fail();
        verdict = got;
        let want = selected.iter().any(|s| reference.get(*s).is_some_and(|e| e.json_fail));
        if got != want {
            fails.push((format!("c07-verdict:{}:json", BCFG[b.cfg].0), format!("JsonFormatter::has_fail() is {} after lint_paths, but the failing files of the batch are {:?}", got, failing)));
        }
        let coll: Value = serde_json::from_str(&f.verif_to_json()).unwrap_or(Value::Null);
        let empty = serde_json::Map::new();
        let coll = coll.as_object().unwrap_or(&empty);
        let mut keys: Vec<usize> = coll.keys().map(|k| w.file_id(k)).collect();
        keys.sort();
        let mut sel = selected.to_vec();
        sel.sort();
        if keys != sel {
            fails.push(("c07-json-files".into(), format!("the JSON collection has entries for {:?}, selected were {:?}", coll.keys().collect::<Vec<_>>(), sel.iter().map(|s| name(*s)).collect::<Vec<_>>())));
        }
        for (k, d) in coll {
            if let Some(e) = reference.get(w.file_id(k)) {
                if e.diags != *d {
                    fails.push((format!("c07-json-differs:{}", rel_of(&w.wd, k)), format!("{}: the JSON collection holds {}, linting the file alone gives {}", k, trunc(&d.to_string(), 300), trunc(&e.diags.to_string(), 300))));
                }
            }
        }
    }
    w.dok("lint_paths-run", 1);
    for (key, msg) in &fails {
        w.dfail(b.cls, key, msg, input);
    }
    if stream.is_none() && jsonf.is_none() {
        let order: Vec<usize> = observed.iter().flatten().map(|x| x.0).collect();
        let g_args = g_tuple(&[
            g_list(plan.exps.iter().map(|e| g_list(e.iter().map(|i| i.to_string())))),
            g_list(plan.ident.iter().enumerate().map(|(s, f)| g_tuple(&[s.to_string(), f.to_string()]))),
            g_list(ignored.iter().map(|i| i.to_string())),
            g_list(reference.iter().enumerate().map(|(i, e)| g_tuple(&[i.to_string(), e.rid.to_string()]))),
            g_list(order.iter().map(|i| i.to_string())),
        ]);
        let g_exp = g_list(observed.iter().map(|b| g_list(b.iter().map(|(i, r)| g_tuple(&[i.to_string(), r.to_string()])))));
        let multi = b.args.len() > 1 && (selected.len() > 2 || plan.multi_reach);
        w.emit(json!({"t":"wcase","group":"sched","cls":b.cls,"nontrivial":multi,"args":g_args,"exp":g_exp,
            "sample":{"input":input,"run":run_name,"spellings":plan.spell.iter().map(|s| s.replace(&w.wd, "<wd>")).collect::<Vec<_>>(),"expansions":plan.exps,"file_of_spelling":plan.ident,"observed":observed}}));
    }
    let reordered = observed_ids != *selected;
    dig.sort();
    Some((fnv(&format!("{:?}|{}", dig, if stream.is_some() || jsonf.is_some() { verdict as u8 } else { 2 })), reordered))
}

fn batch_part(w: &mut Worker, bs: &[Batch]) {
    let mut reused: Vec<Linter> = BCFG.iter().map(|c| mk_cfg_linter(c.1, None)).collect();
    let mut reordered = 0usize;
    let mut runs = 0usize;
    let mut multi_reached = 0usize;
    for (bi, b) in bs.iter().enumerate() {
        let input = json!({"batch":b.args,"threads":w.threads,"ignorer":b.ign,"config":b.cfg});
        let src = BCFG[b.cfg].1;
        // expansion lists (hook) and ignored ids
        let probe = mk_cfg_linter(src, None);
        let eff: Vec<String> = if b.args.is_empty() { vec![w.wd.clone()] } else { b.eff_args(&w.wd) };
        let mut spell: Vec<String> = vec![];
        let exps: Vec<Vec<usize>> = eff
            .iter()
            .map(|a| {
                let e = if Path::new(a).is_file() { vec![a.clone()] } else { probe.verif_paths_from_path(PathBuf::from(a)) };
                e.into_iter()
                    .map(|p| match spell.iter().position(|s| *s == p) {
                        Some(i) => i,
                        None => {
                            spell.push(p);
                            spell.len() - 1
                        }
                    })
                    .collect()
            })
            .collect();
        let ident: Vec<usize> = spell.iter().map(|p| w.file_id(p)).collect();
        let ignored: Vec<usize> = TREE.iter().enumerate().filter(|(_, x)| ignored_rel(b.ign, x.0)).map(|(i, _)| i).collect();
        let mut reached: Vec<usize> = vec![];
        let mut multi_reach = false;
        for s in exps.iter().flatten() {
            if reached.contains(&ident[*s]) {
                multi_reach = true;
            } else {
                reached.push(ident[*s]);
            }
        }
        let selected: Vec<usize> = reached.iter().copied().filter(|i| !ignored.contains(i)).collect();
        multi_reached += multi_reach as usize;
        let plan = Plan { spell, exps, ident, ignored, selected, multi_reach };
        let mut digests = vec![];
        // the result alone: the reused linter twice, then a fresh one
        for run in 0..3 {
            let mut fresh;
            let linter: &mut Linter = if run == 2 {
                fresh = mk_cfg_linter(src, None);
                &mut fresh
            } else {
                &mut reused[b.cfg]
            };
            if let Some((d, r)) = run_batch(w, b, &input, linter, ["reused", "reused-again", "fresh"][run], &plan, None, None) {
                digests.push(d);
                reordered += r as usize;
                runs += 1;
            }
        }
        // the same invocation with a formatter attached (what the CLI does): the human-readable one at every
        // verbosity, the JSON one
        let mut vdig = vec![];
        for v in VERBOSITIES {
            let f = Arc::new(OutputStreamFormatter::new(None, true, v));
            let mut l = mk_cfg_linter(src, Some(f.clone()));
            if let Some((d, _)) = run_batch(w, b, &input, &mut l, "stream-formatter", &plan, Some((&f, v)), None) {
                if v >= 0 {
                    vdig.push(d);
                }
            }
        }
        let f = Arc::new(JsonFormatter::default());
        let mut l = mk_cfg_linter(src, Some(f.clone()));
        if let Some((d, _)) = run_batch(w, b, &input, &mut l, "json-formatter", &plan, None, Some(&f)) {
            vdig.push(d);
        }
        w.emit(json!({"t":"digest","batch":bi,"args":b.args,"input":input,"runs":digests,"verdict_runs":vdig}));
    }
    let threads = w.threads.clone();
    w.emit(json!({"t":"wstat","threads":threads,"batches":bs.len(),"plain_runs":runs,"batches_where_a_file_is_reached_more_than_once":multi_reached,"runs_with_completion_order_different_from_expansion_order":reordered}));
}

/// `lint_string` file by file on one linter with a formatter attached, in a given order: after every
/// file the verdict is "some file so far failed" (it never goes back), every file is counted once, and
/// the JSON collection holds for each name what linting that file alone gives.
fn seq_one(w: &mut Worker, order: &[usize], v: i32, cfg: usize, cls: &str) {
    let input = json!({"seq":order,"verbosity":v,"config":cfg,"threads":w.threads});
    let names: Vec<&str> = order.iter().map(|i| TREE[*i].0).collect();
    let f = Arc::new(OutputStreamFormatter::new(None, true, v));
    let j = Arc::new(JsonFormatter::default());
    let ls = mk_cfg_linter(BCFG[cfg].1, Some(f.clone()));
    let lj = mk_cfg_linter(BCFG[cfg].1, Some(j.clone()));
    let refs = w.reference.clone();
    let mut any = false;
    let mut any_json = false;
    let mut counts = vec![];
    let mut bad: Option<(String, String)> = None;
    for (k, i) in order.iter().enumerate() {
        let (p, s) = TREE[*i];
        let r = catch(|| {
            let a = ls.lint_string(SNIPPETS[s], Some(p.to_string()), false);
            let _ = lj.lint_string(SNIPPETS[s], Some(p.to_string()), false);
            (canon(&a.violations), fail_counts(&a.violations))
        });
        let Ok((viols, fc)) = r else {
            bad = Some(("c07-seq-panic".into(), format!("lint_string panicked on {}", p)));
            break;
        };
        let e = &refs[cfg][*i];
        if viols != e.viols && bad.is_none() {
            bad = Some((format!("c07-seq-differs:{}", p), format!("{} as file {} of the sequence {:?}: {:?}, alone on a fresh linter: {:?}", p, k, names, viols, e.viols)));
        }
        any |= e.fails > 0;
        any_json |= e.json_fail;
        counts.push((fc.0, fc.1));
        let want = v >= 0 && any;
        if f.has_fail() != want && bad.is_none() {
            bad = Some((format!("c07-verdict-seq:{}:v{}", BCFG[cfg].0, v), format!("verbosity {}: after linting {:?} one by one has_fail() is {}, failing so far: {:?}", v, &names[..=k], f.has_fail(), order[..=k].iter().filter(|i| refs[cfg][**i].fails > 0).map(|i| TREE[*i].0).collect::<Vec<_>>())));
        }
        if j.has_fail() != any_json && bad.is_none() {
            bad = Some((format!("c07-verdict-seq:{}:json", BCFG[cfg].0), format!("after linting {:?} one by one JsonFormatter::has_fail() is {}", &names[..=k], j.has_fail())));
        }
    }
    let n = f.verif_files_dispatched();
    if bad.is_none() && n != (if v >= 0 { order.len() } else { 0 }) {
        bad = Some((format!("c07-files-dispatched:v{}", v), format!("verbosity {}: the formatter counted {} files after {} lint_string calls", v, n, order.len())));
    }
    if bad.is_none() {
        let coll: Value = serde_json::from_str(&j.verif_to_json()).unwrap_or(Value::Null);
        for i in order {
            let got = coll.get(TREE[*i].0).cloned().unwrap_or(Value::Null);
            if got != refs[cfg][*i].diags {
                bad = Some((format!("c07-json-differs:{}", TREE[*i].0), format!("{}: after the sequence {:?} the JSON collection holds {}, linting the file alone gives {}", TREE[*i].0, names, trunc(&got.to_string(), 300), trunc(&refs[cfg][*i].diags.to_string(), 300))));
                break;
            }
        }
    }
    w.dok("lint_string-sequence", 1);
    if let Some((key, msg)) = bad {
        w.dfail(cls, &key, &msg, &input);
    }
    let g_args = g_tuple(&[g_bool(v < 0), v.unsigned_abs().to_string(), g_list(counts.iter().map(|c| g_tuple(&[c.0.to_string(), c.1.to_string()])))]);
    let g_exp = g_tuple(&[g_bool(f.has_fail()), n.to_string()]);
    w.emit(json!({"t":"wcase","group":"verdict","cls":cls,"nontrivial":any && v >= 0 && counts.iter().any(|c| c.0 == 0),"args":g_args,"exp":g_exp,
        "sample":{"input":input,"counts":counts,"has_fail":f.has_fail(),"files_dispatched":n}}));
}
fn seq_part(w: &mut Worker, args: &Args) {
    let mut rng = Rng::new(args.seed ^ 0x5e9 ^ fnv(&w.threads));
    let n = if args.thorough() { 12 } else { 2 };
    for cfg in 0..BCFG.len() {
        // the smallest batches that mix a failing and a clean file, both orders
        let failing = w.reference[cfg].iter().position(|e| e.fails > 0);
        let clean = w.reference[cfg].iter().position(|e| e.fails == 0);
        for v in VERBOSITIES {
            if let (Some(f), Some(c)) = (failing, clean) {
                seq_one(w, &[f, c], v, cfg, "sequence-pair");
                seq_one(w, &[c, f], v, cfg, "sequence-pair");
                seq_one(w, &[c, f, c, c], v, cfg, "sequence-pair");
            }
            // all files in tree order and reversed, then random orders of random subsets
            let all: Vec<usize> = (0..TREE.len()).collect();
            seq_one(w, &all, v, cfg, "sequence-tree-order");
            seq_one(w, &all.iter().rev().copied().collect::<Vec<_>>(), v, cfg, "sequence-tree-order");
            for _ in 0..n {
                let mut o = all.clone();
                rng.shuffle(&mut o);
                o.truncate(2 + rng.below(TREE.len() - 1));
                seq_one(w, &o, v, cfg, "sequence-random");
            }
        }
    }
}

// ---- configuration histories: what is reported for (content, configuration) must not depend on which
// other configurations were used before in the same process
const HIST_TEXTS: [&str; 10] = [
    "SELECT a FROM t WHERE b = __x__ AND c = {{y}}\n",
    "SELECT a FROM t WHERE b = :x AND c = #y# AND d = <y>\n",
    "select a,b from t where c = ? and d = $y and e = ?\n",
    "SELECT a FROM t WHERE b = %(x)s AND c = &y AND d = %s\n",
    "SELECT a FROM ${x}.tbl WHERE b = :1 AND c = $2 AND d = @y@\n",
    "SeLeCt  a from t\n",
    "SELECT aaaaaaaaaaaa, bbbbbbbbbbbb, cccccccccccc FROM some_long_table_name WHERE xxxxxxxx = 1\n",
    "SELECT\n  a,\n    b\nFROM t\nwhere a in (1,2)\n",
    "SELECT a::int, `b` FROM t\n",
    "SELECT a\r\nFROM t\r\n",
];
fn hist_configs() -> Vec<(String, String)> {
    let mut v: Vec<(String, String)> = vec![];
    for d in ["ansi", "bigquery", "postgres", "snowflake", "sparksql"] {
        v.push((format!("dialect-{}", d), format!("[sqruff]\ndialect = {}\n", d)));
    }
    let mut add = |name: &str, body: &str| v.push((name.to_string(), format!("[sqruff]\ndialect = ansi\n{}", body)));
    add("rules-lt01-cp01", "rules = LT01,CP01\n");
    add("rules-all", "rules = all\n");
    add("exclude-lt01-lt02", "exclude_rules = LT01,LT02\n");
    add("keywords-lower", "rules = CP01\n\n[sqruff:rules:capitalisation.keywords]\ncapitalisation_policy = lower\n");
    add("keywords-upper", "rules = CP01\n\n[sqruff:rules:capitalisation.keywords]\ncapitalisation_policy = upper\n");
    add("keywords-capitalise", "rules = CP01\n\n[sqruff:rules:capitalisation.keywords]\ncapitalisation_policy = capitalise\n");
    add("max-line-30", "max_line_length = 30\n");
    add("max-line-0", "max_line_length = 0\n");
    add("indent-2", "\n[sqruff:indentation]\ntab_space_size = 2\n");
    add("indent-tab", "\n[sqruff:indentation]\nindent_unit = tab\n");
    add("comma-leading", "\n[sqruff:layout:type:comma]\nline_position = leading\n");
    add("templater-raw", "templater = raw\n");
    for style in ["colon", "colon_nospaces", "numeric_colon", "pyformat", "dollar", "flyway_var", "question_mark", "numeric_dollar", "percent", "ampersand", "apache_camel", "no_such_style"] {
        add(&format!("placeholder-style-{}", style), &format!("templater = placeholder\n\n[sqruff:templater:placeholder]\nparam_style = {}\nx = 1\ny = 2\n1 = 11\n2 = 22\n", style));
    }
    add("placeholder-style-colon-other-values", "templater = placeholder\n\n[sqruff:templater:placeholder]\nparam_style = colon\nx = 'one'\ny = two\n");
    for (name, re) in [("underscores", r"__(?P<param_name>\w+)__"), ("braces", r"\{\{(?P<param_name>\w+)\}\}"), ("hashes", r"#(?P<param_name>\w+)#"), ("angles", r"<(?P<param_name>\w+)>"), ("ats-positional", r"@\w+@"), ("invalid", r"(?P<param_name>\w+"), ("colon-like", r":(?P<param_name>\w+)")] {
        add(&format!("placeholder-regex-{}", name), &format!("templater = placeholder\n\n[sqruff:templater:placeholder]\nparam_regex = {}\nx = 1\ny = 2\n1 = 11\n", re));
    }
    add("placeholder-regex-underscores-other-values", "templater = placeholder\n\n[sqruff:templater:placeholder]\nparam_regex = __(?P<param_name>\\w+)__\nx = 77\n");
    add("placeholder-nothing", "templater = placeholder\n");
    add("placeholder-both", "templater = placeholder\n\n[sqruff:templater:placeholder]\nparam_style = colon\nparam_regex = #(?P<param_name>\\w+)#\n");
    v
}
/// Everything observable about linting `sql` (without fix) under a linter, as one string.
fn hist_obs(l: &Linter, sql: &str, name: &str) -> (String, Option<String>) {
    match catch(|| {
        let f = l.lint_string(sql, Some(name.to_string()), false);
        let (templated, v, np) = (f.templated_file.templated().to_string(), canon(&f.violations), f.patches.len());
        (templated, v, np, f.fix_string())
    }) {
        Ok((templated, v, np, fixed)) => {
            let pure = if np != 0 {
                Some(format!("lint-only result carries {} patches", np))
            } else if fixed != normalise(sql) {
                Some(format!("fix_string of a lint-only result differs from the normalised source: {:?}", trunc(&fixed, 200)))
            } else {
                None
            };
            (format!("templated={:?} violations={:?}", templated, v), pure)
        }
        // (error messages quote the file name)
        Err(m) => (format!("PANIC {}", m.replace(name, "<file>")), None),
    }
}
fn hist_part(w: &mut Worker, args: &Args, only_text: Option<&str>) {
    let cfgs = hist_configs();
    let mut order: Vec<usize> = (0..cfgs.len()).collect();
    // every worker process goes through the configurations in its own order
    match w.threads.as_str() {
        "1" => {}
        "4" => order.reverse(),
        t => Rng::new(args.seed ^ 0x4157 ^ fnv(t)).shuffle(&mut order),
    }
    let texts: Vec<&str> = match only_text {
        Some(t) => vec![t],
        None => HIST_TEXTS.to_vec(),
    };
    let dir = PathBuf::from(&w.wd).join("hist");
    let _ = std::fs::remove_dir_all(&dir);
    std::fs::create_dir_all(&dir).unwrap();
    for (ti, t) in texts.iter().enumerate() {
        std::fs::write(dir.join(format!("t{}.sql", ti)), t).unwrap();
    }
    let tname = |ti: usize| format!("hist/t{}.sql", ti);
    // phase 1: a fresh linter per configuration, one after the other (lint_string, then lint_paths on the same texts)
    let mut first: HashMap<(usize, usize), String> = HashMap::new();
    for (pos, &ci) in order.iter().enumerate() {
        let (cname, src) = &cfgs[ci];
        let before: Vec<&str> = order[..pos].iter().map(|i| cfgs[*i].0.as_str()).collect();
        let Ok(l) = catch(|| mk_cfg_linter(src, None)) else {
            w.emit(json!({"t":"hist","cfg":cname,"text":"*","obs":"PANIC creating the linter","before":before}));
            continue;
        };
        for (ti, t) in texts.iter().enumerate() {
            let input = json!({"hist_config":cname,"config_source":src,"sql":t,"threads":w.threads,"configurations_used_before":before});
            let (obs, impure) = hist_obs(&l, t, &tname(ti));
            if let Some(msg) = impure {
                w.dfail("history-lint-string", &format!("c07-lint-changes-text:{}:{:x}", cname, fnv(t) & 0xffffffff), &format!("configuration {}: {}", cname, msg), &input);
            }
            w.dok("history-lint-string", 1);
            w.emit(json!({"t":"hist","cfg":cname,"source":src,"text":t,"obs":obs,"before":before}));
            first.insert((ci, ti), obs);
        }
        // the parallel path under this configuration
        let mut lp = mk_cfg_linter(src, None);
        let r = catch(|| {
            let res = lp.lint_paths(vec![PathBuf::from("hist")], false, &|_| false);
            res.paths.iter().flat_map(|d| d.files.iter().map(|f| (f.path.clone(), format!("templated={:?} violations={:?}", f.templated_file.templated(), canon(&f.violations))))).collect::<Vec<_>>()
        });
        let input = json!({"hist_config":cname,"config_source":src,"threads":w.threads,"configurations_used_before":before});
        match r {
            Ok(files) => {
                for (ti, t) in texts.iter().enumerate() {
                    let got: Vec<&String> = files.iter().filter(|f| rel_of(&w.wd, &f.0) == tname(ti)).map(|f| &f.1).collect();
                    let want = &first[&(ci, ti)];
                    if got.len() != 1 || got[0] != want {
                        w.dfail("history-lint-paths", &format!("c07-differs-from-lint-string:{}:{:x}", cname, fnv(t) & 0xffffffff), &format!("configuration {}: lint_paths on a directory holding {:?} gives {:?}, lint_string gives {}", cname, t, got, trunc(want, 400)), &input);
                    }
                    w.dok("history-lint-paths", 1);
                }
            }
            Err(m) => {
                // a configuration error aborts both entry points alike
                let all_panic = (0..texts.len()).all(|ti| first[&(ci, ti)].starts_with("PANIC"));
                if !all_panic {
                    w.dfail("history-lint-paths", &format!("c07-lint-paths-panic:{}", cname), &format!("configuration {}: lint_paths panicked ({}) where lint_string does not", cname, trunc(&m, 200)), &input);
                }
                w.dok("history-lint-paths", 1);
            }
        }
    }
    // phase 2: all linters created up front, then used interleaved, text by text, in the opposite order
    let linters: Vec<(usize, Option<Linter>)> = order.iter().map(|&ci| (ci, catch(|| mk_cfg_linter(&cfgs[ci].1, None)).ok())).collect();
    for (ti, t) in texts.iter().enumerate() {
        for (ci, l) in linters.iter().rev() {
            let Some(l) = l else { continue };
            // (one file name for all the texts: what is reported depends on the content, not on what was
            // linted under that name before)
            let (obs, _) = hist_obs(l, t, "hist/same.sql");
            let (cname, src) = &cfgs[*ci];
            if Some(&obs) != first.get(&(*ci, ti)) {
                let input = json!({"hist_config":cname,"config_source":src,"sql":t,"threads":w.threads});
                w.dfail("history-interleaved", &format!("c07-history-dependent:{}:{:x}", cname, fnv(t) & 0xffffffff), &format!("configuration {} on {:?}: a linter created before and used after linters of other configurations reports {}, a fresh one reported {}", cname, t, trunc(&obs, 400), trunc(first.get(&(*ci, ti)).map(|s| s.as_str()).unwrap_or("-"), 400)), &input);
            }
            w.dok("history-interleaved", 1);
        }
    }
    let _ = std::fs::remove_dir_all(&dir);
    let threads = w.threads.clone();
    w.emit(json!({"t":"wstat","threads":threads,"history_configurations":cfgs.len(),"history_texts":texts.len(),"history_order":order.iter().map(|i| cfgs[*i].0.clone()).collect::<Vec<_>>()}));
}

/// One configuration alone in a process of its own: the observation nothing else can have influenced.
fn hist_pristine(args: &Args, idx: usize) {
    let cfgs = hist_configs();
    let f = std::fs::File::create(&args.out).unwrap();
    let mut wr = std::io::BufWriter::new(f);
    let only: Option<String> = args.flag("--replay-input").and_then(|p| {
        let v: Value = serde_json::from_str(&std::fs::read_to_string(p).ok()?).ok()?;
        let v = if v.get("input").is_some() { v["input"].clone() } else { v };
        v.get("sql").and_then(|s| s.as_str()).map(|s| s.to_string())
    });
    let texts: Vec<&str> = match &only {
        Some(t) => vec![t.as_str()],
        None => HIST_TEXTS.to_vec(),
    };
    if let Some((cname, src)) = cfgs.get(idx) {
        match catch(|| mk_cfg_linter(src, None)) {
            Ok(l) => {
                for t in texts {
                    let (obs, _) = hist_obs(&l, t, "hist/same.sql");
                    writeln!(wr, "{}", json!({"t":"hist","cfg":cname,"source":src,"text":t,"obs":obs,"before":[]})).unwrap();
                }
            }
            Err(_) => writeln!(wr, "{}", json!({"t":"hist","cfg":cname,"text":"*","obs":"PANIC creating the linter","before":[]})).unwrap(),
        }
    }
    writeln!(wr, "{}", json!({"t":"wdone"})).unwrap();
    wr.flush().unwrap();
}

/// Reference of the batches and sequences: `lint_string` of each file's content with a fresh linter each (and
/// what the JSON formatter collects for that file alone), per configuration of `BCFG`.
fn compute_reference() -> Vec<Vec<RefEntry>> {
    let mut reference: Vec<Vec<RefEntry>> = vec![];
    for (_, src) in BCFG {
        let mut res_ids: HashMap<Vec<Viol>, usize> = HashMap::new();
        let mut col = vec![];
        for (p, s) in TREE.iter() {
            let l = mk_cfg_linter(src, None);
            let (viols, fc) = catch(|| {
                let f = l.lint_string(SNIPPETS[*s], Some(p.to_string()), false);
                (canon(&f.violations), fail_counts(&f.violations))
            })
            .unwrap_or_else(|_| (vec![(0, 0, None, "PANIC".into())], (1, 0, true)));
            let jf = Arc::new(JsonFormatter::default());
            let lj = mk_cfg_linter(src, Some(jf.clone()));
            let _ = catch(|| lj.lint_string(SNIPPETS[*s], Some(p.to_string()), false).violations.len());
            let diags = serde_json::from_str::<Value>(&jf.verif_to_json()).ok().and_then(|v| v.get(*p).cloned()).unwrap_or(Value::Null);
            let n = res_ids.len();
            let rid = *res_ids.entry(viols.clone()).or_insert(n);
            col.push(RefEntry { rid, viols, fails: fc.0, json_fail: fc.2, diags });
        }
        reference.push(col);
    }
    reference
}

fn sched_worker(args: &Args, threads: &str) {
    let wd = cache_dir().join("c07-work").join(format!("{}-t{}", std::process::id(), threads));
    let _ = std::fs::remove_dir_all(&wd);
    std::fs::create_dir_all(&wd).unwrap();
    let wd = std::fs::canonicalize(&wd).unwrap();
    std::env::set_current_dir(&wd).unwrap();
    for (p, s) in TREE {
        let path = wd.join(p);
        std::fs::create_dir_all(path.parent().unwrap()).unwrap();
        std::fs::write(&path, SNIPPETS[s]).unwrap();
    }
    // other ways to the same files: a symbolic link to a file and one to a directory
    std::fs::create_dir_all(wd.join("links")).unwrap();
    std::os::unix::fs::symlink("../d1/a.sql", wd.join("links/alias.sql")).unwrap();
    std::os::unix::fs::symlink("../d4", wd.join("links/dlink")).unwrap();
    let f = std::fs::File::create(&args.out).unwrap();
    let mut w = Worker { wd: wd.to_string_lossy().to_string(), threads: threads.to_string(), reference: Rc::new(vec![]), wr: std::io::BufWriter::new(f) };
    let replay: Option<Value> = args.flag("--replay-input").map(|p| {
        let v: Value = serde_json::from_str(&std::fs::read_to_string(p).unwrap()).unwrap();
        if v.get("input").is_some() { v["input"].clone() } else { v }
    });
    match replay {
        Some(v) if v.get("batch").is_some() => {
            w.reference = Rc::new(compute_reference());
            let b = Batch {
                cls: "replay",
                args: v["batch"].as_array().map(|a| a.iter().map(|x| x.as_str().unwrap_or("").to_string()).collect()).unwrap_or_default(),
                ign: v["ignorer"].as_u64().unwrap_or(0) as usize % N_IGNORERS,
                cfg: v["config"].as_u64().unwrap_or(0) as usize % BCFG.len(),
            };
            batch_part(&mut w, &[b]);
        }
        Some(v) if v.get("seq").is_some() => {
            w.reference = Rc::new(compute_reference());
            let order: Vec<usize> = v["seq"].as_array().map(|a| a.iter().map(|x| x.as_u64().unwrap_or(0) as usize % TREE.len()).collect()).unwrap_or_default();
            seq_one(&mut w, &order, v["verbosity"].as_i64().unwrap_or(0) as i32, v["config"].as_u64().unwrap_or(0) as usize % BCFG.len(), "replay");
        }
        Some(v) if v.get("hist_config").is_some() => hist_part(&mut w, args, v.get("sql").and_then(|s| s.as_str())),
        _ => {
            // the histories first: nothing has been linted in this process yet, so the first configuration ever
            // used differs from one worker process to the next (a process-wide cache filled by the first
            // user shows as a difference between the processes); the reference of the batches comes after
            hist_part(&mut w, args, None);
            w.reference = Rc::new(compute_reference());
            let bs = batches(args);
            seq_part(&mut w, args);
            batch_part(&mut w, &bs);
        }
    }
    w.emit(json!({"t":"wdone"}));
    w.wr.flush().unwrap();
    let _ = std::env::set_current_dir("/");
    let _ = std::fs::remove_dir_all(&wd);
}

pub fn main(args: &Args) {
    silence_panics();
    if let Some(t) = args.flag("--sched-worker") {
        sched_worker(args, &t);
        return;
    }
    if let Some(i) = args.flag("--hist-pristine") {
        hist_pristine(args, i.parse().unwrap_or(0));
        return;
    }
    let mut out = Out::new(&args.out);
    let mut thread_counts: Vec<String> = vec!["1".into(), "4".into(), "16".into()];
    let mut run_purity = true;
    let mut run_sched = true;
    let mut pristine: Vec<usize> = (0..hist_configs().len()).collect();
    let mut items = vec![];
    let replay_path = args.flag("--replay-input");
    if let Some(path) = &replay_path {
        let v: Value = serde_json::from_str(&std::fs::read_to_string(path).unwrap()).unwrap();
        let v = if v.get("input").is_some() { v["input"].clone() } else { v };
        if let Some(c) = v.get("hist_config").and_then(|c| c.as_str()) {
            // a history-dependent result shows as a difference between the processes: all of them
            run_purity = false;
            pristine.retain(|i| hist_configs()[*i].0 == c);
        } else if v.get("batch").is_some() || v.get("seq").is_some() {
            pristine.clear();
            if let Some(t) = v.get("threads").and_then(|t| t.as_str()) {
                if thread_counts.iter().any(|x| x == t) {
                    thread_counts = vec![t.to_string()];
                }
            }
            run_purity = false;
        } else {
            items.push(Item { cls: "replay", dialect: v["dialect"].as_str().unwrap_or("ansi").to_string(), name: "replay".into(), sql: v["sql"].as_str().unwrap_or("").to_string() });
            run_sched = false;
        }
    } else {
        items = purity_items(args);
    }
    // part B first (separate processes), so that they overlap with part A
    let exe = std::env::current_exe().unwrap();
    let tmp = cache_dir().join("c07-work");
    std::fs::create_dir_all(&tmp).unwrap();
    let mut children = vec![];
    if run_sched {
        for t in &thread_counts {
            let wout = tmp.join(format!("{}-worker-{}.jsonl", std::process::id(), t));
            let mut cmd = std::process::Command::new(&exe);
            cmd.arg("c07").arg("--tier").arg(&args.tier).arg("--seed").arg(args.seed.to_string()).arg("--out").arg(&wout).arg("--sched-worker").arg(t);
            if let Some(p) = &replay_path {
                cmd.arg("--replay-input").arg(p);
            }
            cmd.env("RAYON_NUM_THREADS", t);
            children.push((t.clone(), cmd.spawn().expect("spawn worker"), wout));
        }
    }
    // every configuration of the histories alone in a process of its own (a few at a time)
    let pristine_runs = {
        let (exe, tmp, tier, seed, replay_path) = (exe.clone(), tmp.clone(), args.tier.clone(), args.seed, replay_path.clone());
        let todo = if run_sched { pristine } else { vec![] };
        std::thread::spawn(move || {
            let mut texts: Vec<(usize, String, bool)> = vec![];
            for chunk in todo.chunks(6) {
                let mut ch = vec![];
                for i in chunk {
                    let wout = tmp.join(format!("{}-pristine-{}.jsonl", std::process::id(), i));
                    let mut cmd = std::process::Command::new(&exe);
                    cmd.arg("c07").arg("--tier").arg(&tier).arg("--seed").arg(seed.to_string()).arg("--out").arg(&wout).arg("--hist-pristine").arg(i.to_string());
                    if let Some(p) = &replay_path {
                        cmd.arg("--replay-input").arg(p);
                    }
                    cmd.env("RAYON_NUM_THREADS", "1");
                    ch.push((*i, cmd.spawn().expect("spawn pristine"), wout));
                }
                for (i, mut c, wout) in ch {
                    let ok = c.wait().map(|s| s.success()).unwrap_or(false);
                    texts.push((i, std::fs::read_to_string(&wout).unwrap_or_default(), ok));
                    let _ = std::fs::remove_file(&wout);
                }
            }
            texts
        })
    };
    if run_purity {
        par_run(&mut out, &items, Linters::new, purity_one);
    }
    let mut digests: BTreeMap<u64, Vec<(String, Vec<u64>, Vec<u64>, Value)>> = BTreeMap::new();
    // (configuration, text) -> per worker: (threads, observation, configurations used before, source)
    let mut hist: BTreeMap<(String, String), Vec<(String, String, Value, String)>> = BTreeMap::new();
    let mut ok_workers = 0;
    let mut nworkers = children.len();
    for (_, text, ok) in pristine_runs.join().unwrap_or_default() {
        nworkers += 1;
        let mut done = false;
        for l in text.lines() {
            let Ok(v) = serde_json::from_str::<Value>(l) else { continue };
            let s = |k: &str| v[k].as_str().unwrap_or("").to_string();
            match v["t"].as_str().unwrap_or("") {
                "hist" => hist.entry((s("cfg"), s("text"))).or_default().push(("alone".into(), s("obs"), v["before"].clone(), s("source"))),
                "wdone" => done = true,
                _ => {}
            }
        }
        if ok && done {
            ok_workers += 1;
        }
    }
    out.stat(json!({"history_configurations_alone_in_a_process": nworkers - children.len()}));
    for (t, mut ch, wout) in children {
        let status = ch.wait().expect("wait");
        let text = std::fs::read_to_string(&wout).unwrap_or_default();
        let _ = std::fs::remove_file(&wout);
        let mut buf = Buf::default();
        let mut done = false;
        for l in text.lines() {
            let Ok(v) = serde_json::from_str::<Value>(l) else { continue };
            let s = |k: &str| v[k].as_str().unwrap_or("").to_string();
            match v["t"].as_str().unwrap_or("") {
                "wcase" => buf.case(&s("group"), &s("cls"), v["nontrivial"].as_bool().unwrap_or(false), s("args"), s("exp"), v["sample"].clone()),
                "dfail" => buf.direct(&s("cls"), false, &s("key"), &s("msg"), v["input"].clone()),
                "dcount" => {
                    for _ in 0..v["n"].as_u64().unwrap_or(1) {
                        buf.direct(&s("cls"), true, "", "", Value::Null);
                    }
                }
                "digest" => {
                    let u = |k: &str| v[k].as_array().map(|a| a.iter().map(|x| x.as_u64().unwrap_or(0)).collect::<Vec<_>>()).unwrap_or_default();
                    digests.entry(v["batch"].as_u64().unwrap_or(0)).or_default().push((t.clone(), u("runs"), u("verdict_runs"), v["input"].clone()))
                }
                "hist" => hist.entry((s("cfg"), s("text"))).or_default().push((t.clone(), s("obs"), v["before"].clone(), s("source"))),
                "wstat" => out.stat(v.clone()),
                "wdone" => done = true,
                _ => {}
            }
        }
        out.absorb(buf);
        if status.success() && done {
            ok_workers += 1;
        }
    }
    // across runs, linters, thread counts and processes: identical per-file violation lists, identical verdicts
    let mut buf = Buf::default();
    for (b, ds) in &digests {
        let mut input = ds[0].3.clone();
        input["threads"] = json!(ds.iter().map(|d| d.0.clone()).collect::<Vec<_>>().join("/"));
        let all: Vec<u64> = ds.iter().flat_map(|d| d.1.iter().copied()).collect();
        let same = all.windows(2).all(|w| w[0] == w[1]);
        buf.direct("cross-run-digest", same, &format!("c07-nondeterministic-batch:{}", b), &format!("batch {}: results differ across runs / linters / thread counts: {:?}", input, ds.iter().map(|d| (&d.0, &d.1)).collect::<Vec<_>>()), input.clone());
        let all: Vec<u64> = ds.iter().flat_map(|d| d.2.iter().copied()).collect();
        let same = all.windows(2).all(|w| w[0] == w[1]);
        buf.direct("cross-run-verdict", same, &format!("c07-nondeterministic-verdict:{}", b), &format!("batch {}: results or verdicts with a formatter attached differ across verbosities / formatters / thread counts: {:?}", input, ds.iter().map(|d| (&d.0, &d.2)).collect::<Vec<_>>()), input);
    }
    // across processes that went through the configurations in different orders: identical observations
    for ((cfg, text), obs) in &hist {
        let same = obs.windows(2).all(|w| w[0].1 == w[1].1);
        let input = json!({"hist_config":cfg,"config_source":obs[0].3,"sql":text,
            "histories":obs.iter().map(|o| json!({"threads":o.0,"configurations_used_before":o.2,"observed":trunc(&o.1, 600)})).collect::<Vec<_>>()});
        buf.hyp("H_pure_history (what is reported for (content, configuration) is the same whatever configurations the process used before)", "blocking", same, input.clone());
        let msg = if same {
            String::new()
        } else {
            // one entry per distinct observation
            let mut distinct: Vec<(&String, Vec<String>)> = vec![];
            for o in obs {
                let who = if o.0 == "alone" { "alone in a process of its own".to_string() } else { format!("in the process with {} thread(s), after {} other configurations", o.0, o.2.as_array().map(|a| a.len()).unwrap_or(0)) };
                match distinct.iter_mut().find(|d| *d.0 == o.1) {
                    Some(d) => d.1.push(who),
                    None => distinct.push((&o.1, vec![who])),
                }
            }
            format!("configuration {} on {:?}: the result depends on which configurations were used earlier in the process: {}", cfg, text, distinct.iter().map(|d| format!("[{}: {}]", d.1.join(" and "), trunc(d.0, 300))).collect::<Vec<_>>().join(" vs "))
        };
        buf.direct("history-across-processes", same, &format!("c07-history-dependent:{}:{:x}", cfg, fnv(text) & 0xffffffff), &msg, input);
    }
    out.absorb(buf);
    if ok_workers != nworkers {
        eprintln!("c07: {} of {} scheduling workers failed", nworkers - ok_workers, nworkers);
        std::process::exit(3);
    }
    out.finish();
}
