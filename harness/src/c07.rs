//! C07 — linting is pure, deterministic and independent of scheduling.
//!
//! Part A (purity, in process): for corpus files / rule snippets / junk texts: the freshly parsed tree
//! yields no patch (hypothesis `H_parse_patches`), a lint-only result has no patches and its
//! `fix_string` is the newline-normalised source, repeated / fresh-linter runs give the same
//! violations (`H_pure`), and the fix loop observed through the `cfg(sqruff_verif)` hook does what
//! the Gallina `lint_fix_parsed false` predicts (group `lintloop`).
//! Part B (scheduling, worker processes with RAYON_NUM_THREADS = 1, 4, 16): `lint_paths` on batches
//! (subsets, permutations, directories, same content under different names) with reused and fresh
//! `Linter`s, compared with `lint_string` per file; the `Sched` model is replayed on the recorded
//! expansion lists (group `sched`); digests are compared across the worker processes.
use std::cell::RefCell;
use std::collections::{BTreeMap, HashMap};
use std::io::Write as _;
use std::path::{Path, PathBuf};
use std::rc::Rc;

use serde_json::{Value, json};
use sqruff_lib::core::config::FluffConfig;
use sqruff_lib::core::linter::core::{Linter, verif_hook};
use sqruff_lib::core::rules::base::LintPhase;
use sqruff_lib_core::errors::SQLBaseError;
use sqruff_lib_core::parser::segments::base::Tables;

use crate::common::*;

type Viol = (usize, usize, Option<String>, String);
fn canon(vs: &[SQLBaseError]) -> Vec<Viol> {
    vs.iter().map(|v| (v.line_no, v.line_pos, v.rule.as_ref().map(|r| r.code.to_string()), v.description.clone())).collect()
}
fn fnv(s: &str) -> u64 {
    let mut h: u64 = 0xcbf29ce484222325;
    for b in s.as_bytes() {
        h ^= *b as u64;
        h = h.wrapping_mul(0x100000001b3);
    }
    h
}
fn normalise(s: &str) -> String {
    s.replace("\r\n", "\n").replace('\r', "\n")
}
fn mk_linter(dialect: &str) -> Linter {
    Linter::new(FluffConfig::from_source(&format!("[sqruff]\ndialect = {}\n", dialect), None), None, None, false)
}

// ------------------------------------------------------------------ part A: purity
struct Item {
    cls: &'static str,
    dialect: String,
    name: String,
    sql: String,
}
type Linters = HashMap<String, Linter>;

#[derive(Clone, Debug)]
enum Rec {
    Start(usize, bool),
    Batch(u8, usize, String, bool),
    PassEnd(u8, usize, bool),
    End(usize),
}

fn purity_one(ls: &mut Linters, it: &Item, out: &mut Buf) {
    out.count("purity_files", 1);
    let input = json!({"dialect":it.dialect,"sql":it.sql,"name":it.name});
    if !ls.contains_key(&it.dialect) {
        ls.insert(it.dialect.clone(), mk_linter(&it.dialect));
    }
    let linter = &ls[&it.dialect];
    let sql = it.sql.as_str();
    if sql.lines().any(|l| l.starts_with("-- sqlfluff")) {
        out.count("skipped_inline_config", 1);
        return;
    }
    let events: Rc<RefCell<Vec<Rec>>> = Rc::new(RefCell::new(vec![]));
    let r = catch(|| {
        // hypothesis: the parsed tree yields no patch
        let tables = Tables::default();
        let parsed = linter.parse_string(&tables, sql, None).unwrap();
        let parse_patches = parsed.tree.as_ref().map(|t| t.iter_patches(&parsed.templated_file).len());
        // lint-only run, observed through the fix-loop hook
        let ev2 = events.clone();
        verif_hook::FIX_HOOK.with(|h| {
            *h.borrow_mut() = Some(Box::new(move |e| {
                let rec = match e {
                    verif_hook::FixEvent::Start { tree, fix } => Rec::Start(tree.addr(), fix),
                    verif_hook::FixEvent::Batch { phase, pass, rule, accepted, .. } => Rec::Batch(if phase == LintPhase::Main { 0 } else { 1 }, pass, rule.to_string(), accepted),
                    verif_hook::FixEvent::PassEnd { phase, pass, changed } => Rec::PassEnd(if phase == LintPhase::Main { 0 } else { 1 }, pass, changed),
                    verif_hook::FixEvent::End { tree } => Rec::End(tree.addr()),
                };
                ev2.borrow_mut().push(rec);
            }));
        });
        let a = linter.lint_string(sql, None, false);
        verif_hook::FIX_HOOK.with(|h| *h.borrow_mut() = None);
        let a_v = canon(&a.violations);
        let fixable: Vec<String> = a.violations.iter().filter(|v| v.fixable).filter_map(|v| v.rule.as_ref().map(|r| r.code.to_string())).collect();
        let a_patches = a.patches.len();
        let a_fixed = a.fix_string();
        // repeated run on the same linter, and a fresh linter
        let b_v = canon(&linter.lint_string(sql, None, false).violations);
        let fresh = mk_linter(&it.dialect);
        let c_v = canon(&fresh.lint_string(sql, None, false).violations);
        let rules: Vec<(String, u8, bool)> = linter.rules().iter().map(|r| (r.code().to_string(), if r.lint_phase() == LintPhase::Main { 0 } else { 1 }, r.is_fix_compatible())).collect();
        (parse_patches, a_v, fixable, a_patches, a_fixed, b_v, c_v, rules)
    });
    verif_hook::FIX_HOOK.with(|h| *h.borrow_mut() = None);
    let (parse_patches, a_v, fixable, a_patches, a_fixed, b_v, c_v, rules) = match r {
        Ok(x) => x,
        Err(_) => {
            out.count("purity_panics_skipped (C03)", 1);
            return;
        }
    };
    let key = format!("{:x}", fnv(&format!("{}|{}", it.dialect, sql)) & 0xffffffffff);
    if let Some(n) = parse_patches {
        out.hyp("H_parse_patches (iter_patches of the freshly parsed tree is empty)", "blocking", n == 0, json!({"input":input,"patches":n}));
    }
    out.hyp("H_pure (same linter twice and a fresh linter give the same violations)", "blocking", a_v == b_v && a_v == c_v, json!({"input":input,"first":a_v,"second":b_v,"fresh":c_v}));
    out.direct(it.cls, a_patches == 0, &format!("c07-lint-patches:{}", key), &format!("lint-only result carries {} patches", a_patches), input.clone());
    let want = normalise(sql);
    out.direct(it.cls, a_fixed == want, &format!("c07-lint-changes-text:{}", key), &format!("fix_string of a lint-only result differs from the normalised source: {:?} vs {:?}", trunc(&a_fixed, 200), trunc(&want, 200)), input.clone());
    if sql.contains('\r') {
        out.count("crlf_inputs", 1);
    }
    if !a_v.is_empty() {
        out.count("purity_files_with_violations", 1);
    }
    // the loop trace
    let evs = events.borrow().clone();
    if evs.is_empty() {
        out.count("no_tree (unparsable: loop not entered)", 1);
        return;
    }
    let mut start = None;
    let mut end = None;
    let mut fixflag = None;
    let mut trace: Vec<String> = vec![];
    let rule_id = |code: &str| rules.iter().position(|r| r.0 == code).unwrap_or(9999);
    for e in &evs {
        match e {
            Rec::Start(a, f) => {
                start = Some(*a);
                fixflag = Some(*f);
            }
            Rec::End(a) => end = Some(*a),
            Rec::Batch(ph, pass, rule, acc) => trace.push(g_tuple(&["0".into(), ph.to_string(), pass.to_string(), rule_id(rule).to_string(), g_bool(*acc)])),
            Rec::PassEnd(ph, pass, ch) => trace.push(g_tuple(&["1".into(), ph.to_string(), pass.to_string(), "0".into(), g_bool(*ch)])),
        }
    }
    let mut fx: Vec<usize> = fixable.iter().map(|c| rule_id(c)).collect();
    fx.sort();
    fx.dedup();
    let args = g_tuple(&[
        g_bool(fixflag.unwrap_or(true)),
        g_list(rules.iter().enumerate().map(|(i, r)| g_tuple(&[i.to_string(), r.1.to_string(), g_bool(r.2)]))),
        g_list(fx.iter().map(|i| i.to_string())),
    ]);
    let exp = g_tuple(&[g_bool(start.is_some() && start == end), g_list(trace.clone())]);
    out.case("lintloop", it.cls, !fx.is_empty(), args, exp, json!({"input":input,"events":format!("{:?}", evs),"fixable_rules":fixable}));
}

fn purity_items(args: &Args) -> Vec<Item> {
    let mut items = vec![];
    let mut rng = Rng::new(args.seed ^ 0x707);
    let junk: &[(&str, &str)] = &[
        ("empty", ""),
        ("newline", "\n"),
        ("no-trailing-newline", "select 1"),
        ("crlf", "SELECT a\r\nFROM t\r\n"),
        ("cr", "SELECT a\rFROM t\r"),
        ("mixed", "SeLeCt  a ,b\r\nfrom t\n\n\n"),
        ("unparsable", "SELECT FROM WHERE ((("),
        ("junk", "@@ $$ \\ 'unterminated"),
        ("comment", "-- just a comment\n"),
        ("utf8", "SELECT 'h\u{e9}llo \u{1F600}'  AS x\n"),
        ("tabs", "SELECT\ta,\tb\nFROM\tt\n"),
        ("noqa", "SeLeCt  1 from tBl ; -- noqa: disable=all\nSeLeCt 2\n"),
    ];
    for (name, sql) in junk {
        for d in ["ansi", "bigquery", "postgres"] {
            items.push(Item { cls: "junk", dialect: d.to_string(), name: name.to_string(), sql: sql.to_string() });
        }
    }
    let snippets = rule_snippets();
    let n_snip = if args.thorough() { snippets.len() } else { 250.min(snippets.len()) };
    let mut idx: Vec<usize> = (0..snippets.len()).collect();
    rng.shuffle(&mut idx);
    for &i in idx.iter().take(n_snip) {
        items.push(Item { cls: "rule-snippet", dialect: "ansi".into(), name: snippets[i].0.clone(), sql: snippets[i].1.clone() });
    }
    let files = corpus();
    let n_corpus = if args.thorough() { files.len() } else { 160.min(files.len()) };
    let mut idx: Vec<usize> = (0..files.len()).collect();
    rng.shuffle(&mut idx);
    for &i in idx.iter().take(n_corpus) {
        let f = &files[i];
        if f.text.len() > 20000 {
            continue;
        }
        items.push(Item { cls: "corpus", dialect: f.dialect.clone(), name: f.name.clone(), sql: f.text.clone() });
        if i % 4 == 0 {
            items.push(Item { cls: "corpus-crlf", dialect: f.dialect.clone(), name: f.name.clone(), sql: f.text.replace('\n', "\r\n") });
        }
    }
    items
}

// ------------------------------------------------------------------ part B: scheduling
const SNIPPETS: [&str; 10] = [
    "SELECT a FROM t\n",
    "SeLeCt  a from t\n",
    "select a,b from t\n\n\n",
    "SELECT a FROM t UNION SELECT b FROM u\n",
    "SELECT col_a a FROM foo\n",
    "SELECT a\r\nFROM t\r\n",
    "",
    "SELECT a FROM t WHERE ((\n",
    "SELECT\n    a,\n    b\nFROM t\nWHERE a in (1,2)\n",
    "select 1",
];
/// (relative path, snippet index): same content under different names, an upper-case extension, files
/// the ignorer skips, a non-sql file.
const TREE: [(&str, usize); 20] = [
    ("top.sql", 1),
    ("zz_last.sql", 3),
    ("d1/a.sql", 1),
    ("d1/b.sql", 2),
    ("d1/c.SQL", 4),
    ("d1/notes.txt", 0),
    ("d1/m.sql", 8),
    ("d2/a.sql", 1),
    ("d2/e.sql", 5),
    ("d2/empty.sql", 6),
    ("d2/sub/f.sql", 7),
    ("d2/sub/g.sql", 2),
    ("d2/sub/deep/h.sql", 9),
    ("d3/skip_i.sql", 1),
    ("d3/j.sql", 0),
    ("d3/k.sql", 3),
    ("d3/skip_dir/l.sql", 4),
    ("d4/n.sql", 8),
    ("d4/o.sql", 2),
    ("d4/p.sql", 1),
];

fn cache_dir() -> PathBuf {
    if let Ok(t) = std::env::var("CARGO_TARGET_DIR") {
        if let Some(p) = PathBuf::from(t).parent() {
            return p.to_path_buf();
        }
    }
    let exe = std::env::current_exe().unwrap();
    exe.ancestors().nth(3).map(|p| p.to_path_buf()).unwrap_or_else(std::env::temp_dir)
}
fn ignorer(p: &Path) -> bool {
    p.to_string_lossy().contains("skip")
}
fn is_sql(p: &str) -> bool {
    p.to_lowercase().ends_with(".sql")
}

#[derive(Clone)]
struct Batch {
    cls: &'static str,
    args: Vec<String>,
}
/// Distinct, non-overlapping path arguments: each top-level directory is given either as a whole,
/// or through some of its files / sub-directories.
fn gen_batch(rng: &mut Rng) -> Batch {
    let files: Vec<&str> = TREE.iter().map(|x| x.0).collect();
    let kind = rng.below(5);
    let mut args: Vec<String> = vec![];
    let cls;
    match kind {
        0 => {
            cls = "all-files-permuted";
            args = files.iter().filter(|f| is_sql(f)).map(|s| s.to_string()).collect();
        }
        1 => {
            cls = "dirs-and-top-files";
            args = vec!["d1".into(), "d2".into(), "d3".into(), "d4".into(), "top.sql".into(), "zz_last.sql".into()];
        }
        2 => {
            cls = "file-subset";
            for f in files.iter().filter(|f| is_sql(f)) {
                if rng.chance(1, 2) {
                    args.push(f.to_string());
                }
            }
            if args.is_empty() {
                args.push("top.sql".into());
            }
        }
        _ => {
            cls = "mixed";
            for d in ["d1", "d2", "d3", "d4"] {
                match rng.below(4) {
                    0 => args.push(d.to_string()),
                    1 => {}
                    2 => {
                        if d == "d2" {
                            // the sub-directory and some of d2's own files
                            args.push("d2/sub".into());
                            for f in ["d2/a.sql", "d2/e.sql", "d2/empty.sql"] {
                                if rng.chance(1, 2) {
                                    args.push(f.to_string());
                                }
                            }
                        } else {
                            args.push(d.to_string());
                        }
                    }
                    _ => {
                        for f in files.iter().filter(|f| f.starts_with(&format!("{}/", d)) && is_sql(f)) {
                            if rng.chance(1, 2) {
                                args.push(f.to_string());
                            }
                        }
                    }
                }
            }
            for f in ["top.sql", "zz_last.sql"] {
                if rng.chance(1, 2) {
                    args.push(f.to_string());
                }
            }
            if args.is_empty() {
                args.push("d4".into());
            }
        }
    }
    rng.shuffle(&mut args);
    Batch { cls, args }
}
fn batches(args: &Args) -> Vec<Batch> {
    let mut rng = Rng::new(args.seed ^ 0x5c4ed);
    let mut v = vec![
        Batch { cls: "regression", args: vec!["d1".into(), "d2".into()] },
        Batch { cls: "regression", args: vec!["d2/sub".into(), "d2/a.sql".into(), "d1/a.sql".into(), "d3".into()] },
        Batch { cls: "regression", args: vec!["zz_last.sql".into(), "top.sql".into()] },
    ];
    for _ in 0..(if args.thorough() { 400 } else { 60 }) {
        v.push(gen_batch(&mut rng));
    }
    v
}

fn sched_worker(args: &Args, threads: &str) {
    let wd = cache_dir().join("c07-work").join(format!("{}-t{}", std::process::id(), threads));
    let _ = std::fs::remove_dir_all(&wd);
    std::fs::create_dir_all(&wd).unwrap();
    std::env::set_current_dir(&wd).unwrap();
    for (p, s) in TREE {
        let path = wd.join(p);
        std::fs::create_dir_all(path.parent().unwrap()).unwrap();
        std::fs::write(&path, SNIPPETS[s]).unwrap();
    }
    let file_id = |p: &str| TREE.iter().position(|x| x.0 == p.trim_start_matches("./")).unwrap_or(9999);
    // reference: lint_string of each file's content with a fresh linter each
    let mut res_ids: HashMap<Vec<Viol>, usize> = HashMap::new();
    let mut reference: BTreeMap<usize, (usize, Vec<Viol>)> = BTreeMap::new();
    for (i, (p, s)) in TREE.iter().enumerate() {
        let l = mk_linter("ansi");
        let v = catch(|| canon(&l.lint_string(SNIPPETS[*s], Some(p.to_string()), false).violations)).unwrap_or_else(|_| vec![(0, 0, None, "PANIC".into())]);
        let n = res_ids.len();
        let id = *res_ids.entry(v.clone()).or_insert(n);
        reference.insert(i, (id, v));
    }
    let bs: Vec<Batch> = if let Some(one) = args.flag("--one-batch") {
        vec![Batch { cls: "replay", args: one.split(',').map(|s| s.to_string()).collect() }]
    } else {
        batches(args)
    };
    let f = std::fs::File::create(&args.out).unwrap();
    let mut wr = std::io::BufWriter::new(f);
    let mut reused = mk_linter("ansi");
    let mut reordered = 0usize;
    for (bi, b) in bs.iter().enumerate() {
        let input = json!({"batch":b.args,"threads":threads});
        // expansion lists (hook) and ignored ids
        let probe = mk_linter("ansi");
        let exps: Vec<Vec<usize>> = b.args.iter().map(|a| {
            if Path::new(a).is_file() { vec![file_id(a)] } else { probe.verif_paths_from_path(PathBuf::from(a)).iter().map(|p| file_id(p)).collect() }
        }).collect();
        let ignored: Vec<usize> = TREE.iter().enumerate().filter(|(_, x)| ignorer(Path::new(x.0))).map(|(i, _)| i).collect();
        let selected: Vec<usize> = exps.iter().flatten().copied().filter(|i| !ignored.contains(i)).collect();
        let mut digests = vec![];
        for run in 0..3 {
            // run 0, 1: the reused linter; run 2: a fresh linter
            let mut fresh;
            let linter: &mut Linter = if run == 2 {
                fresh = mk_linter("ansi");
                &mut fresh
            } else {
                &mut reused
            };
            let paths: Vec<PathBuf> = b.args.iter().map(PathBuf::from).collect();
            let r = catch(|| {
                let res = linter.lint_paths(paths, false, &ignorer);
                res.paths.iter().map(|d| (d.path.clone(), d.files.iter().map(|f| {
                    let v = canon(&f.violations);
                    let np = f.patches.len();
                    (f.path.clone(), v, np)
                }).collect::<Vec<_>>())).collect::<Vec<_>>()
            });
            let dirs = match r {
                Ok(d) => d,
                Err(m) => {
                    writeln!(wr, "{}", json!({"t":"dfail","cls":b.cls,"key":"c07-lint-paths-panic","msg":format!("lint_paths panicked: {}", m),"input":input})).unwrap();
                    continue;
                }
            };
            let mut fails: Vec<(String, String)> = vec![];
            let mut seen: HashMap<usize, usize> = HashMap::new();
            let mut observed: Vec<Vec<(usize, usize)>> = vec![];
            let mut dig: Vec<(String, u64)> = vec![];
            for (di, (dpath, files)) in dirs.iter().enumerate() {
                if di >= b.args.len() || *dpath != b.args[di] {
                    fails.push(("c07-dir-order".into(), format!("directory {} of the result is {:?}, argument is {:?}", di, dpath, b.args.get(di))));
                }
                let mut bucket = vec![];
                for (p, v, np) in files {
                    let id = file_id(p);
                    *seen.entry(id).or_default() += 1;
                    let rid = match reference.get(&id) {
                        Some((rid, rv)) if rv == v => *rid,
                        Some((_, rv)) => {
                            fails.push((format!("c07-differs-from-lint-string:{}", p), format!("{}: lint_paths reports {:?}, lint_string reports {:?}", p, v, rv)));
                            8888
                        }
                        None => 9999,
                    };
                    if *np != 0 {
                        fails.push((format!("c07-lint-patches:{}", p), format!("{}: lint-only result carries {} patches", p, np)));
                    }
                    if di < exps.len() && !exps[di].contains(&id) {
                        fails.push((format!("c07-wrong-dir:{}", p), format!("{} stored under argument {:?}", p, dpath)));
                    }
                    bucket.push((id, rid));
                    dig.push((p.clone(), fnv(&format!("{:?}", v))));
                }
                observed.push(bucket);
            }
            for s in &selected {
                let n = seen.get(s).copied().unwrap_or(0);
                if n != 1 {
                    fails.push((format!("c07-not-exactly-once:{}", TREE.get(*s).map(|x| x.0).unwrap_or("?")), format!("selected file {} appears {} times in the result", TREE.get(*s).map(|x| x.0).unwrap_or("?"), n)));
                }
            }
            for (id, _) in &seen {
                if !selected.contains(id) {
                    fails.push((format!("c07-unselected:{}", id), format!("file {:?} was not selected but appears in the result", TREE.get(*id).map(|x| x.0))));
                }
            }
            writeln!(wr, "{}", json!({"t":"dcount","n":1})).unwrap();
            for (key, msg) in &fails {
                writeln!(wr, "{}", json!({"t":"dfail","cls":b.cls,"key":key,"msg":msg,"input":input})).unwrap();
            }
            let order: Vec<usize> = observed.iter().flatten().map(|x| x.0).collect();
            if order != selected {
                reordered += 1;
            }
            let g_args = g_tuple(&[
                g_list(exps.iter().map(|e| g_list(e.iter().map(|i| i.to_string())))),
                g_list(ignored.iter().map(|i| i.to_string())),
                g_list(reference.iter().map(|(i, (rid, _))| g_tuple(&[i.to_string(), rid.to_string()]))),
                g_list(order.iter().map(|i| i.to_string())),
            ]);
            let g_exp = g_list(observed.iter().map(|b| g_list(b.iter().map(|(i, r)| g_tuple(&[i.to_string(), r.to_string()])))));
            let multi = b.args.len() > 1 && selected.len() > 2;
            let run_name = ["reused", "reused-again", "fresh"][run];
            writeln!(wr, "{}", json!({"t":"wcase","group":"sched","cls":b.cls,"nontrivial":multi,"args":g_args,"exp":g_exp,
                "sample":{"input":input,"run":run_name,"expansions":exps,"observed":observed}})).unwrap();
            dig.sort();
            digests.push(fnv(&format!("{:?}", dig)));
        }
        writeln!(wr, "{}", json!({"t":"digest","batch":bi,"args":b.args,"runs":digests})).unwrap();
    }
    writeln!(wr, "{}", json!({"t":"wstat","threads":threads,"batches":bs.len(),"runs_with_completion_order_different_from_expansion_order":reordered})).unwrap();
    writeln!(wr, "{}", json!({"t":"wdone"})).unwrap();
    wr.flush().unwrap();
    let _ = std::env::set_current_dir("/");
    let _ = std::fs::remove_dir_all(&wd);
}

pub fn main(args: &Args) {
    silence_panics();
    if let Some(t) = args.flag("--sched-worker") {
        sched_worker(args, &t);
        return;
    }
    let mut out = Out::new(&args.out);
    let mut thread_counts: Vec<String> = vec!["1".into(), "4".into(), "16".into()];
    let mut one_batch: Option<String> = None;
    let mut run_purity = true;
    let mut run_sched = true;
    let mut items = vec![];
    if let Some(path) = args.flag("--replay-input") {
        let v: Value = serde_json::from_str(&std::fs::read_to_string(path).unwrap()).unwrap();
        let v = if v.get("input").is_some() { v["input"].clone() } else { v };
        if let Some(b) = v.get("batch").and_then(|b| b.as_array()) {
            one_batch = Some(b.iter().map(|x| x.as_str().unwrap_or("").to_string()).collect::<Vec<_>>().join(","));
            if let Some(t) = v.get("threads").and_then(|t| t.as_str()) {
                thread_counts = vec![t.to_string()];
            }
            run_purity = false;
        } else {
            items.push(Item { cls: "replay", dialect: v["dialect"].as_str().unwrap_or("ansi").to_string(), name: "replay".into(), sql: v["sql"].as_str().unwrap_or("").to_string() });
            run_sched = false;
        }
    } else {
        items = purity_items(args);
    }
    // part B first (separate processes), so that they overlap with part A
    let exe = std::env::current_exe().unwrap();
    let tmp = cache_dir().join("c07-work");
    std::fs::create_dir_all(&tmp).unwrap();
    let mut children = vec![];
    if run_sched {
        for t in &thread_counts {
            let wout = tmp.join(format!("{}-worker-{}.jsonl", std::process::id(), t));
            let mut cmd = std::process::Command::new(&exe);
            cmd.arg("c07").arg("--tier").arg(&args.tier).arg("--seed").arg(args.seed.to_string()).arg("--out").arg(&wout).arg("--sched-worker").arg(t);
            if let Some(b) = &one_batch {
                cmd.arg("--one-batch").arg(b);
            }
            cmd.env("RAYON_NUM_THREADS", t);
            children.push((t.clone(), cmd.spawn().expect("spawn worker"), wout));
        }
    }
    if run_purity {
        par_run(&mut out, &items, Linters::new, purity_one);
    }
    let mut digests: BTreeMap<u64, Vec<(String, Vec<u64>, Value)>> = BTreeMap::new();
    let mut ok_workers = 0;
    let nworkers = children.len();
    for (t, mut ch, wout) in children {
        let status = ch.wait().expect("wait");
        let text = std::fs::read_to_string(&wout).unwrap_or_default();
        let _ = std::fs::remove_file(&wout);
        let mut buf = Buf::default();
        let mut done = false;
        let mut extra_direct = 0usize;
        for l in text.lines() {
            let Ok(v) = serde_json::from_str::<Value>(l) else { continue };
            match v["t"].as_str().unwrap_or("") {
                "wcase" => buf.case(v["group"].as_str().unwrap_or(""), v["cls"].as_str().unwrap_or(""), v["nontrivial"].as_bool().unwrap_or(false), v["args"].as_str().unwrap_or("").to_string(), v["exp"].as_str().unwrap_or("").to_string(), v["sample"].clone()),
                "dfail" => buf.direct(v["cls"].as_str().unwrap_or(""), false, v["key"].as_str().unwrap_or(""), v["msg"].as_str().unwrap_or(""), v["input"].clone()),
                "dcount" => extra_direct += 1,
                "digest" => digests.entry(v["batch"].as_u64().unwrap_or(0)).or_default().push((t.clone(), v["runs"].as_array().unwrap().iter().map(|x| x.as_u64().unwrap_or(0)).collect(), v["args"].clone())),
                "wstat" => out.stat(v.clone()),
                "wdone" => done = true,
                _ => {}
            }
        }
        for _ in 0..extra_direct {
            buf.direct("lint_paths-run", true, "", "", Value::Null);
        }
        out.absorb(buf);
        if status.success() && done {
            ok_workers += 1;
        }
    }
    // across runs, linters, thread counts and processes: identical per-file violation lists
    let mut buf = Buf::default();
    for (b, ds) in &digests {
        let all: Vec<u64> = ds.iter().flat_map(|d| d.1.iter().copied()).collect();
        let same = all.windows(2).all(|w| w[0] == w[1]);
        let input = json!({"batch":ds[0].2,"threads":ds.iter().map(|d| d.0.clone()).collect::<Vec<_>>().join("/")});
        buf.direct("cross-run-digest", same, &format!("c07-nondeterministic-batch:{}", b), &format!("batch {:?}: results differ across runs / linters / thread counts: {:?}", ds[0].2, ds), input);
    }
    out.absorb(buf);
    if ok_workers != nworkers {
        eprintln!("c07: {} of {} scheduling workers failed", nworkers - ok_workers, nworkers);
        std::process::exit(3);
    }
    out.finish();
}
