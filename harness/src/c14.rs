//! C14 — every dialect grammar is closed (translator).
//!
//! For each of the 13 dialects built by `kind_to_dialect` the grammar graph is walked through the
//! `cfg(sqruff_verif)` read accessors and written as Gallina terms into `<gen-dir>/Grammar_<d>.v`
//! (node table, library, bracket sets, keyword sets, string table, cache keys, certificates).
//! The same walk observes the property directly on the implementation (real `Dialect::ref` under
//! `catch_unwind` for every reference reachable from `FileSegment`) and records, per node, what
//! the real `Matchable::simple` / `is_optional` answer, so that Coq can compare the Gallina
//! `simple`/`deref` evaluated on the dumped graph with the behaviour of the code.
//!
//! Nothing that may fail to return is called on the walking thread: every real `simple()` and
//! every real parse runs on a helper thread under a watchdog (`watched` / `watched_batch`), because
//! a left-corner self reference makes `Ref::simple` re-enter its own `OnceLock::get_or_init` and
//! block for ever (0 % CPU).  The structure dump itself only uses the field accessors.
use std::collections::{BTreeMap, BTreeSet, HashMap, VecDeque};
use std::fmt::Write as _;
use std::sync::atomic::{AtomicUsize, Ordering};
use std::sync::{Arc, Mutex, mpsc};
use std::time::{Duration, Instant};

use ahash::AHashMap;
use serde_json::{Value, json};
use sqruff_lib_core::dialects::base::Dialect;
use sqruff_lib_core::dialects::init::DialectKind;
use sqruff_lib_core::parser::context::ParseContext;
use sqruff_lib_core::parser::lexer::StringOrTemplate;
use sqruff_lib_core::parser::matchable::{Matchable, MatchableTrait, MatchableTraitImpl};
use sqruff_lib_core::parser::parser::Parser;
use sqruff_lib_core::parser::segments::base::Tables;
use sqruff_lib_core::parser::types::ParseMode;
use sqruff_lib_dialects::kind_to_dialect;

use crate::common::*;

pub fn dialect_of(name: &str) -> Dialect {
    let kind: DialectKind = name.parse().expect("dialect kind");
    kind_to_dialect(&kind).expect("dialect enabled")
}


// ------------------------------------------------------------------------------------ watchdog
/// Why a watched call was given up.
#[derive(Clone, Debug)]
pub struct Hang {
    /// "deadlock": the helper thread slept (state S) without consuming any CPU for the quiet
    /// period; "timeout": it was still running at the absolute limit; "died": it vanished.
    pub verdict: &'static str,
    pub waited_ms: u64,
    pub thread_state: String,
    pub cpu_ticks: u64,
}
impl Hang {
    pub fn json(&self) -> Value {
        json!({"verdict": self.verdict, "waited_ms": self.waited_ms, "helper_thread_state": self.thread_state, "helper_thread_cpu_ticks": self.cpu_ticks})
    }
    pub fn text(&self) -> String {
        match self.verdict {
            "deadlock" => format!("does not return: the thread computing it blocks for ever (state {}, {} CPU ticks, no progress for {} ms)", self.thread_state, self.cpu_ticks, self.waited_ms),
            "timeout" => format!("did not return within {} ms (thread state {}, {} CPU ticks)", self.waited_ms, self.thread_state, self.cpu_ticks),
            _ => "the helper thread died".to_string(),
        }
    }
}
pub enum Watched<T> {
    Done(T),
    Hung(Hang),
}
fn env_ms(name: &str, default: u64) -> Duration {
    Duration::from_millis(std::env::var(name).ok().and_then(|s| s.parse().ok()).unwrap_or(default))
}
/// a sleeping helper that used no CPU for this long is blocked for good (nothing it runs sleeps:
/// no I/O, no lock other than the `OnceLock`s of the grammar)
pub fn quiet_period() -> Duration {
    env_ms("SQV_HANG_QUIET_MS", 1500)
}
/// absolute limit for one first-token-hint computation (normally microseconds)
pub fn simple_limit() -> Duration {
    env_ms("SQV_SIMPLE_LIMIT_MS", 30_000)
}
/// absolute limit for one parse of a statement / fixture (normally milliseconds)
pub fn parse_limit() -> Duration {
    env_ms("SQV_PARSE_LIMIT_MS", 120_000)
}
const HELPER_STACK: usize = 64 << 20;

fn own_task_dir() -> Option<String> {
    std::fs::read_link("/proc/thread-self").ok().map(|p| format!("/proc/{}", p.display()))
}
/// (state, utime + stime) of a thread of this process
fn task_stat(dir: &str) -> Option<(char, u64)> {
    let s = std::fs::read_to_string(format!("{}/stat", dir)).ok()?;
    let rest = &s[s.rfind(')')? + 1..];
    let f: Vec<&str> = rest.split_whitespace().collect();
    let state = f.first()?.chars().next()?;
    let ut: u64 = f.get(11)?.parse().ok()?;
    let st: u64 = f.get(12)?.parse().ok()?;
    Some((state, ut + st))
}
/// Progress monitor of one helper thread.
struct Monitor {
    task: Option<String>,
    start: Instant,
    last_ticks: u64,
    last_progress: Instant,
    state: char,
}
impl Monitor {
    fn new() -> Monitor {
        Monitor { task: None, start: Instant::now(), last_ticks: 0, last_progress: Instant::now(), state: '?' }
    }
    /// call when the helper is known to have made progress (a new item was started)
    fn progress(&mut self) {
        self.start = Instant::now();
        self.last_progress = Instant::now();
    }
    fn check(&mut self, limit: Duration) -> Option<Hang> {
        let now = Instant::now();
        if let Some(dir) = &self.task {
            match task_stat(dir) {
                Some((st, ticks)) => {
                    if ticks != self.last_ticks || st != 'S' {
                        self.last_ticks = ticks;
                        self.last_progress = now;
                    }
                    self.state = st;
                }
                // the thread is gone: either it has just delivered its result (the caller reads it from the
                // channel next) or it died, which the caller sees as a disconnected channel
                None => {
                    self.state = '?';
                    self.last_progress = now;
                }
            }
        } else {
            self.last_progress = now;
        }
        if now.duration_since(self.last_progress) >= quiet_period() {
            return Some(self.hang("deadlock", now));
        }
        if now.duration_since(self.start) >= limit {
            return Some(self.hang("timeout", now));
        }
        None
    }
    fn hang(&self, verdict: &'static str, now: Instant) -> Hang {
        let waited = if verdict == "deadlock" { now.duration_since(self.last_progress) } else { now.duration_since(self.start) };
        Hang { verdict, waited_ms: waited.as_millis() as u64, thread_state: self.state.to_string(), cpu_ticks: self.last_ticks }
    }
}
enum Msg<T> {
    Task(Option<String>),
    Done(T),
}
/// Run `f` on a fresh helper thread; give up (and leak the thread) when it is blocked or over the limit.
pub fn watched<T: Send + 'static>(limit: Duration, f: impl FnOnce() -> T + Send + 'static) -> Watched<T> {
    let (tx, rx) = mpsc::channel::<Msg<T>>();
    let spawned = std::thread::Builder::new().stack_size(HELPER_STACK).spawn(move || {
        let _ = tx.send(Msg::Task(own_task_dir()));
        let r = f();
        let _ = tx.send(Msg::Done(r));
    });
    if spawned.is_err() {
        return Watched::Hung(Hang { verdict: "died", waited_ms: 0, thread_state: "?".into(), cpu_ticks: 0 });
    }
    let mut mon = Monitor::new();
    loop {
        match rx.recv_timeout(Duration::from_millis(20)) {
            Ok(Msg::Task(t)) => mon.task = t,
            Ok(Msg::Done(r)) => return Watched::Done(r),
            Err(mpsc::RecvTimeoutError::Timeout) => {
                if let Some(h) = mon.check(limit) {
                    return Watched::Hung(h);
                }
            }
            Err(mpsc::RecvTimeoutError::Disconnected) => return Watched::Hung(mon.hang("died", Instant::now())),
        }
    }
}
/// `f(0) .. f(n-1)` on one helper thread; an item that blocks is recorded and the rest continues
/// on a new helper.  After `max_hangs` hangs the remaining items are left unevaluated (`None`).
pub fn watched_batch<T: Send + 'static>(n: usize, limit: Duration, max_hangs: usize, f: Arc<dyn Fn(usize) -> T + Send + Sync>) -> (Vec<Option<T>>, Vec<(usize, Hang)>) {
    struct Shared<T> {
        results: Mutex<(usize, Vec<Option<T>>)>, // (generation allowed to write, results)
        cur: AtomicUsize,
    }
    let sh = Arc::new(Shared { results: Mutex::new((0, (0..n).map(|_| None).collect())), cur: AtomicUsize::new(0) });
    let mut hangs = vec![];
    let mut start = 0usize;
    let mut generation = 0usize;
    while start < n && hangs.len() < max_hangs {
        generation += 1;
        sh.results.lock().unwrap().0 = generation;
        sh.cur.store(start, Ordering::SeqCst);
        let (tx, rx) = mpsc::channel::<Msg<()>>();
        let (sh2, f2, my_gen) = (sh.clone(), f.clone(), generation);
        let spawned = std::thread::Builder::new().stack_size(HELPER_STACK).spawn(move || {
            let _ = tx.send(Msg::Task(own_task_dir()));
            for i in start..n {
                sh2.cur.store(i, Ordering::SeqCst);
                let r = f2(i);
                let mut g = sh2.results.lock().unwrap();
                if g.0 != my_gen {
                    return;
                }
                g.1[i] = Some(r);
            }
            let _ = tx.send(Msg::Done(()));
        });
        if spawned.is_err() {
            break;
        }
        let mut mon = Monitor::new();
        let mut seen = start;
        loop {
            match rx.recv_timeout(Duration::from_millis(20)) {
                Ok(Msg::Task(t)) => mon.task = t,
                Ok(Msg::Done(())) => {
                    start = n;
                    break;
                }
                Err(e) => {
                    let cur = sh.cur.load(Ordering::SeqCst);
                    if cur != seen {
                        seen = cur;
                        mon.progress();
                    }
                    let h = if matches!(e, mpsc::RecvTimeoutError::Disconnected) { Some(mon.hang("died", Instant::now())) } else { mon.check(limit) };
                    if let Some(h) = h {
                        // re-read under the lock so that the item blamed is the one being computed
                        let mut g = sh.results.lock().unwrap();
                        g.0 = usize::MAX;
                        let cur = sh.cur.load(Ordering::SeqCst);
                        let blamed = (cur..n).find(|&i| g.1[i].is_none()).unwrap_or(cur);
                        drop(g);
                        hangs.push((blamed, h));
                        start = blamed + 1;
                        break;
                    }
                }
            }
        }
    }
    let results = std::mem::take(&mut sh.results.lock().unwrap().1);
    (results, hangs)
}

// ------------------------------------------------------------------------------------ the dump
#[derive(Clone, Debug, PartialEq)]
pub enum Node {
    Ref { name: usize, excl: Option<usize>, terms: Vec<usize>, reset: bool },
    Seq { elems: Vec<usize>, terms: Vec<usize>, greedy: bool },
    Brack { btype: usize, bset: usize, elems: Vec<usize>, terms: Vec<usize>, greedy: bool },
    AnyOf { excl: Option<usize>, elems: Vec<usize>, terms: Vec<usize>, greedy: bool },
    Delim { delim: usize, elems: Vec<usize>, terms: Vec<usize> },
    NodeM { kind: usize, g: usize },
    Str { raws: Vec<usize> },
    Multi { raws: Vec<usize> },
    Typed { types: Vec<usize> },
    Regex,
    Meta,
    Cond,
    Anything { terms: Vec<usize> },
    Nothing,
    NonCode,
    BrackSeg,
}

/// What the real `simple` answered: 0 = Some hint, 1 = None (not simple), 2 = dangling reference
/// panic, 3 = self-reference panic, 4 = other panic, 5 = it never returned (watchdog).
#[derive(Clone, Debug, PartialEq)]
pub struct RealSimple {
    pub class: u8,
    pub raws: Vec<usize>,
    pub types: Vec<usize>,
    pub msg: String,
}

pub struct Graph {
    pub dialect: String,
    pub strs: Vec<String>,
    str_ids: HashMap<String, usize>,
    pub nodes: Vec<Node>,
    pub handles: Vec<Matchable>,
    ids: HashMap<usize, usize>,
    /// real `is_optional()`: Some(b) or None when it panics (todo!/unimplemented!)
    pub optional: Vec<Option<bool>>,
    /// real `cache_key()`; None when the type has none (panics)
    pub keys: Vec<Option<u32>>,
    pub library: Vec<(usize, usize)>,
    pub brackets: Vec<(usize, Vec<(usize, usize, usize, bool)>)>,
    pub sets: Vec<(usize, Vec<usize>)>,
}

impl Graph {
    pub fn intern(&mut self, s: &str) -> usize {
        if let Some(&i) = self.str_ids.get(s) {
            return i;
        }
        let i = self.strs.len();
        self.strs.push(s.to_string());
        self.str_ids.insert(s.to_string(), i);
        i
    }
    pub fn str_id(&self, s: &str) -> Option<usize> {
        self.str_ids.get(s).copied()
    }
    pub fn deref(&self, name: usize) -> Option<usize> {
        self.library.iter().find(|(n, _)| *n == name).map(|(_, id)| *id)
    }
    fn list(&mut self, ms: &[Matchable]) -> Vec<usize> {
        ms.iter().map(|m| self.add(m)).collect()
    }
    pub fn add(&mut self, m: &Matchable) -> usize {
        let p = m.verif_ptr();
        if let Some(&i) = self.ids.get(&p) {
            return i;
        }
        let id = self.nodes.len();
        self.ids.insert(p, id);
        self.nodes.push(Node::Nothing);
        self.handles.push(m.clone());
        self.optional.push(catch(|| m.is_optional()).ok());
        self.keys.push(catch(|| m.cache_key()).ok());
        let greedy = |pm: ParseMode| pm != ParseMode::Strict;
        let node = match m.verif_inner() {
            MatchableTraitImpl::Ref(r) => {
                let name = self.intern(r.verif_reference());
                let excl = r.verif_exclude().map(|e| self.add(e));
                let terms = self.list(r.verif_terminators());
                Node::Ref { name, excl, terms, reset: r.verif_reset_terminators() }
            }
            MatchableTraitImpl::Sequence(s) => {
                let elems = self.list(s.verif_elements());
                let terms = self.list(&s.terminators);
                Node::Seq { elems, terms, greedy: greedy(s.parse_mode) }
            }
            MatchableTraitImpl::Bracketed(b) => {
                let btype = self.intern(b.bracket_type);
                let bset = self.intern(b.bracket_pairs_set);
                let elems = self.list(b.this.verif_elements());
                let terms = self.list(&b.this.terminators);
                Node::Brack { btype, bset, elems, terms, greedy: greedy(b.this.parse_mode) }
            }
            MatchableTraitImpl::AnyNumberOf(a) => {
                let excl = a.exclude.as_ref().map(|e| self.add(e));
                let elems = self.list(a.verif_elements());
                let terms = self.list(&a.terminators);
                Node::AnyOf { excl, elems, terms, greedy: greedy(a.parse_mode) }
            }
            MatchableTraitImpl::Delimited(d) => {
                let delim = self.add(d.verif_delimiter());
                let elems = self.list(d.base.verif_elements());
                let terms = self.list(&d.base.terminators);
                Node::Delim { delim, elems, terms }
            }
            MatchableTraitImpl::NodeMatcher(n) => {
                let kind = n.get_type() as u16 as usize;
                let g = self.add(n.verif_match_grammar());
                Node::NodeM { kind, g }
            }
            MatchableTraitImpl::StringParser(s) => {
                let mut raws: Vec<String> = s.verif_simple().iter().cloned().collect();
                raws.sort();
                Node::Str { raws: raws.iter().map(|r| self.intern(r)).collect() }
            }
            MatchableTraitImpl::MultiStringParser(s) => {
                let mut raws: Vec<String> = s.verif_simple().iter().cloned().collect();
                raws.sort();
                Node::Multi { raws: raws.iter().map(|r| self.intern(r)).collect() }
            }
            MatchableTraitImpl::TypedParser(t) => Node::Typed { types: t.verif_target_types().iter().map(|k| k as u16 as usize).collect() },
            MatchableTraitImpl::RegexParser(_) => Node::Regex,
            MatchableTraitImpl::MetaSegment(_) => Node::Meta,
            MatchableTraitImpl::Conditional(_) => Node::Cond,
            MatchableTraitImpl::Anything(a) => Node::Anything { terms: self.list(a.verif_terminators()) },
            MatchableTraitImpl::Nothing(_) => Node::Nothing,
            MatchableTraitImpl::NonCodeMatcher(_) => Node::NonCode,
            MatchableTraitImpl::BracketedSegmentMatcher(_) => Node::BrackSeg,
        };
        self.nodes[id] = node;
        id
    }

    pub fn build(dialect_name: &str, dialect: &Dialect) -> Graph {
        let mut g = Graph {
            dialect: dialect_name.to_string(),
            strs: vec![],
            str_ids: HashMap::new(),
            nodes: vec![],
            handles: vec![],
            ids: HashMap::new(),
            optional: vec![],
            keys: vec![],
            library: vec![],
            brackets: vec![],
            sets: vec![],
        };
        // fixed ids for the names the engine itself looks up
        g.intern("FileSegment");
        g.intern("bracket_pairs");
        g.intern("angle_bracket_pairs");
        let mut lib: Vec<(&str, Option<&Matchable>)> = dialect.verif_library().collect();
        lib.sort_by(|a, b| a.0.cmp(b.0));
        for (name, m) in lib {
            let n = g.intern(name);
            if let Some(m) = m {
                let id = g.add(m);
                g.library.push((n, id));
            }
        }
        let mut bsets: Vec<&&'static str> = dialect.bracket_collections.keys().collect();
        bsets.sort();
        for label in bsets {
            let mut pairs: Vec<_> = dialect.bracket_collections[*label].iter().cloned().collect();
            pairs.sort();
            let l = g.intern(label);
            let ps = pairs.iter().map(|(t, s, e, p)| (g.intern(t), g.intern(s), g.intern(e), *p)).collect();
            g.brackets.push((l, ps));
        }
        let mut sets: Vec<(&'static str, Vec<&'static str>)> = dialect.verif_sets().map(|(k, v)| (k, v.iter().copied().collect())).collect();
        sets.sort();
        for (label, mut kws) in sets {
            kws.sort();
            let l = g.intern(label);
            let ks = kws.iter().map(|k| g.intern(k)).collect();
            g.sets.push((l, ks));
        }
        g
    }

    /// names looked up through `Dialect::ref` when the interpreter executes node `n`
    /// (mirror of Grammar/Model.v `node_refs`), and the bracket-type lookup failure if any.
    pub fn node_refs(&self, n: usize) -> (Vec<usize>, bool) {
        let bp = 1usize; // "bracket_pairs"
        let all_pairs = |set: usize| -> Vec<usize> {
            self.brackets.iter().filter(|(l, _)| *l == set).flat_map(|(_, ps)| ps.iter().flat_map(|p| [p.1, p.2])).collect()
        };
        match &self.nodes[n] {
            Node::Ref { name, .. } => (vec![*name], true),
            Node::Brack { btype, bset, greedy, .. } => {
                let mut v = vec![];
                let mut found = false;
                for (l, ps) in &self.brackets {
                    if l == bset {
                        if let Some(p) = ps.iter().find(|p| p.0 == *btype) {
                            v.push(p.1);
                            v.push(p.2);
                            found = true;
                        }
                    }
                }
                if *greedy {
                    v.extend(all_pairs(bp));
                }
                (v, found)
            }
            Node::Seq { greedy: true, .. } | Node::AnyOf { greedy: true, .. } | Node::Anything { .. } => (all_pairs(bp), true),
            _ => (vec![], true),
        }
    }
    pub fn node_children(&self, n: usize) -> Vec<usize> {
        match &self.nodes[n] {
            Node::Ref { excl, terms, .. } => excl.iter().copied().chain(terms.iter().copied()).collect(),
            Node::Seq { elems, terms, .. } | Node::Brack { elems, terms, .. } => elems.iter().chain(terms.iter()).copied().collect(),
            Node::AnyOf { excl, elems, terms, .. } => excl.iter().copied().chain(elems.iter().copied()).chain(terms.iter().copied()).collect(),
            Node::Delim { delim, elems, terms } => std::iter::once(*delim).chain(elems.iter().copied()).chain(terms.iter().copied()).collect(),
            Node::NodeM { g, .. } => vec![*g],
            Node::Anything { terms } => terms.clone(),
            _ => vec![],
        }
    }
    /// nodes that `simple` of `n` may recurse into (mirror of `lc_children`).
    pub fn lc_children(&self, n: usize) -> Vec<usize> {
        match &self.nodes[n] {
            Node::Ref { name, .. } => self.deref(*name).into_iter().collect(),
            Node::Seq { elems, .. } => {
                let mut v = vec![];
                for &e in elems {
                    v.push(e);
                    if self.optional[e] != Some(true) {
                        break;
                    }
                }
                v
            }
            Node::AnyOf { elems, .. } | Node::Delim { elems, .. } => elems.clone(),
            Node::Brack { .. } => {
                let (refs, found) = self.node_refs(n);
                if found { refs.first().and_then(|s| self.deref(*s)).into_iter().collect() } else { vec![] }
            }
            Node::NodeM { g, .. } => vec![*g],
            _ => vec![],
        }
    }
    /// BFS from FileSegment; returns parent pointers (node -> (parent, via)) in visit order.
    pub fn reach(&self) -> (Vec<usize>, HashMap<usize, (usize, String)>) {
        let mut order = vec![];
        let mut parent: HashMap<usize, (usize, String)> = HashMap::new();
        let Some(root) = self.deref(0) else { return (order, parent) };
        let mut seen = BTreeSet::new();
        let mut q = VecDeque::new();
        seen.insert(root);
        q.push_back(root);
        while let Some(n) = q.pop_front() {
            order.push(n);
            for c in self.node_children(n) {
                if seen.insert(c) {
                    parent.insert(c, (n, "child".into()));
                    q.push_back(c);
                }
            }
            for name in self.node_refs(n).0 {
                if let Some(t) = self.deref(name) {
                    if seen.insert(t) {
                        parent.insert(t, (n, format!("ref {}", self.strs[name])));
                        q.push_back(t);
                    }
                }
            }
        }
        (order, parent)
    }
    pub fn path_to(&self, parent: &HashMap<usize, (usize, String)>, n: usize) -> Vec<usize> {
        let mut p = vec![n];
        let mut cur = n;
        while let Some((q, _)) = parent.get(&cur) {
            p.push(*q);
            cur = *q;
        }
        p.reverse();
        p
    }
    pub fn describe(&self, n: usize) -> String {
        match &self.nodes[n] {
            Node::Ref { name, .. } => format!("Ref({})", self.strs[*name]),
            Node::Seq { .. } => "Sequence".into(),
            Node::Brack { btype, .. } => format!("Bracketed({})", self.strs[*btype]),
            Node::AnyOf { .. } => "AnyNumberOf".into(),
            Node::Delim { .. } => "Delimited".into(),
            Node::NodeM { g: _, kind } => {
                let names: Vec<&str> = self.library.iter().filter(|(_, id)| *id == n).map(|(s, _)| self.strs[*s].as_str()).collect();
                format!("NodeMatcher(kind {}{})", kind, if names.is_empty() { String::new() } else { format!(" = {}", names.join("/")) })
            }
            Node::Str { raws } => format!("StringParser({})", raws.iter().map(|r| self.strs[*r].clone()).collect::<Vec<_>>().join("|")),
            Node::Multi { .. } => "MultiStringParser".into(),
            Node::Typed { .. } => "TypedParser".into(),
            Node::Regex => "RegexParser".into(),
            Node::Meta => "MetaSegment".into(),
            Node::Cond => "Conditional".into(),
            Node::Anything { .. } => "Anything".into(),
            Node::Nothing => "Nothing".into(),
            Node::NonCode => "NonCodeMatcher".into(),
            Node::BrackSeg => "BracketedSegmentMatcher".into(),
        }
    }
    /// library names under which node `n` is registered
    pub fn lib_names(&self, n: usize) -> Vec<&str> {
        self.library.iter().filter(|(_, id)| *id == n).map(|(s, _)| self.strs[*s].as_str()).collect()
    }
    /// `describe` + node number + the library name(s) of the node
    pub fn label(&self, n: usize) -> String {
        let names = self.lib_names(n);
        if names.is_empty() || matches!(self.nodes[n], Node::NodeM { .. }) { format!("{}#{}", self.describe(n), n) } else { format!("{}#{} (= {})", self.describe(n), n, names.join("/")) }
    }
    /// Left-corner cycles among the nodes without a rank: from each start follow unranked
    /// `lc_children` until a node repeats.  A cycle is rotated so that it starts at the target of
    /// its lowest-numbered `Ref` (every cycle passes through a `Ref`: the `Arc` trees are acyclic).
    pub fn lc_cycles(&self, ranks: &[Option<usize>], starts: &[usize], max: usize) -> Vec<Vec<usize>> {
        let mut found: Vec<Vec<usize>> = vec![];
        let mut covered: BTreeSet<usize> = BTreeSet::new();
        for &s in starts {
            if found.len() >= max {
                break;
            }
            if ranks[s].is_some() || covered.contains(&s) {
                continue;
            }
            let mut pos: HashMap<usize, usize> = HashMap::new();
            let mut path: Vec<usize> = vec![];
            let mut cur = s;
            let cycle = loop {
                if let Some(&i) = pos.get(&cur) {
                    break Some(path[i..].to_vec());
                }
                if covered.contains(&cur) {
                    break None; // leads into a cycle already reported
                }
                pos.insert(cur, path.len());
                path.push(cur);
                match self.lc_children(cur).into_iter().find(|c| ranks[*c].is_none()) {
                    Some(c) => cur = c,
                    None => break None,
                }
            };
            covered.extend(path.iter().copied());
            if let Some(mut c) = cycle {
                let k = c.iter().enumerate().filter(|(_, n)| matches!(self.nodes[**n], Node::Ref { .. })).min_by_key(|(_, n)| **n).map(|(i, _)| i + 1).unwrap_or(0);
                let len = c.len();
                c.rotate_left(k % len);
                if !found.contains(&c) {
                    found.push(c);
                }
            }
        }
        found
    }
    /// the names of the `Ref`s along a cycle, closed: `A -> B -> A`
    pub fn cycle_names(&self, cyc: &[usize]) -> Vec<String> {
        let mut v: Vec<String> = vec![];
        if let Some(&last) = cyc.last() {
            if let Node::Ref { name, .. } = &self.nodes[last] {
                v.push(self.strs[*name].clone());
            }
        }
        for &n in cyc {
            if let Node::Ref { name, .. } = &self.nodes[n] {
                v.push(self.strs[*name].clone());
            }
        }
        v
    }
    /// Shortest known token sentence of every node (`None`: none known), by fixpoint iteration;
    /// `leaf[n]` is a lexeme the leaf parser `n` accepts.  Only used to aim SQL at a grammar node;
    /// whatever it produces is judged by the real parser.
    pub fn min_sentences(&self, leaf: &[Option<String>]) -> Vec<Option<Vec<String>>> {
        let n = self.nodes.len();
        let mut ms: Vec<Option<Vec<String>>> = vec![None; n];
        let seq = |ms: &Vec<Option<Vec<String>>>, elems: &[usize], opt: &Vec<Option<bool>>| -> Option<Vec<String>> {
            let mut v = vec![];
            for &e in elems {
                if opt[e] == Some(true) {
                    continue;
                }
                v.extend(ms[e].clone()?);
            }
            Some(v)
        };
        let shortest = |ms: &Vec<Option<Vec<String>>>, elems: &[usize]| -> Option<Vec<String>> { elems.iter().filter_map(|&e| ms[e].clone()).min_by_key(|v| v.len()) };
        for _round in 0..64 {
            let mut changed = false;
            for i in 0..n {
                let cand: Option<Vec<String>> = match &self.nodes[i] {
                    Node::Ref { name, .. } => self.deref(*name).and_then(|t| ms[t].clone()),
                    Node::Seq { elems, .. } => seq(&ms, elems, &self.optional),
                    Node::Brack { elems, .. } => {
                        let (refs, found) = self.node_refs(i);
                        if !found || refs.len() < 2 {
                            None
                        } else {
                            let (st, en) = (self.deref(refs[0]).and_then(|t| ms[t].clone()), self.deref(refs[1]).and_then(|t| ms[t].clone()));
                            match (st, seq(&ms, elems, &self.optional), en) {
                                (Some(a), Some(b), Some(c)) => Some(a.into_iter().chain(b).chain(c).collect()),
                                _ => None,
                            }
                        }
                    }
                    Node::AnyOf { elems, .. } | Node::Delim { elems, .. } => shortest(&ms, elems),
                    Node::NodeM { g, .. } => ms[*g].clone(),
                    Node::Str { .. } | Node::Multi { .. } | Node::Typed { .. } | Node::Regex => leaf[i].clone().map(|l| vec![l]),
                    Node::Meta | Node::Cond | Node::NonCode => Some(vec![]),
                    Node::Anything { .. } => Some(vec!["x".to_string()]),
                    Node::Nothing | Node::BrackSeg => None,
                };
                if let Some(c) = cand {
                    if ms[i].as_ref().map(|old| c.len() < old.len()).unwrap_or(true) {
                        ms[i] = Some(c);
                        changed = true;
                    }
                }
            }
            if !changed {
                break;
            }
        }
        ms
    }
    /// For every node a shortest known token prefix after which the parser, started at `FileSegment`,
    /// can be matching that node (elements only; optional elements before it are left out).
    pub fn prefixes(&self, ms: &[Option<Vec<String>>]) -> Vec<Option<Vec<String>>> {
        let n = self.nodes.len();
        let mut pre: Vec<Option<Vec<String>>> = vec![None; n];
        let Some(root) = self.deref(0) else { return pre };
        pre[root] = Some(vec![]);
        let mut heap: std::collections::BinaryHeap<(std::cmp::Reverse<usize>, usize)> = std::collections::BinaryHeap::new();
        heap.push((std::cmp::Reverse(0), root));
        while let Some((std::cmp::Reverse(cost), i)) = heap.pop() {
            let Some(p) = pre[i].clone() else { continue };
            if p.len() != cost {
                continue;
            }
            let mut offer = |c: usize, v: Vec<String>, pre: &mut Vec<Option<Vec<String>>>| {
                if pre[c].as_ref().map(|old| v.len() < old.len()).unwrap_or(true) {
                    heap.push((std::cmp::Reverse(v.len()), c));
                    pre[c] = Some(v);
                }
            };
            match &self.nodes[i] {
                Node::Ref { name, .. } => {
                    if let Some(t) = self.deref(*name) {
                        offer(t, p, &mut pre);
                    }
                }
                Node::NodeM { g, .. } => offer(*g, p, &mut pre),
                Node::AnyOf { elems, .. } | Node::Delim { elems, .. } => {
                    for &e in elems {
                        offer(e, p.clone(), &mut pre);
                    }
                }
                Node::Seq { elems, .. } | Node::Brack { elems, .. } => {
                    let mut cur = p.clone();
                    if matches!(self.nodes[i], Node::Brack { .. }) {
                        let (refs, found) = self.node_refs(i);
                        match refs.first().filter(|_| found).and_then(|r| self.deref(*r)).and_then(|t| ms[t].clone()) {
                            Some(st) => cur.extend(st),
                            None => continue,
                        }
                    }
                    for &e in elems {
                        offer(e, cur.clone(), &mut pre);
                        if self.optional[e] == Some(true) {
                            continue;
                        }
                        match &ms[e] {
                            Some(v) => cur.extend(v.iter().cloned()),
                            None => break,
                        }
                    }
                }
                _ => {}
            }
        }
        pre
    }
    /// longest-path rank over the left-corner graph (certificate for termination of `simple`);
    /// None for nodes on or above a left-corner cycle.
    pub fn ranks(&self) -> Vec<Option<usize>> {
        let n = self.nodes.len();
        let mut rank: Vec<Option<usize>> = vec![None; n];
        let mut state = vec![0u8; n]; // 0 new, 1 on stack, 2 done
        for s in 0..n {
            if state[s] != 0 {
                continue;
            }
            // iterative DFS
            let mut stack: Vec<(usize, Vec<usize>, usize)> = vec![(s, self.lc_children(s), 0)];
            state[s] = 1;
            while let Some((v, ch, i)) = stack.last_mut() {
                if *i < ch.len() {
                    let c = ch[*i];
                    *i += 1;
                    if state[c] == 0 {
                        state[c] = 1;
                        let cc = self.lc_children(c);
                        stack.push((c, cc, 0));
                    }
                } else {
                    let v = *v;
                    let mut r = Some(0usize);
                    for &c in ch.iter() {
                        r = match (r, if state[c] == 2 { rank[c] } else { None }) {
                            (Some(a), Some(b)) => Some(a.max(b + 1)),
                            _ => None,
                        };
                    }
                    rank[v] = r;
                    state[v] = 2;
                    stack.pop();
                }
            }
        }
        rank
    }
}

/// `Ok(Some((raws, kinds)))` / `Ok(None)` / `Err(panic message)` of one real `Matchable::simple`.
pub type RawSimple = Result<Option<(Vec<String>, Vec<usize>)>, String>;

/// Only ever called on a watched helper thread: it may never return.
pub fn raw_simple(dialect: &Dialect, h: &Matchable) -> RawSimple {
    let cfg: AHashMap<String, bool> = AHashMap::new();
    let cx = ParseContext::new(dialect, &cfg);
    catch(|| h.simple(&cx, None)).map(|o| {
        o.map(|(raws, types)| {
            let mut rs: Vec<String> = raws.into_iter().collect();
            rs.sort();
            let mut ts: Vec<usize> = types.iter().map(|k| k as u16 as usize).collect();
            ts.sort();
            (rs, ts)
        })
    })
}
pub fn to_real(g: &mut Graph, r: RawSimple) -> RealSimple {
    match r {
        Ok(Some((rs, ts))) => RealSimple { class: 0, raws: rs.iter().map(|r| g.intern(r)).collect(), types: ts, msg: String::new() },
        Ok(None) => RealSimple { class: 1, raws: vec![], types: vec![], msg: String::new() },
        Err(msg) => {
            let class = if msg.contains("Grammar refers to") {
                2
            } else if msg.contains("Self referential") {
                3
            } else {
                4
            };
            RealSimple { class, raws: vec![], types: vec![], msg: trunc(&msg, 160) }
        }
    }
}
pub fn hung_real(h: &Hang) -> RealSimple {
    RealSimple { class: 5, raws: vec![], types: vec![], msg: h.text() }
}
impl RealSimple {
    pub fn text(&self, g: &Graph) -> String {
        match self.class {
            0 => format!("Some(raws {:?}, {} kinds)", self.raws.iter().take(6).map(|r| g.strs[*r].as_str()).collect::<Vec<_>>(), self.types.len()),
            1 => "None".into(),
            5 => self.msg.clone(),
            _ => format!("panic: {}", self.msg),
        }
    }
}
/// The real `simple()` of node `idx` of a dialect built afresh for this one call (all `OnceLock`s
/// empty, as the model assumes), under the watchdog.  The walk is deterministic, so the node has
/// the same number in the fresh graph; that is re-checked.
pub fn fresh_simple(dialect: &str, idx: usize, n_nodes: usize, describe: &str) -> Watched<Result<RawSimple, String>> {
    let (d, desc) = (dialect.to_string(), describe.to_string());
    watched(simple_limit(), move || {
        let dialect = dialect_of(&d);
        let g = Graph::build(&d, &dialect);
        if g.nodes.len() != n_nodes || idx >= g.nodes.len() || g.describe(idx) != desc {
            return Err(format!("a second build of dialect {} numbers its nodes differently (node {} is {})", d, idx, if idx < g.nodes.len() { g.describe(idx) } else { "absent".into() }));
        }
        Ok(raw_simple(&dialect, &g.handles[idx]))
    })
}

// ------------------------------------------------------------------------------------ Gallina
fn gl(xs: &[usize]) -> String {
    g_list(xs.iter().map(|x| x.to_string()))
}
fn gopt(x: &Option<usize>) -> String {
    match x {
        Some(v) => format!("(Some {})", v),
        None => "None".into(),
    }
}
fn gnode(n: &Node) -> String {
    match n {
        Node::Ref { name, excl, terms, reset } => format!("NRef {} {} {} {}", name, gopt(excl), gl(terms), g_bool(*reset)),
        Node::Seq { elems, terms, greedy } => format!("NSeq {} {} {}", gl(elems), gl(terms), g_bool(*greedy)),
        Node::Brack { btype, bset, elems, terms, greedy } => format!("NBrack {} {} {} {} {}", btype, bset, gl(elems), gl(terms), g_bool(*greedy)),
        Node::AnyOf { excl, elems, terms, greedy } => format!("NAnyOf {} {} {} {}", gopt(excl), gl(elems), gl(terms), g_bool(*greedy)),
        Node::Delim { delim, elems, terms } => format!("NDelim {} {} {}", delim, gl(elems), gl(terms)),
        Node::NodeM { kind, g } => format!("NNode {} {}", kind, g),
        Node::Str { raws } => format!("NStr {}", gl(raws)),
        Node::Multi { raws } => format!("NMulti {}", gl(raws)),
        Node::Typed { types } => format!("NTyped {}", gl(types)),
        Node::Regex => "NRegex".into(),
        Node::Meta => "NMeta".into(),
        Node::Cond => "NCond".into(),
        Node::Anything { terms } => format!("NAnything {}", gl(terms)),
        Node::Nothing => "NNothing".into(),
        Node::NonCode => "NNonCode".into(),
        Node::BrackSeg => "NBrackSeg".into(),
    }
}
fn gopt_bool(b: &Option<bool>) -> &'static str {
    match b {
        Some(true) => "(Some true)",
        Some(false) => "(Some false)",
        None => "None",
    }
}

pub struct DialectReport {
    pub dialect: String,
    pub text: String,
    pub n_nodes: usize,
    pub n_reach: usize,
    pub n_refs: usize,
    pub n_obligations: usize,
    pub dangling: Vec<Value>,
    pub stats: Value,
    pub strs: Vec<String>,
}

/// lexemes offered to the leaf parsers (TypedParser / RegexParser) of a dialect
const LEXEMES: &[&str] = &["a", "1", "'x'", "\"x\"", "`x`", "1.5", "$$x$$", "@a", "$1", "?", ":a", "[a]", "x'00'", "<<a>>", "%s", "{{a}}", "#a", "*"];

/// For every leaf parser a lexeme it accepts, found by lexing the candidates with the dialect's own
/// lexer and asking the parser itself (`match_segments` of a leaf parser never asks for a hint).
pub fn leaf_lexemes(g: &Graph, dialect: &Dialect) -> Vec<Option<String>> {
    let tables = Tables::default();
    let lexer = dialect.lexer();
    let lexed: Vec<(String, Vec<sqruff_lib_core::parser::segments::base::ErasedSegment>, u32)> = LEXEMES
        .iter()
        .filter_map(|c| {
            let (toks, _) = catch(|| lexer.lex(&tables, StringOrTemplate::String(c))).ok()?.ok()?;
            let code: Vec<usize> = toks.iter().enumerate().filter(|(_, t)| t.is_code()).map(|(i, _)| i).collect();
            if code.len() == 1 { Some((c.to_string(), toks, code[0] as u32)) } else { None }
        })
        .collect();
    let cfg: AHashMap<String, bool> = AHashMap::new();
    (0..g.nodes.len())
        .map(|n| match &g.nodes[n] {
            Node::Str { raws } | Node::Multi { raws } => raws.first().map(|r| g.strs[*r].clone()),
            Node::Typed { .. } | Node::Regex => lexed.iter().find_map(|(c, toks, at)| {
                let mut cx = ParseContext::new(dialect, &cfg);
                match catch(|| g.handles[n].match_segments(toks, *at, &mut cx)) {
                    Ok(Ok(m)) if m.has_match() => Some(c.clone()),
                    _ => None,
                }
            }),
            _ => None,
        })
        .collect()
}

/// SQL aimed at the nodes `targets`: a shortest token prefix that brings the parser to the node,
/// followed by one more token (the hint of an element is asked for when there is a next code token).
pub fn aimed_sql(g: &Graph, dialect: &Dialect, targets: &[usize]) -> Vec<String> {
    let leaf = leaf_lexemes(g, dialect);
    let ms = g.min_sentences(&leaf);
    let pre = g.prefixes(&ms);
    let mut out: Vec<String> = vec![];
    for &t in targets {
        let Some(p) = &pre[t] else { continue };
        let mut tails: Vec<Vec<String>> = vec![vec!["x".into()], vec!["1".into()], vec!["(".into(), "x".into(), ")".into()]];
        if let Some(own) = &ms[t] {
            if !own.is_empty() {
                tails.insert(0, own.clone());
            }
        }
        for tail in tails {
            let sql = format!("{}\n", p.iter().chain(tail.iter()).cloned().collect::<Vec<_>>().join(" "));
            if !out.contains(&sql) {
                out.push(sql);
            }
        }
    }
    out
}

/// What driving the real parser found (see `synthesise_sql`).
#[derive(Default)]
pub struct Synth {
    /// "<dialect>:<reference>" -> shortest SQL whose parse aborts in `Dialect::ref`
    pub aborts: BTreeMap<String, String>,
    /// dialect -> SQL whose parse never returned (shortest first)
    pub hangs: BTreeMap<String, Vec<(String, Hang)>>,
    /// dialect -> SQL whose parse aborts with "Self referential grammar detected" (shortest first)
    pub selfref: BTreeMap<String, Vec<(String, String)>>,
}

/// at most this many nodes without a rank get their real `simple()` called (each on a dialect of its own)
const MAX_RISKY_EVAL: usize = 12;
/// a ranked node whose real `simple()` blocks contradicts the dump; stop asking after this many
const MAX_UNEXPECTED_HANGS: usize = 4;

/// Everything about one dialect: graph, direct observations, generated Coq file.
pub fn analyse(name: &str, known: &[String], synth: &Synth, buf: &mut Buf) -> DialectReport {
    let corpus_hits = &synth.aborts;
    let dialect = Arc::new(dialect_of(name));
    let mut g = Graph::build(name, &dialect);
    let n_nodes = g.nodes.len();

    // reachability, rank certificate: computed on the dumped structure alone (no `simple()` involved)
    let (order, parent) = g.reach();
    let ranks = g.ranks();
    let reachable: BTreeSet<usize> = order.iter().copied().collect();
    let unranked_reach: Vec<usize> = order.iter().copied().filter(|&n| ranks[n].is_none()).collect();
    let unranked_other: Vec<usize> = (0..n_nodes).filter(|n| ranks[*n].is_none() && !reachable.contains(n)).collect();
    let cycles = g.lc_cycles(&ranks, &unranked_reach, 8);
    let cycles_unreachable = g.lc_cycles(&ranks, &unranked_other, 8).into_iter().filter(|c| !reachable.contains(&c[0])).count();

    // the real simple() of every node, never on this thread.
    //  * ranked nodes: one helper thread walks them all on this dialect; the watchdog blames the node
    //    it is stuck on and the walk resumes behind it on a new helper;
    //  * nodes without a rank (on or above a left-corner cycle): the dump says their computation does
    //    not terminate, and a blocked `OnceLock` would poison every later observation on the same
    //    dialect, so each is asked on a dialect of its own; cycle nodes first, at most MAX_RISKY_EVAL.
    let mut simples: Vec<Option<RealSimple>> = vec![None; n_nodes];
    let ranked: Vec<usize> = (0..n_nodes).filter(|n| ranks[*n].is_some()).collect();
    {
        let (d2, hs, idx) = (dialect.clone(), Arc::new(g.handles.clone()), Arc::new(ranked.clone()));
        let f: Arc<dyn Fn(usize) -> RawSimple + Send + Sync> = Arc::new(move |i| raw_simple(&d2, &hs[idx[i]]));
        let (res, hangs) = watched_batch(ranked.len(), simple_limit(), MAX_UNEXPECTED_HANGS, f);
        for (i, r) in res.into_iter().enumerate() {
            if let Some(r) = r {
                simples[ranked[i]] = Some(to_real(&mut g, r));
            }
        }
        for (i, h) in &hangs {
            let n = ranked[*i];
            // confirm in isolation before believing it (a verdict of the watchdog is a measurement)
            let h = match fresh_simple(name, n, n_nodes, &g.describe(n)) {
                Watched::Done(Ok(r)) => {
                    buf.count("hint_hang_not_confirmed_on_fresh_dialect", 1);
                    simples[n] = Some(to_real(&mut g, r));
                    continue;
                }
                Watched::Hung(h2) => h2,
                Watched::Done(Err(_)) => h.clone(),
            };
            let h = &h;
            simples[n] = Some(hung_real(h));
            buf.direct(
                "simple-terminates",
                false,
                &format!("{}:hint-hang:{}", name, g.describe(n)),
                &format!("the first-token hint (Matchable::simple) of {} in dialect {} {} although the dumped grammar has a termination rank for it", g.label(n), name, h.text()),
                json!({"dialect": name, "hint_node": n, "hint_node_is": g.label(n), "reachable_from_FileSegment": reachable.contains(&n), "watchdog": h.json(),
                       "path_from_FileSegment": g.path_to(&parent, n).iter().map(|&p| g.label(p)).collect::<Vec<_>>()}),
            );
        }
    }
    let mut risky: Vec<usize> = vec![];
    for c in &cycles {
        risky.extend(c.iter().copied().filter(|n| !risky.contains(n)).collect::<Vec<_>>());
    }
    risky.extend(unranked_reach.iter().copied().filter(|n| !risky.contains(n)).collect::<Vec<_>>());
    risky.extend(unranked_other.iter().copied().filter(|n| !risky.contains(n)).collect::<Vec<_>>());
    let n_risky = risky.len();
    risky.truncate(MAX_RISKY_EVAL);
    let fresh: Vec<(usize, Watched<Result<RawSimple, String>>)> = std::thread::scope(|sc| {
        let hs: Vec<_> = risky.iter().map(|&n| (n, g.describe(n))).map(|(n, desc)| (n, sc.spawn(move || fresh_simple(name, n, n_nodes, &desc)))).collect();
        hs.into_iter().map(|(n, h)| (n, h.join().unwrap_or(Watched::Hung(Hang { verdict: "died", waited_ms: 0, thread_state: "?".into(), cpu_ticks: 0 })))).collect()
    });
    for (n, w) in fresh {
        match w {
            Watched::Done(Ok(r)) => simples[n] = Some(to_real(&mut g, r)),
            Watched::Done(Err(why)) => buf.hyp("fresh_dialect_same_numbering", "blocking", false, json!({"dialect": name, "node": n, "why": why})),
            Watched::Hung(h) => simples[n] = Some(hung_real(&h)),
        }
    }
    // the fresh-dialect mechanism is exercised on every run, defect or not: three ranked nodes are asked
    // again on dialects of their own and must be numbered and answer as on the shared one
    if std::env::var("SQV_C14_NO_FRESH_SAMPLES").is_err() {
        let samples: Vec<usize> = [g.deref(0).unwrap_or(0), n_nodes / 3, 2 * n_nodes / 3].into_iter().filter(|&n| n < n_nodes && ranks[n].is_some()).collect();
        let again: Vec<(usize, Watched<Result<RawSimple, String>>)> = std::thread::scope(|sc| {
            let hs: Vec<_> = samples.iter().map(|&n| (n, g.describe(n))).map(|(n, desc)| (n, sc.spawn(move || fresh_simple(name, n, n_nodes, &desc)))).collect();
            hs.into_iter().filter_map(|(n, h)| h.join().ok().map(|w| (n, w))).collect()
        });
        for (n, w) in again {
            let (ok, why) = match w {
                Watched::Done(Ok(r)) => {
                    let r = to_real(&mut g, r);
                    (simples[n].as_ref() == Some(&r), format!("shared dialect: {:?}, fresh dialect: {:?}", simples[n], r))
                }
                Watched::Done(Err(why)) => (false, why),
                Watched::Hung(h) => (false, h.text()),
            };
            buf.hyp("fresh_dialect_same_numbering", "blocking", ok, json!({"dialect": name, "node": g.label(n), "why": why}));
        }
    }

    // direct observation of Dialect::ref on every reachable reference
    let root_ok = g.deref(0).is_some();
    buf.direct("root", root_ok, &format!("{}:FileSegment", name), "FileSegment is not defined", json!({"dialect": name}));
    let mut dangling: BTreeMap<usize, usize> = BTreeMap::new(); // name -> first node using it
    let mut n_refs = 0usize;
    let mut ref_names: BTreeSet<usize> = BTreeSet::new();
    let mut bad_bracket: Vec<usize> = vec![];
    for &n in &order {
        let (refs, found) = g.node_refs(n);
        if !found {
            bad_bracket.push(n);
        }
        for r in refs {
            n_refs += 1;
            ref_names.insert(r);
        }
    }
    for &r in &ref_names {
        let nm = g.strs[r].clone();
        let real = catch(|| dialect.r#ref(&nm));
        let model = g.deref(r);
        // translator fidelity: the dumped library answers like the real lookup
        buf.hyp("dump_deref_agrees", "blocking", real.is_ok() == model.is_some(), json!({"dialect": name, "name": nm}));
        if real.is_err() {
            let user = order.iter().copied().find(|&n| g.node_refs(n).0.contains(&r)).unwrap();
            dangling.insert(r, user);
        }
    }
    let mut dangling_json = vec![];
    let mut known_paths: Vec<(usize, Vec<usize>)> = vec![];
    for (&r, &user) in &dangling {
        let nm = g.strs[r].clone();
        let path = g.path_to(&parent, user);
        let key = format!("{}:{}", name, nm);
        let path_txt: Vec<String> = path.iter().map(|&p| format!("{}#{}", g.describe(p), p)).collect();
        let sql = corpus_hits.get(&key).cloned();
        let input = json!({"dialect": name, "reference": nm, "used_by_node": user, "path_from_FileSegment": path_txt, "sql_that_aborts": sql});
        buf.direct("reachable-reference", false, &key, &format!("grammar of dialect {} refers to '{}' which is not in the dialect (reachable from FileSegment)", name, nm), input.clone());
        dangling_json.push(input);
        if known.iter().any(|k| *k == key) {
            known_paths.push((r, path));
        }
    }
    for _ in 0..(ref_names.len() - dangling.len()) {
        buf.direct("reachable-reference", true, "", "", Value::Null);
    }
    for &n in &bad_bracket {
        let key = format!("{}:bracket#{}", name, g.describe(n));
        buf.direct("bracket-type", false, &key, "bracket type not in its bracket set", json!({"dialect": name, "node": n, "path": g.path_to(&parent, n)}));
    }
    // known names that are no longer dangling: give Coq an empty path so that the stale entry fails
    let mut known_ids: Vec<usize> = vec![];
    for k in known {
        if let Some(rest) = k.strip_prefix(&format!("{}:", name)) {
            let id = g.intern(rest);
            known_ids.push(id);
            if !known_paths.iter().any(|(r, _)| *r == id) {
                known_paths.push((id, vec![]));
            }
        }
    }

    // termination of the first-token hint: one finding per left-corner cycle through reachable nodes
    let show_real = |g: &Graph, n: usize| -> String { simples[n].as_ref().map(|r| r.text(g)).unwrap_or_else(|| "not asked".into()) };
    let mut sql_hangs: Vec<(String, Hang)> = synth.hangs.get(name).cloned().unwrap_or_default();
    let mut sql_origin = "a fixture / probe statement parsed under this dialect";
    let mut sql_panics: Vec<(String, String)> = synth.selfref.get(name).cloned().unwrap_or_default();
    if sql_hangs.is_empty() && sql_panics.is_empty() && !cycles.is_empty() {
        // nothing in the corpus drives the parser there: aim statements at the elements whose hint is bad
        // (the cycles and what sits on top of them) with the grammar itself
        let mut targets: Vec<usize> = cycles.iter().flat_map(|c| c.iter().copied()).collect();
        targets.extend(unranked_reach.iter().copied().filter(|n| !targets.contains(n)).take(24).collect::<Vec<_>>());
        let cands = aimed_sql(&g, &dialect, &targets);
        buf.count("aimed_sql_candidates", cands.len());
        for sql in cands.iter().take(48) {
            match parse_bad_fresh(name, sql) {
                Some(ParseBad::Hang(h)) => sql_hangs.push((sql.clone(), h)),
                Some(ParseBad::SelfRef(m)) => sql_panics.push((sql.clone(), m)),
                None => continue,
            }
            sql_origin = "generated from the grammar: shortest token prefix that reaches the element + one more token";
            break;
        }
    }
    let mut cycle_certs: Vec<(Vec<usize>, Vec<usize>)> = vec![]; // (path root..head, cycle)
    for cyc in &cycles {
        let names = g.cycle_names(cyc);
        let head = cyc[0];
        let path = g.path_to(&parent, head);
        cycle_certs.push((path.clone(), cyc.clone()));
        let observed: Vec<Value> = cyc.iter().map(|&n| json!({"node": g.label(n), "real_simple": show_real(&g, n)})).collect();
        let confirmed = cyc.iter().any(|&n| simples[n].as_ref().map(|r| r.class == 5 || r.class == 3).unwrap_or(false));
        let hung = cyc.iter().any(|&n| simples[n].as_ref().map(|r| r.class == 5).unwrap_or(false));
        let asked = cyc.iter().copied().find(|&n| simples[n].as_ref().map(|r| r.class == 5).unwrap_or(false)).unwrap_or(head);
        let above: Vec<usize> = unranked_reach.iter().copied().filter(|n| !cyc.contains(n)).collect();
        let key = format!("{}:hint-cycle:{}", name, names.join(">"));
        let msg = format!(
            "computing the first-token hint (Matchable::simple) of an element of dialect {} reachable from FileSegment does not terminate: left-corner reference cycle {} ({}); real simple() on a fresh dialect: {}{}",
            name,
            names.join(" -> "),
            cyc.iter().map(|&n| g.label(n)).chain(std::iter::once(format!("back to #{}", head))).collect::<Vec<_>>().join(" -> "),
            if hung { "never returns (Ref::simple re-enters its own OnceLock::get_or_init and the thread blocks)" } else if confirmed { "panics 'Self referential grammar detected'" } else { "returned (the cycle is only in the static over-approximation)" },
            match (sql_hangs.first(), sql_panics.first()) {
                (Some((sql, _)), _) => format!("; the parse of {:?} never returns", trunc(sql, 200)),
                (None, Some((sql, m))) => format!("; the parse of {:?} aborts: {}", trunc(sql, 200), m),
                _ => String::new(),
            }
        );
        let input = json!({
            "dialect": name,
            "reference_cycle": names,
            "cycle_nodes": cyc.iter().map(|&n| g.label(n)).collect::<Vec<_>>(),
            "hint_node": asked,
            "hint_node_is": g.label(asked),
            "n_nodes": n_nodes,
            "real_simple_of_cycle_nodes": observed,
            "path_from_FileSegment": path.iter().map(|&p| g.label(p)).collect::<Vec<_>>(),
            "other_reachable_elements_whose_hint_depends_on_the_cycle": above.len(),
            "e_g": above.iter().take(8).map(|&n| json!({"node": g.label(n), "real_simple": show_real(&g, n)})).collect::<Vec<_>>(),
            "sql_whose_parse_hangs": sql_hangs.first().map(|(s, _)| s.clone()),
            "more_sql_whose_parse_hangs": sql_hangs.iter().skip(1).take(3).map(|(s, _)| trunc(s, 300)).collect::<Vec<_>>(),
            "parse_watchdog": sql_hangs.first().map(|(_, h)| h.json()),
            "sql_whose_parse_aborts_self_referential": sql_panics.first().map(|(s, _)| s.clone()),
            "abort_message": sql_panics.first().map(|(_, m)| m.clone()),
            "sql_found_by": if sql_hangs.is_empty() && sql_panics.is_empty() { Value::Null } else { json!(sql_origin) },
        });
        buf.direct("simple-terminates", false, &key, &msg, input);
    }
    if cycles.is_empty() && !unranked_reach.is_empty() {
        let n = unranked_reach[0];
        buf.direct("simple-terminates", false, &format!("{}:hint-unranked:{}", name, g.describe(n)), "a reachable element has no termination rank for its first-token hint, and no left-corner cycle was found below it",
            json!({"dialect": name, "hint_node": n, "hint_node_is": g.label(n), "n_nodes": n_nodes, "real_simple": show_real(&g, n), "path_from_FileSegment": g.path_to(&parent, n).iter().map(|&p| g.label(p)).collect::<Vec<_>>()}));
    }
    if unranked_reach.is_empty() {
        buf.direct("simple-terminates", true, "", "", Value::Null);
        if let Some((sql, m)) = sql_panics.first() {
            buf.direct("parse-returns", false, &format!("{}:parse-selfref", name), &format!("the parse of {:?} under dialect {} aborts: {}", trunc(sql, 200), name, m),
                json!({"dialect": name, "sql_whose_parse_aborts_self_referential": sql, "abort_message": m}));
        }
        if !sql_hangs.is_empty() {
            // a parse that blocks although every reachable hint has a rank: not explained by the dump
            let (sql, h) = &sql_hangs[0];
            buf.direct("parse-returns", false, &format!("{}:parse-hang", name), &format!("the parse of {:?} under dialect {} {}", trunc(sql, 200), name, h.text()),
                json!({"dialect": name, "sql_whose_parse_hangs": sql, "parse_watchdog": h.json()}));
        }
    }
    buf.count("nodes_without_rank", n_risky);
    buf.count("reachable_nodes_without_rank", unranked_reach.len());
    buf.count("leftcorner_cycles_reachable", cycles.len());
    buf.count("leftcorner_cycles_unreachable", cycles_unreachable);
    buf.count("real_simple_hangs", simples.iter().flatten().filter(|r| r.class == 5).count());
    buf.count("real_simple_not_asked", simples.iter().filter(|r| r.is_none()).count());

    // absent-name samples for the deref tie
    let mut probes: Vec<(usize, bool)> = vec![];
    let lib_names: Vec<usize> = g.library.iter().map(|(n, _)| *n).collect();
    for &nm in &lib_names {
        probes.push((nm, true));
    }
    for extra in ["NoSuchSegment", "ZzzKeywordSegment", "fileSegment", "", "FileSegment "] {
        let id = g.intern(extra);
        let real = catch(|| dialect.r#ref(extra)).is_ok();
        probes.push((id, real));
    }
    for &r in &ref_names {
        if !lib_names.contains(&r) {
            probes.push((r, false));
        }
    }

    // ---------------- emit
    let d = name;
    let mut t = String::with_capacity(1 << 20);
    let _ = writeln!(t, "(* generated by `sqv c14` from the freshly built dialect `{}` -- do not edit *)", d);
    t.push_str("From Sq Require Import Base.Bytes Grammar.Model Grammar.Proofs.\nOpen Scope N_scope.\n");
    let _ = writeln!(t, "(* string table: {} interned strings, full table in Grammar_{}.strs.json; only the two names the engine itself uses are needed in Coq *)", g.strs.len(), d);
    let _ = writeln!(t, "Definition strs : list (N * str) := [\n{}].", g.strs.iter().enumerate().take(2).map(|(i, s)| format!("({},{})", i, g_str(s))).collect::<Vec<_>>().join(";\n"));
    let _ = writeln!(t, "Definition nodes : list (N * node) := [\n{}].", g.nodes.iter().enumerate().map(|(i, n)| format!("({},{})", i, gnode(n))).collect::<Vec<_>>().join(";\n"));
    let opt_true: Vec<usize> = (0..n_nodes).filter(|&i| g.optional[i] == Some(true)).collect();
    let opt_none: Vec<usize> = (0..n_nodes).filter(|&i| g.optional[i].is_none()).collect();
    let _ = writeln!(t, "(* is_optional(): true for opt_true, panics for opt_none, false for every other node *)");
    let _ = writeln!(t, "Definition opt_true : list N := {}.\nDefinition opt_none : list N := {}.", gl(&opt_true), gl(&opt_none));
    t.push_str("Definition opts : list (N * option bool) := map (fun n => (n, Some true)) opt_true ++ map (fun n => (n, None)) opt_none.\n");
    let _ = writeln!(t, "Definition library : list (N * N) := {}.", g_list(g.library.iter().map(|(a, b)| format!("({},{})", a, b))));
    let _ = writeln!(
        t,
        "Definition brackets : list (N * list (N * N * N * bool)) := {}.",
        g_list(g.brackets.iter().map(|(l, ps)| format!("({},{})", l, g_list(ps.iter().map(|p| format!("({},{},{},{})", p.0, p.1, p.2, g_bool(p.3)))))))
    );
    let _ = writeln!(t, "Definition keyword_sets : list (N * list N) := {}.", g_list(g.sets.iter().map(|(l, ks)| format!("({},{})", l, gl(ks)))));
    let keyed: Vec<usize> = (0..n_nodes).filter(|&i| g.keys[i].is_some()).collect();
    let _ = writeln!(t, "Definition keyed_ids : list N := {}.", gl(&keyed));
    let _ = writeln!(t, "Definition key_vals : list N := {}.", gl(&keyed.iter().map(|&i| g.keys[i].unwrap() as usize).collect::<Vec<_>>()));
    t.push_str("Definition cache_keys : list (N * N) := combine keyed_ids key_vals.\n");
    let _ = writeln!(t, "Definition ranks : list (N * N) := {}.", g_list(ranks.iter().enumerate().filter_map(|(i, r)| r.map(|r| format!("({},{})", i, r)))));
    t.push_str("Definition g : graph := mk_graph nodes opts library brackets.\n");
    let _ = writeln!(t, "Definition known : list N := {}.", gl(&known_ids));
    let _ = writeln!(t, "Definition known_paths : list (N * list N) := {}.", g_list(known_paths.iter().map(|(r, p)| format!("({},{})", r, gl(p)))));
    let _ = writeln!(
        t,
        "Definition real_simple : list (N * sres) := [\n{}].",
        simples
            .iter()
            .enumerate()
            .filter_map(|(i, s)| s.as_ref().map(|s| (i, s)))
            .map(|(i, s)| {
                let v = match s.class {
                    0 => format!("SVal (Some ({},{}))", gl(&s.raws), gl(&s.types)),
                    1 => "SVal None".to_string(),
                    2 => "SDangling".to_string(),
                    3 => "SSelfRef".to_string(),
                    5 => "SHang".to_string(),
                    _ => "SPanic".to_string(),
                };
                format!("({},{})", i, v)
            })
            .collect::<Vec<_>>()
            .join(";\n")
    );
    let _ = writeln!(t, "Definition real_deref : list (N * bool) := {}.", g_list(probes.iter().map(|(n, b)| format!("({},{})", n, g_bool(*b)))));
    // deep enough for every computation that ends: above the highest rank, and, when some node has no
    // rank, above the longest trail that does not come back to a `Ref` already on it
    let fuel = if n_risky == 0 { ranks.iter().flatten().max().copied().unwrap_or(0) + 2 } else { n_nodes + 2 };
    let _ = writeln!(t, "Definition fuel : nat := N.to_nat {}.", fuel);
    // diagnostics first (printed even when a theorem below fails)
    t.push_str("Eval vm_compute in (101, N.of_nat (length (pset_elements (reach g)))).\n");
    t.push_str("Eval vm_compute in (102, dangling_names g (reach g)).\n");
    t.push_str("Eval vm_compute in (103, simple_mismatches g fuel real_simple).\n");
    t.push_str("Eval vm_compute in (104, deref_mismatches g real_deref).\n");
    t.push_str("Eval vm_compute in (105, unranked g (reach g) ranks).\n");
    t.push_str("Eval vm_compute in (106, hint_failures g fuel (unranked g (reach g) ranks)).\n");
    // obligations
    let _ = writeln!(t, "Theorem closed_{d} : closed_except_b g known = true.\nProof. vm_compute. reflexivity. Qed.");
    // refutation certificates (only when the translator found left-corner cycles): checked before the
    // rank obligation below, which they contradict
    for (k, (path, cyc)) in cycle_certs.iter().enumerate() {
        let _ = writeln!(t, "Definition cycle_path_{k} : list N := {}.\nDefinition cycle_{k} : list N := {}.", gl(path), gl(cyc));
        let _ = writeln!(t, "Theorem {d}_leftcorner_cycle_{k} : reachable_cycle_b g cycle_path_{k} cycle_{k} = true.\nProof. vm_compute. reflexivity. Qed.");
        let _ = writeln!(t, "Theorem {d}_has_no_rank_certificate_{k} : forall ranks', rank_ok_b g (reach g) ranks' = false.\nProof. exact (reachable_cycle_no_certificate g known cycle_path_{k} cycle_{k} closed_{d} {d}_leftcorner_cycle_{k}). Qed.");
        let _ = writeln!(t, "Eval vm_compute in (107, map (fun n => (n, sres_code (simple g fuel [] [] n))) cycle_{k}).");
    }
    let _ = writeln!(t, "Theorem known_dangling_{d} : forallb (fun kp => path_dangling_b g (snd kp) (fst kp)) known_paths = true.\nProof. vm_compute. reflexivity. Qed.");
    let _ = writeln!(t, "Theorem ranked_{d} : rank_ok_b g (reach g) ranks = true.\nProof. vm_compute. reflexivity. Qed.");
    let _ = writeln!(t, "Theorem simple_agrees_{d} : simple_mismatches g fuel real_simple = [].\nProof. vm_compute. reflexivity. Qed.");
    let _ = writeln!(t, "Theorem deref_agrees_{d} : deref_mismatches g real_deref = [].\nProof. vm_compute. reflexivity. Qed.");
    let _ = writeln!(t, "Theorem strs_distinct_{d} : ids_dense_b strs = true.\nProof. vm_compute. reflexivity. Qed.");
    // the instantiated general theorems
    let _ = writeln!(
        t,
        "Theorem {d}_every_reachable_reference_resolves : forall n, reachable g n -> node_ok_except g known n.\nProof. exact (closed_except_sound g known closed_{d}). Qed."
    );
    let _ = writeln!(
        t,
        "Theorem {d}_simple_terminates : forall n, reachable g n -> exists r, rank_of (mk_ranks ranks) n = Some r /\\ forall f, (N.to_nat r < f)%nat -> simple g f [] [] n <> SFuel /\\ simple g f [] [] n <> SHang /\\ simple g f [] [] n <> SSelfRef.\nProof. exact (simple_terminates_reachable g known ranks closed_{d} ranked_{d}). Qed."
    );
    let _ = writeln!(
        t,
        "Theorem {d}_known_are_dangling : forall kp, In kp known_paths -> exists n nd, reachable g n /\\ get_node g n = Some nd /\\ In (fst kp) (node_refs g nd) /\\ deref g (fst kp) = None.\nProof. intros kp H. apply (path_dangling_sound g (snd kp) (fst kp)). exact (proj1 (forallb_forall _ _) known_dangling_{d} kp H). Qed."
    );
    let _ = writeln!(t, "Print Assumptions {d}_every_reachable_reference_resolves.\nPrint Assumptions {d}_simple_terminates.\nPrint Assumptions {d}_known_are_dangling.");

    let n_simple_some = simples.iter().flatten().filter(|s| s.class == 0).count();
    let kinds = {
        let mut h: BTreeMap<&'static str, usize> = BTreeMap::new();
        for n in &g.nodes {
            let k = match n {
                Node::Ref { .. } => "Ref",
                Node::Seq { .. } => "Sequence",
                Node::Brack { .. } => "Bracketed",
                Node::AnyOf { .. } => "AnyNumberOf",
                Node::Delim { .. } => "Delimited",
                Node::NodeM { .. } => "NodeMatcher",
                Node::Str { .. } => "StringParser",
                Node::Multi { .. } => "MultiStringParser",
                Node::Typed { .. } => "TypedParser",
                Node::Regex => "RegexParser",
                Node::Meta => "MetaSegment",
                Node::Cond => "Conditional",
                Node::Anything { .. } => "Anything",
                Node::Nothing => "Nothing",
                Node::NonCode => "NonCodeMatcher",
                Node::BrackSeg => "BracketedSegmentMatcher",
            };
            *h.entry(k).or_default() += 1;
        }
        h
    };
    buf.count("nodes", n_nodes);
    buf.count("reachable_nodes", order.len());
    buf.count("reachable_reference_edges", n_refs);
    buf.count("distinct_reachable_reference_names", ref_names.len());
    buf.count("dangling_reachable_names", dangling.len());
    let stats = json!({"dialect": name, "nodes": n_nodes, "library": g.library.len(), "reachable": order.len(), "reference_edges": n_refs,
        "distinct_reference_names": ref_names.len(), "dangling": dangling.keys().map(|r| g.strs[*r].clone()).collect::<Vec<_>>(),
        "simple_some": n_simple_some, "simple_panics": simples.iter().flatten().filter(|s| s.class >= 2 && s.class != 5).count(), "max_rank": ranks.iter().flatten().max().copied().unwrap_or(0), "node_kinds": kinds,
        "reachable_simple_panics": order.iter().filter(|&&n| simples[n].as_ref().map(|s| s.class >= 2 && s.class != 5).unwrap_or(false)).count(),
        "simple_hangs": simples.iter().flatten().filter(|s| s.class == 5).count(), "nodes_without_rank": n_risky, "reachable_nodes_without_rank": unranked_reach.len(),
        "leftcorner_cycles": cycles.iter().map(|c| g.cycle_names(c).join(" -> ")).collect::<Vec<_>>()});
    DialectReport { dialect: name.to_string(), text: t, n_nodes, n_reach: order.len(), n_refs, n_obligations: 8, dangling: dangling_json, stats, strs: g.strs.clone() }
}

// ------------------------------------------------------------------------------------ SQL synthesis
pub fn ser_tree(seg: &sqruff_lib_core::parser::segments::base::ErasedSegment, out: &mut String) {
    let _ = write!(out, "({}", seg.get_type() as u16);
    if seg.segments().is_empty() {
        let _ = write!(out, " {:?}", seg.raw().as_str());
    } else {
        for c in seg.segments() {
            out.push(' ');
            ser_tree(c, out);
        }
    }
    out.push(')');
}

/// Parse `sql` under `dialect`; Ok(serialised tree) / Err(panic or error message).
pub fn parse_with(dialect: &Dialect, sql: &str) -> Result<String, String> {
    catch(|| {
        let tables = Tables::default();
        let lexer = dialect.lexer();
        let (tokens, _errs) = lexer.lex(&tables, StringOrTemplate::String(sql)).map_err(|e| format!("lex error: {:?}", e))?;
        let parser = Parser::new(dialect, AHashMap::new());
        match parser.parse(&tables, &tokens, None) {
            Ok(Some(tree)) => {
                let mut s = String::new();
                ser_tree(&tree, &mut s);
                Ok(s)
            }
            Ok(None) => Ok("(none)".to_string()),
            Err(e) => Ok(format!("(parse-error {:?})", e.description)),
        }
    })
    .unwrap_or_else(|p| Err(format!("PANIC {}", p)))
}

const PROBES: &[&str] = &[
    "CREATE VIEW v AS SELECT 1 WITH NO SCHEMA BINDING\n",
    "CREATE CAST (int AS bool) WITH FUNCTION fname\n",
    "drop view a restrict\n",
    "CREATE DATABASE d COMMENT 'x'\n",
    "SELECT sum(a) OVER (ORDER BY b RANGE BETWEEN INTERVAL '1' DAY PRECEDING AND CURRENT ROW) FROM t\n",
    "CREATE TABLE t (a int)\n",
    "CREATE TEMPORARY TABLE t (a int)\n",
    "CREATE OR REPLACE TABLE t (a int)\n",
    "CREATE TABLE t AS SELECT 1\n",
    "CREATE VIEW v AS SELECT 1\n",
    "CREATE INDEX i ON t (a)\n",
    "CREATE SCHEMA s\n",
    "CREATE DATABASE d\n",
    "CREATE FUNCTION f() RETURNS int\n",
    "CREATE SEQUENCE s\n",
    "CREATE ROLE r\n",
    "CREATE USER u\n",
    "CREATE TRIGGER tr BEFORE INSERT ON t FOR EACH ROW EXECUTE PROCEDURE f()\n",
    "CREATE MODEL m\n",
    "CREATE EXTENSION e\n",
    "CREATE CAST (int AS text) WITH FUNCTION f\n",
    "DROP TABLE t\n",
    "DROP VIEW v\n",
    "DROP INDEX i\n",
    "DROP SCHEMA s CASCADE\n",
    "DROP FUNCTION f\n",
    "DROP TYPE x\n",
    "DROP ROLE r\n",
    "DROP USER u\n",
    "DROP TRIGGER tr\n",
    "DROP SEQUENCE s\n",
    "DROP MODEL m\n",
    "DROP DATABASE d\n",
    "DROP CAST (int AS text)\n",
    "ALTER TABLE t ADD COLUMN b int\n",
    "ALTER TABLE t DROP COLUMN b\n",
    "ALTER TABLE t RENAME TO u\n",
    "ALTER TABLE t ALTER COLUMN b SET DEFAULT 1\n",
    "ALTER SEQUENCE s INCREMENT BY 2\n",
    "TRUNCATE TABLE t\n",
    "INSERT INTO t (a) VALUES (1)\n",
    "INSERT INTO t DEFAULT VALUES\n",
    "INSERT OVERWRITE t SELECT 1\n",
    "UPDATE t SET a = 1 WHERE b = 2\n",
    "DELETE FROM t WHERE a = 1\n",
    "MERGE INTO t USING s ON t.a = s.a WHEN MATCHED THEN UPDATE SET a = 1 WHEN NOT MATCHED THEN INSERT (a) VALUES (1)\n",
    "GRANT SELECT ON t TO u\n",
    "GRANT ALL PRIVILEGES ON TABLE t TO ROLE r WITH GRANT OPTION\n",
    "REVOKE SELECT ON t FROM u\n",
    "SET x = 1\n",
    "USE d\n",
    "EXPLAIN SELECT 1\n",
    "DESCRIBE t\n",
    "BEGIN TRANSACTION\n",
    "START TRANSACTION\n",
    "COMMIT\n",
    "ROLLBACK\n",
    "COMMIT WORK AND NO CHAIN\n",
    "SELECT a FROM t\n",
    "SELECT DISTINCT a, b FROM t WHERE a IN (1, 2) GROUP BY a HAVING count(*) > 1 ORDER BY a DESC NULLS LAST LIMIT 1 OFFSET 2\n",
    "SELECT a FROM t ORDER BY a NULLS FIRST\n",
    "SELECT a FROM t FETCH FIRST 1 ROWS ONLY\n",
    "SELECT CASE WHEN a THEN 1 ELSE 2 END FROM t\n",
    "SELECT CAST(a AS int) FROM t\n",
    "SELECT a::int FROM t\n",
    "SELECT EXTRACT(year FROM d) FROM t\n",
    "SELECT sum(a) OVER (PARTITION BY b ORDER BY c ROWS BETWEEN UNBOUNDED PRECEDING AND CURRENT ROW) FROM t\n",
    "SELECT sum(a) FILTER (WHERE b) FROM t\n",
    "SELECT a FROM t WINDOW w AS (PARTITION BY b)\n",
    "SELECT * FROM a JOIN b USING (x)\n",
    "SELECT * FROM a NATURAL JOIN b\n",
    "SELECT * FROM a CROSS JOIN b\n",
    "SELECT * FROM a LEFT OUTER JOIN b ON a.x = b.x\n",
    "SELECT * FROM a FULL OUTER JOIN b ON a.x = b.x\n",
    "SELECT * FROM a, LATERAL (SELECT 1) b\n",
    "SELECT * FROM t TABLESAMPLE BERNOULLI (10)\n",
    "SELECT * FROM t AS x (a, b)\n",
    "SELECT 1 UNION ALL SELECT 2\n",
    "SELECT 1 INTERSECT SELECT 2\n",
    "SELECT 1 EXCEPT SELECT 2\n",
    "SELECT 1 MINUS SELECT 2\n",
    "WITH RECURSIVE c AS (SELECT 1) SELECT * FROM c\n",
    "WITH c AS (SELECT 1) SELECT * FROM c\n",
    "SELECT a FROM t GROUP BY ROLLUP (a)\n",
    "SELECT a FROM t GROUP BY CUBE (a)\n",
    "SELECT a FROM t GROUP BY GROUPING SETS ((a), ())\n",
    "SELECT INTERVAL '1' DAY\n",
    "SELECT DATE '2020-01-01', TIME '10:00', TIMESTAMP '2020-01-01 10:00'\n",
    "SELECT a IS NOT NULL, b IS DISTINCT FROM c, d LIKE 'x' ESCAPE '\\\\', e BETWEEN 1 AND 2, f ILIKE 'y', g RLIKE 'z' FROM t\n",
    "SELECT EXISTS (SELECT 1), NOT a, a AND b OR c FROM t\n",
    "SELECT a FROM t QUALIFY row_number() OVER (ORDER BY a) = 1\n",
    "SELECT ARRAY[1, 2], a[1] FROM t\n",
    "SELECT * FROM t FOR UPDATE\n",
    "SELECT * FROM UNNEST(a) WITH ORDINALITY\n",
    "SELECT * FROM t PIVOT (sum(a) FOR b IN (1, 2))\n",
    "VALUES (1, 2), (3, 4)\n",
    "CREATE TABLE t (a int NOT NULL PRIMARY KEY, b varchar(10) DEFAULT 'x' UNIQUE REFERENCES u (b) ON DELETE CASCADE, c int COMMENT 'c', CONSTRAINT k FOREIGN KEY (a) REFERENCES v (a) ON UPDATE SET NULL, CHECK (a > 0))\n",
    "CREATE TABLE t (a int AUTO_INCREMENT) COMMENT 'x'\n",
    "CREATE TABLE t LIKE u\n",
    "CREATE EXTERNAL TABLE t (a int)\n",
    "CREATE TABLE IF NOT EXISTS t (a int) WITH (format = 'ORC')\n",
    "CREATE TABLE t (a int) PARTITION BY RANGE (a)\n",
    "CREATE TABLE t (a int) CLUSTER BY (a)\n",
    "CREATE MATERIALIZED VIEW v AS SELECT 1\n",
    "CREATE TEMP VIEW v AS SELECT 1\n",
    "CREATE UNIQUE INDEX i ON t (a)\n",
    "ALTER TABLE t ADD CONSTRAINT k PRIMARY KEY (a)\n",
    "ALTER TABLE t MODIFY COLUMN a int FIRST\n",
    "ANALYZE TABLE t COMPUTE STATISTICS\n",
    "CALL p(1)\n",
    "PREPARE s FROM 'select 1'\n",
    "EXECUTE s\n",
    "COPY t FROM 's3://x'\n",
    "UNLOAD ('select 1') TO 's3://x'\n",
    "SHOW TABLES\n",
    "DECLARE x int\n",
    "CREATE TYPE x AS ENUM ('a')\n",
    "COMMENT ON TABLE t IS 'x'\n",
    "VACUUM t\n",
    "REFRESH MATERIALIZED VIEW v\n",
    "PRAGMA foo\n",
    "ATTACH DATABASE 'x' AS y\n",
    "REPLACE INTO t VALUES (1)\n",
    "INSERT OR REPLACE INTO t VALUES (1)\n",
    "INSERT INTO t VALUES (1) ON CONFLICT DO NOTHING\n",
    "INSERT INTO t VALUES (1) RETURNING a\n",
    "UPDATE t SET a = 1 FROM u WHERE t.b = u.b RETURNING a\n",
    "DELETE FROM t USING u WHERE t.a = u.a\n",
    "SELECT a FROM t WHERE b = ANY (SELECT 1)\n",
    "SELECT a COLLATE x FROM t\n",
    "SELECT a AT TIME ZONE 'UTC' FROM t\n",
    "SELECT TRIM(BOTH 'x' FROM a), SUBSTRING(a FROM 1 FOR 2), POSITION('a' IN b), OVERLAY(a PLACING b FROM 1) FROM t\n",
    "SELECT LISTAGG(a, ',') WITHIN GROUP (ORDER BY a) FROM t\n",
    "SELECT first_value(a) IGNORE NULLS OVER (ORDER BY b RANGE BETWEEN 1 PRECEDING AND 1 FOLLOWING EXCLUDE CURRENT ROW) FROM t\n",
];

/// Does the parse of `sql` under a freshly built dialect `d` block?  (`Some` = it never returned.)
pub fn parse_hangs_fresh(d: &str, sql: &str) -> Option<Hang> {
    let (d, sql) = (d.to_string(), sql.to_string());
    match watched(parse_limit(), move || {
        let dialect = dialect_of(&d);
        let _ = parse_with(&dialect, &sql);
    }) {
        Watched::Done(()) => None,
        Watched::Hung(h) => Some(h),
    }
}

/// How a parse shows a hint computation that does not end: it blocks, or it aborts with the
/// self-reference panic of `Ref::simple`.
pub enum ParseBad {
    Hang(Hang),
    SelfRef(String),
}
pub fn parse_bad_fresh(d: &str, sql: &str) -> Option<ParseBad> {
    let (d, sql) = (d.to_string(), sql.to_string());
    match watched(parse_limit(), move || {
        let dialect = dialect_of(&d);
        parse_with(&dialect, &sql)
    }) {
        Watched::Done(Err(msg)) if msg.contains("Self referential grammar") => Some(ParseBad::SelfRef(trunc(&msg, 200))),
        Watched::Done(_) => None,
        Watched::Hung(h) if h.verdict == "deadlock" => Some(ParseBad::Hang(h)),
        Watched::Hung(_) => None,
    }
}

/// Smaller SQL that still blocks the parser: the first single statement of a fixture that does, then
/// the shortest prefix (in words) of it found by a few bisection steps.  Every probe uses a fresh dialect.
pub fn shrink_hanging_sql(d: &str, sql: &str, h: &Hang) -> (String, Hang) {
    let mut best = (sql.to_string(), h.clone());
    if std::env::var("SQV_C14_NO_SHRINK").is_ok() {
        return best;
    }
    let stmts: Vec<&str> = sql.split(';').map(|s| s.trim()).filter(|s| !s.is_empty()).collect();
    if stmts.len() > 1 {
        for st in stmts.iter().take(24) {
            let cand = format!("{}\n", st);
            if let Some(h2) = parse_hangs_fresh(d, &cand) {
                best = (cand, h2);
                break;
            }
        }
    }
    let words: Vec<String> = best.0.split_whitespace().map(|w| w.to_string()).collect();
    let (mut lo, mut hi) = (1usize, words.len()); // prefix of `hi` words blocks
    let mut probes = 0;
    while lo < hi && probes < 6 {
        let mid = (lo + hi) / 2;
        let cand = format!("{}\n", words[..mid].join(" "));
        probes += 1;
        match parse_hangs_fresh(d, &cand) {
            Some(h2) => {
                hi = mid;
                best = (cand, h2);
            }
            None => lo = mid + 1,
        }
    }
    best
}

/// after this many parses of one dialect that never returned, its remaining items are skipped
const MAX_SQL_HANGS: usize = 12;

/// For every dialect: run corpus files (own and foreign) and probe statements through the real
/// parser (each parse on a watched helper thread) and collect, per dangling reference, the shortest
/// SQL whose parse aborts in `Dialect::ref`, and per dialect the SQL whose parse never returns.
pub fn synthesise_sql(dialects: &[&str], thorough: bool, out: &mut Out) -> Synth {
    // SQV_C14_NO_CORPUS: self-test of the grammar-directed generator (no fixture, no probe statement)
    let no_corpus = std::env::var("SQV_C14_NO_CORPUS").is_ok();
    let files = if no_corpus { vec![] } else { corpus() };
    let mut items: Vec<(String, String)> = vec![];
    for d in dialects {
        for p in PROBES {
            if no_corpus {
                break;
            }
            items.push((d.to_string(), p.to_string()));
        }
        for (i, f) in files.iter().enumerate() {
            if f.text.len() > 6000 {
                continue;
            }
            if thorough || f.dialect == *d || f.dialect == "ansi" || i % 4 == 0 {
                items.push((d.to_string(), f.text.clone()));
            }
        }
    }
    let hits = Mutex::new(BTreeMap::<String, String>::new());
    let hangs = Mutex::new(BTreeMap::<String, Vec<(String, Hang)>>::new());
    let selfref = Mutex::new(BTreeMap::<String, Vec<(String, String)>>::new());
    let cache = Mutex::new(HashMap::<String, Arc<Dialect>>::new());
    par_run(
        out,
        &items,
        || (),
        |_, (d, sql), buf| {
            if hangs.lock().unwrap().get(d).map(|v| v.len() >= MAX_SQL_HANGS).unwrap_or(false) {
                buf.count("synth_skipped_after_hangs", 1);
                return;
            }
            let dialect = {
                let mut c = cache.lock().unwrap();
                c.entry(d.clone()).or_insert_with(|| Arc::new(dialect_of(d))).clone()
            };
            let sql2 = sql.clone();
            let r = match watched(parse_limit(), move || parse_with(&dialect, &sql2)) {
                Watched::Done(r) => r,
                Watched::Hung(h) => {
                    if h.verdict == "deadlock" {
                        buf.count("synth_parse_hangs", 1);
                        hangs.lock().unwrap().entry(d.clone()).or_default().push((sql.clone(), h));
                    } else {
                        buf.count("synth_parse_over_limit", 1);
                    }
                    return;
                }
            };
            buf.count("synth_parses", 1);
            if let Err(msg) = r {
                if msg.contains("Self referential grammar") {
                    buf.count("synth_selfref_panics", 1);
                    selfref.lock().unwrap().entry(d.clone()).or_default().push((sql.clone(), trunc(&msg, 200)));
                }
                let name = if let Some(i) = msg.find("Grammar refers to the '") {
                    let rest = &msg[i + 23..];
                    rest.find('\'').map(|j| format!("{}KeywordSegment", &rest[..j]))
                } else if let Some(i) = msg.find("Grammar refers to '") {
                    let rest = &msg[i + 19..];
                    rest.find('\'').map(|j| rest[..j].to_string())
                } else {
                    None
                };
                if let Some(name) = name {
                    buf.count("synth_aborts", 1);
                    let key = format!("{}:{}", d, name);
                    let mut h = hits.lock().unwrap();
                    let e = h.entry(key).or_insert_with(|| sql.clone());
                    if sql.len() < e.len() {
                        *e = sql.clone();
                    }
                }
            }
        },
    );
    // every SQL kept was seen blocking twice: in the sweep above and alone on a dialect built for it
    let swept = hangs.into_inner().unwrap();
    let mut hangs: BTreeMap<String, Vec<(String, Hang)>> = BTreeMap::new();
    let confirmed: Vec<(String, Vec<(String, Hang)>, usize)> = std::thread::scope(|sc| {
        let hs: Vec<_> = swept
            .into_iter()
            .map(|(d, mut v)| {
                sc.spawn(move || {
                    v.sort_by_key(|(s, _)| s.len());
                    let mut kept: Vec<(String, Hang)> = vec![];
                    let mut unconfirmed = 0usize;
                    for (sql, _) in v.iter().take(4) {
                        match parse_hangs_fresh(&d, sql) {
                            Some(h) => kept.push((sql.clone(), h)),
                            None => unconfirmed += 1,
                        }
                    }
                    if let Some((sql, h)) = kept.first().cloned() {
                        let (small, h2) = shrink_hanging_sql(&d, &sql, &h);
                        if small != sql {
                            kept.insert(0, (small, h2));
                        }
                    }
                    (d, kept, unconfirmed)
                })
            })
            .collect();
        hs.into_iter().filter_map(|h| h.join().ok()).collect()
    });
    let mut buf = Buf::default();
    for (d, kept, unconfirmed) in confirmed {
        buf.count("synth_parse_hangs_not_confirmed", unconfirmed);
        if !kept.is_empty() {
            hangs.insert(d, kept);
        }
    }
    out.absorb(buf);
    let mut selfref = selfref.into_inner().unwrap();
    for v in selfref.values_mut() {
        v.sort_by_key(|(s, _)| s.len());
        v.truncate(4);
    }
    Synth { aborts: hits.into_inner().unwrap(), hangs, selfref }
}

/// The watchdog is tested on every run against the very mechanism it is there for: a `OnceLock` that is
/// initialised again from its own initialiser (what `Ref::simple` does on a left-corner self reference).
/// std documents the outcome as unspecified ("the current implementation deadlocks"); the model's `SHang`
/// and the absence of observed hangs both rest on it, so it is a blocking hypothesis.
pub fn watchdog_selftest() -> (bool, Value) {
    let t0 = Instant::now();
    let w = watched(Duration::from_secs(20), || {
        let cell: Arc<std::sync::OnceLock<u32>> = Arc::new(std::sync::OnceLock::new());
        let c2 = cell.clone();
        catch(move || *cell.get_or_init(|| *c2.get_or_init(|| 1) + 1))
    });
    let ms = t0.elapsed().as_millis() as u64;
    match w {
        Watched::Hung(h) => (h.verdict == "deadlock", json!({"reentrant_OnceLock": h.text(), "verdict": h.verdict, "detected_after_ms": ms})),
        Watched::Done(r) => (false, json!({"reentrant_OnceLock": format!("returned {:?}: std no longer blocks on re-entrant initialisation; the model's SHang and this watchdog need revisiting", r)})),
    }
}

pub fn main(args: &Args) {
    silence_panics();
    let mut out = Out::new(&args.out);
    let selftest = std::thread::spawn(watchdog_selftest);
    let gen_dir = args.flag("--gen-dir").unwrap_or_else(|| "/tmp/sqv-c14-gen".into());
    std::fs::create_dir_all(&gen_dir).unwrap();
    let known: Vec<String> = args.flag("--known").map(|s| s.split(',').filter(|x| !x.is_empty()).map(|x| x.to_string()).collect()).unwrap_or_default();
    let only: Option<String> = args.flag("--dialect");

    if let Some(path) = args.flag("--replay-input") {
        // re-run one direct observation: {"dialect":..,"reference":..,"sql_that_aborts":..}
        let v: Value = serde_json::from_str(&std::fs::read_to_string(path).unwrap()).unwrap();
        let d = v["dialect"].as_str().unwrap_or("ansi").to_string();
        let dialect = dialect_of(&d);
        let mut buf = Buf::default();
        if let Some(r) = v["reference"].as_str() {
            let ok = catch(|| dialect.r#ref(r)).is_ok();
            buf.direct("replay-reference", ok, &format!("{}:{}", d, r), "reference does not resolve", v.clone());
        }
        if let Some(sql) = v["sql_that_aborts"].as_str() {
            let r = parse_with(&dialect, sql);
            buf.direct("replay-sql", r.is_ok(), &format!("{}:{}", d, v["reference"].as_str().unwrap_or("?")), &format!("{:?}", r.err()), v.clone());
        }
        // {"dialect":.., "hint_node": n, "hint_node_is": "Ref(X)#n", "n_nodes": .., "sql_whose_parse_hangs": ..}
        if let (Some(n), Some(is)) = (v["hint_node"].as_u64(), v["hint_node_is"].as_str()) {
            let desc = is.split('#').next().unwrap_or("");
            let nn = v["n_nodes"].as_u64().map(|x| x as usize).unwrap_or_else(|| Graph::build(&d, &dialect).nodes.len());
            let (ok, msg) = match fresh_simple(&d, n as usize, nn, desc) {
                Watched::Done(Ok(Ok(_))) => (true, String::new()),
                Watched::Done(Ok(Err(p))) => (!p.contains("Self referential"), format!("simple() panics: {}", p)),
                Watched::Done(Err(why)) => (true, why),
                Watched::Hung(h) => (false, format!("simple() of {} {}", is, h.text())),
            };
            buf.direct("replay-hint", ok, &format!("{}:hint:{}", d, desc), &msg, v.clone());
        }
        if let Some(sql) = v["sql_whose_parse_aborts_self_referential"].as_str() {
            let r = parse_with(&dialect, sql);
            let bad = matches!(&r, Err(m) if m.contains("Self referential grammar"));
            buf.direct("replay-parse-no-selfref-abort", !bad, &format!("{}:parse-selfref", d), &format!("{:?}", r.err()), v.clone());
        }
        if let Some(sql) = v["sql_whose_parse_hangs"].as_str() {
            let h = parse_hangs_fresh(&d, sql);
            buf.direct("replay-parse-returns", h.is_none(), &format!("{}:parse-hang", d), &h.map(|h| format!("the parse {}", h.text())).unwrap_or_default(), v.clone());
        }
        out.absorb(buf);
        out.finish();
        return;
    }

    let dialects: Vec<&str> = DIALECTS.iter().copied().filter(|d| only.as_deref().map(|o| o == *d).unwrap_or(true)).collect();
    let hits = synthesise_sql(&dialects, args.thorough(), &mut out);
    let reports = std::sync::Mutex::new(Vec::<DialectReport>::new());
    par_run(
        &mut out,
        &dialects,
        || (),
        |_, d, buf| {
            let rep = analyse(d, &known, &hits, buf);
            std::fs::write(format!("{}/Grammar_{}.v", gen_dir, d), &rep.text).unwrap();
            std::fs::write(format!("{}/Grammar_{}.strs.json", gen_dir, d), serde_json::to_string(&rep.strs).unwrap()).unwrap();
            reports.lock().unwrap().push(rep);
        },
    );
    {
        let (ok, v) = selftest.join().unwrap_or((false, json!("self-test thread panicked")));
        let mut b = Buf::default();
        b.hyp("watchdog_sees_reentrant_oncelock", "blocking", ok, v.clone());
        out.absorb(b);
        out.stat(json!({"watchdog_selftest": v}));
    }
    let mut reports = reports.into_inner().unwrap();
    reports.sort_by(|a, b| a.dialect.cmp(&b.dialect));
    for r in &reports {
        out.stat(r.stats.clone());
    }
    out.stat(json!({"sql_synthesised_for": hits.aborts.keys().collect::<Vec<_>>()}));
    if !hits.hangs.is_empty() {
        out.stat(json!({"sql_whose_parse_never_returns": hits.hangs.iter().map(|(d, v)| json!({"dialect": d, "n": v.len(), "shortest": trunc(&v[0].0, 300)})).collect::<Vec<_>>()}));
    }
    out.finish();
}
