//! C14 — every dialect grammar is closed (translator).
//!
//! For each of the 13 dialects built by `kind_to_dialect` the grammar graph is walked through the
//! `cfg(sqruff_verif)` read accessors and written as Gallina terms into `<gen-dir>/Grammar_<d>.v`
//! (node table, library, bracket sets, keyword sets, string table, cache keys, certificates).
//! The same walk observes the property directly on the implementation (real `Dialect::ref` under
//! `catch_unwind` for every reference reachable from `FileSegment`) and records, per node, what
//! the real `Matchable::simple` / `is_optional` answer, so that Coq can compare the Gallina
//! `simple`/`deref` evaluated on the dumped graph with the behaviour of the code.
use std::collections::{BTreeMap, BTreeSet, HashMap, VecDeque};
use std::fmt::Write as _;

use ahash::AHashMap;
use serde_json::{Value, json};
use sqruff_lib_core::dialects::base::Dialect;
use sqruff_lib_core::dialects::init::DialectKind;
use sqruff_lib_core::parser::context::ParseContext;
use sqruff_lib_core::parser::lexer::StringOrTemplate;
use sqruff_lib_core::parser::matchable::{Matchable, MatchableTrait, MatchableTraitImpl};
use sqruff_lib_core::parser::parser::Parser;
use sqruff_lib_core::parser::segments::base::Tables;
use sqruff_lib_core::parser::types::ParseMode;
use sqruff_lib_dialects::kind_to_dialect;

use crate::common::*;

pub fn dialect_of(name: &str) -> Dialect {
    let kind: DialectKind = name.parse().expect("dialect kind");
    kind_to_dialect(&kind).expect("dialect enabled")
}

// ------------------------------------------------------------------------------------ the dump
#[derive(Clone, Debug)]
pub enum Node {
    Ref { name: usize, excl: Option<usize>, terms: Vec<usize>, reset: bool },
    Seq { elems: Vec<usize>, terms: Vec<usize>, greedy: bool },
    Brack { btype: usize, bset: usize, elems: Vec<usize>, terms: Vec<usize>, greedy: bool },
    AnyOf { excl: Option<usize>, elems: Vec<usize>, terms: Vec<usize>, greedy: bool },
    Delim { delim: usize, elems: Vec<usize>, terms: Vec<usize> },
    NodeM { kind: usize, g: usize },
    Str { raws: Vec<usize> },
    Multi { raws: Vec<usize> },
    Typed { types: Vec<usize> },
    Regex,
    Meta,
    Cond,
    Anything { terms: Vec<usize> },
    Nothing,
    NonCode,
    BrackSeg,
}

/// What the real `simple` answered: 0 = Some hint, 1 = None (not simple), 2 = dangling reference
/// panic, 3 = self-reference panic, 4 = other panic.
#[derive(Clone, Debug, PartialEq)]
pub struct RealSimple {
    pub class: u8,
    pub raws: Vec<usize>,
    pub types: Vec<usize>,
    pub msg: String,
}

pub struct Graph {
    pub dialect: String,
    pub strs: Vec<String>,
    str_ids: HashMap<String, usize>,
    pub nodes: Vec<Node>,
    pub handles: Vec<Matchable>,
    ids: HashMap<usize, usize>,
    /// real `is_optional()`: Some(b) or None when it panics (todo!/unimplemented!)
    pub optional: Vec<Option<bool>>,
    /// real `cache_key()`; None when the type has none (panics)
    pub keys: Vec<Option<u32>>,
    pub library: Vec<(usize, usize)>,
    pub brackets: Vec<(usize, Vec<(usize, usize, usize, bool)>)>,
    pub sets: Vec<(usize, Vec<usize>)>,
}

impl Graph {
    pub fn intern(&mut self, s: &str) -> usize {
        if let Some(&i) = self.str_ids.get(s) {
            return i;
        }
        let i = self.strs.len();
        self.strs.push(s.to_string());
        self.str_ids.insert(s.to_string(), i);
        i
    }
    pub fn str_id(&self, s: &str) -> Option<usize> {
        self.str_ids.get(s).copied()
    }
    pub fn deref(&self, name: usize) -> Option<usize> {
        self.library.iter().find(|(n, _)| *n == name).map(|(_, id)| *id)
    }
    fn list(&mut self, ms: &[Matchable]) -> Vec<usize> {
        ms.iter().map(|m| self.add(m)).collect()
    }
    pub fn add(&mut self, m: &Matchable) -> usize {
        let p = m.verif_ptr();
        if let Some(&i) = self.ids.get(&p) {
            return i;
        }
        let id = self.nodes.len();
        self.ids.insert(p, id);
        self.nodes.push(Node::Nothing);
        self.handles.push(m.clone());
        self.optional.push(catch(|| m.is_optional()).ok());
        self.keys.push(catch(|| m.cache_key()).ok());
        let greedy = |pm: ParseMode| pm != ParseMode::Strict;
        let node = match m.verif_inner() {
            MatchableTraitImpl::Ref(r) => {
                let name = self.intern(r.verif_reference());
                let excl = r.verif_exclude().map(|e| self.add(e));
                let terms = self.list(r.verif_terminators());
                Node::Ref { name, excl, terms, reset: r.verif_reset_terminators() }
            }
            MatchableTraitImpl::Sequence(s) => {
                let elems = self.list(s.verif_elements());
                let terms = self.list(&s.terminators);
                Node::Seq { elems, terms, greedy: greedy(s.parse_mode) }
            }
            MatchableTraitImpl::Bracketed(b) => {
                let btype = self.intern(b.bracket_type);
                let bset = self.intern(b.bracket_pairs_set);
                let elems = self.list(b.this.verif_elements());
                let terms = self.list(&b.this.terminators);
                Node::Brack { btype, bset, elems, terms, greedy: greedy(b.this.parse_mode) }
            }
            MatchableTraitImpl::AnyNumberOf(a) => {
                let excl = a.exclude.as_ref().map(|e| self.add(e));
                let elems = self.list(a.verif_elements());
                let terms = self.list(&a.terminators);
                Node::AnyOf { excl, elems, terms, greedy: greedy(a.parse_mode) }
            }
            MatchableTraitImpl::Delimited(d) => {
                let delim = self.add(d.verif_delimiter());
                let elems = self.list(d.base.verif_elements());
                let terms = self.list(&d.base.terminators);
                Node::Delim { delim, elems, terms }
            }
            MatchableTraitImpl::NodeMatcher(n) => {
                let kind = n.get_type() as u16 as usize;
                let g = self.add(n.verif_match_grammar());
                Node::NodeM { kind, g }
            }
            MatchableTraitImpl::StringParser(s) => {
                let mut raws: Vec<String> = s.verif_simple().iter().cloned().collect();
                raws.sort();
                Node::Str { raws: raws.iter().map(|r| self.intern(r)).collect() }
            }
            MatchableTraitImpl::MultiStringParser(s) => {
                let mut raws: Vec<String> = s.verif_simple().iter().cloned().collect();
                raws.sort();
                Node::Multi { raws: raws.iter().map(|r| self.intern(r)).collect() }
            }
            MatchableTraitImpl::TypedParser(t) => Node::Typed { types: t.verif_target_types().iter().map(|k| k as u16 as usize).collect() },
            MatchableTraitImpl::RegexParser(_) => Node::Regex,
            MatchableTraitImpl::MetaSegment(_) => Node::Meta,
            MatchableTraitImpl::Conditional(_) => Node::Cond,
            MatchableTraitImpl::Anything(a) => Node::Anything { terms: self.list(a.verif_terminators()) },
            MatchableTraitImpl::Nothing(_) => Node::Nothing,
            MatchableTraitImpl::NonCodeMatcher(_) => Node::NonCode,
            MatchableTraitImpl::BracketedSegmentMatcher(_) => Node::BrackSeg,
        };
        self.nodes[id] = node;
        id
    }

    pub fn build(dialect_name: &str, dialect: &Dialect) -> Graph {
        let mut g = Graph {
            dialect: dialect_name.to_string(),
            strs: vec![],
            str_ids: HashMap::new(),
            nodes: vec![],
            handles: vec![],
            ids: HashMap::new(),
            optional: vec![],
            keys: vec![],
            library: vec![],
            brackets: vec![],
            sets: vec![],
        };
        // fixed ids for the names the engine itself looks up
        g.intern("FileSegment");
        g.intern("bracket_pairs");
        g.intern("angle_bracket_pairs");
        let mut lib: Vec<(&str, Option<&Matchable>)> = dialect.verif_library().collect();
        lib.sort_by(|a, b| a.0.cmp(b.0));
        for (name, m) in lib {
            let n = g.intern(name);
            if let Some(m) = m {
                let id = g.add(m);
                g.library.push((n, id));
            }
        }
        let mut bsets: Vec<&&'static str> = dialect.bracket_collections.keys().collect();
        bsets.sort();
        for label in bsets {
            let mut pairs: Vec<_> = dialect.bracket_collections[*label].iter().cloned().collect();
            pairs.sort();
            let l = g.intern(label);
            let ps = pairs.iter().map(|(t, s, e, p)| (g.intern(t), g.intern(s), g.intern(e), *p)).collect();
            g.brackets.push((l, ps));
        }
        let mut sets: Vec<(&'static str, Vec<&'static str>)> = dialect.verif_sets().map(|(k, v)| (k, v.iter().copied().collect())).collect();
        sets.sort();
        for (label, mut kws) in sets {
            kws.sort();
            let l = g.intern(label);
            let ks = kws.iter().map(|k| g.intern(k)).collect();
            g.sets.push((l, ks));
        }
        g
    }

    /// names looked up through `Dialect::ref` when the interpreter executes node `n`
    /// (mirror of Grammar/Model.v `node_refs`), and the bracket-type lookup failure if any.
    pub fn node_refs(&self, n: usize) -> (Vec<usize>, bool) {
        let bp = 1usize; // "bracket_pairs"
        let all_pairs = |set: usize| -> Vec<usize> {
            self.brackets.iter().filter(|(l, _)| *l == set).flat_map(|(_, ps)| ps.iter().flat_map(|p| [p.1, p.2])).collect()
        };
        match &self.nodes[n] {
            Node::Ref { name, .. } => (vec![*name], true),
            Node::Brack { btype, bset, greedy, .. } => {
                let mut v = vec![];
                let mut found = false;
                for (l, ps) in &self.brackets {
                    if l == bset {
                        if let Some(p) = ps.iter().find(|p| p.0 == *btype) {
                            v.push(p.1);
                            v.push(p.2);
                            found = true;
                        }
                    }
                }
                if *greedy {
                    v.extend(all_pairs(bp));
                }
                (v, found)
            }
            Node::Seq { greedy: true, .. } | Node::AnyOf { greedy: true, .. } | Node::Anything { .. } => (all_pairs(bp), true),
            _ => (vec![], true),
        }
    }
    pub fn node_children(&self, n: usize) -> Vec<usize> {
        match &self.nodes[n] {
            Node::Ref { excl, terms, .. } => excl.iter().copied().chain(terms.iter().copied()).collect(),
            Node::Seq { elems, terms, .. } | Node::Brack { elems, terms, .. } => elems.iter().chain(terms.iter()).copied().collect(),
            Node::AnyOf { excl, elems, terms, .. } => excl.iter().copied().chain(elems.iter().copied()).chain(terms.iter().copied()).collect(),
            Node::Delim { delim, elems, terms } => std::iter::once(*delim).chain(elems.iter().copied()).chain(terms.iter().copied()).collect(),
            Node::NodeM { g, .. } => vec![*g],
            Node::Anything { terms } => terms.clone(),
            _ => vec![],
        }
    }
    /// nodes that `simple` of `n` may recurse into (mirror of `lc_children`).
    pub fn lc_children(&self, n: usize) -> Vec<usize> {
        match &self.nodes[n] {
            Node::Ref { name, .. } => self.deref(*name).into_iter().collect(),
            Node::Seq { elems, .. } => {
                let mut v = vec![];
                for &e in elems {
                    v.push(e);
                    if self.optional[e] != Some(true) {
                        break;
                    }
                }
                v
            }
            Node::AnyOf { elems, .. } | Node::Delim { elems, .. } => elems.clone(),
            Node::Brack { .. } => {
                let (refs, found) = self.node_refs(n);
                if found { refs.first().and_then(|s| self.deref(*s)).into_iter().collect() } else { vec![] }
            }
            Node::NodeM { g, .. } => vec![*g],
            _ => vec![],
        }
    }
    /// BFS from FileSegment; returns parent pointers (node -> (parent, via)) in visit order.
    pub fn reach(&self) -> (Vec<usize>, HashMap<usize, (usize, String)>) {
        let mut order = vec![];
        let mut parent: HashMap<usize, (usize, String)> = HashMap::new();
        let Some(root) = self.deref(0) else { return (order, parent) };
        let mut seen = BTreeSet::new();
        let mut q = VecDeque::new();
        seen.insert(root);
        q.push_back(root);
        while let Some(n) = q.pop_front() {
            order.push(n);
            for c in self.node_children(n) {
                if seen.insert(c) {
                    parent.insert(c, (n, "child".into()));
                    q.push_back(c);
                }
            }
            for name in self.node_refs(n).0 {
                if let Some(t) = self.deref(name) {
                    if seen.insert(t) {
                        parent.insert(t, (n, format!("ref {}", self.strs[name])));
                        q.push_back(t);
                    }
                }
            }
        }
        (order, parent)
    }
    pub fn path_to(&self, parent: &HashMap<usize, (usize, String)>, n: usize) -> Vec<usize> {
        let mut p = vec![n];
        let mut cur = n;
        while let Some((q, _)) = parent.get(&cur) {
            p.push(*q);
            cur = *q;
        }
        p.reverse();
        p
    }
    pub fn describe(&self, n: usize) -> String {
        match &self.nodes[n] {
            Node::Ref { name, .. } => format!("Ref({})", self.strs[*name]),
            Node::Seq { .. } => "Sequence".into(),
            Node::Brack { btype, .. } => format!("Bracketed({})", self.strs[*btype]),
            Node::AnyOf { .. } => "AnyNumberOf".into(),
            Node::Delim { .. } => "Delimited".into(),
            Node::NodeM { g: _, kind } => {
                let names: Vec<&str> = self.library.iter().filter(|(_, id)| *id == n).map(|(s, _)| self.strs[*s].as_str()).collect();
                format!("NodeMatcher(kind {}{})", kind, if names.is_empty() { String::new() } else { format!(" = {}", names.join("/")) })
            }
            Node::Str { raws } => format!("StringParser({})", raws.iter().map(|r| self.strs[*r].clone()).collect::<Vec<_>>().join("|")),
            Node::Multi { .. } => "MultiStringParser".into(),
            Node::Typed { .. } => "TypedParser".into(),
            Node::Regex => "RegexParser".into(),
            Node::Meta => "MetaSegment".into(),
            Node::Cond => "Conditional".into(),
            Node::Anything { .. } => "Anything".into(),
            Node::Nothing => "Nothing".into(),
            Node::NonCode => "NonCodeMatcher".into(),
            Node::BrackSeg => "BracketedSegmentMatcher".into(),
        }
    }
    /// longest-path rank over the left-corner graph (certificate for termination of `simple`);
    /// None for nodes on or above a left-corner cycle.
    pub fn ranks(&self) -> Vec<Option<usize>> {
        let n = self.nodes.len();
        let mut rank: Vec<Option<usize>> = vec![None; n];
        let mut state = vec![0u8; n]; // 0 new, 1 on stack, 2 done
        for s in 0..n {
            if state[s] != 0 {
                continue;
            }
            // iterative DFS
            let mut stack: Vec<(usize, Vec<usize>, usize)> = vec![(s, self.lc_children(s), 0)];
            state[s] = 1;
            while let Some((v, ch, i)) = stack.last_mut() {
                if *i < ch.len() {
                    let c = ch[*i];
                    *i += 1;
                    if state[c] == 0 {
                        state[c] = 1;
                        let cc = self.lc_children(c);
                        stack.push((c, cc, 0));
                    }
                } else {
                    let v = *v;
                    let mut r = Some(0usize);
                    for &c in ch.iter() {
                        r = match (r, if state[c] == 2 { rank[c] } else { None }) {
                            (Some(a), Some(b)) => Some(a.max(b + 1)),
                            _ => None,
                        };
                    }
                    rank[v] = r;
                    state[v] = 2;
                    stack.pop();
                }
            }
        }
        rank
    }
}

pub fn real_simple(g: &mut Graph, dialect: &Dialect, n: usize) -> RealSimple {
    let cfg: AHashMap<String, bool> = AHashMap::new();
    let cx = ParseContext::new(dialect, &cfg);
    let h = g.handles[n].clone();
    match catch(|| h.simple(&cx, None)) {
        Ok(Some((raws, types))) => {
            let mut rs: Vec<String> = raws.into_iter().collect();
            rs.sort();
            let raws = rs.iter().map(|r| g.intern(r)).collect();
            let mut ts: Vec<usize> = types.iter().map(|k| k as u16 as usize).collect();
            ts.sort();
            RealSimple { class: 0, raws, types: ts, msg: String::new() }
        }
        Ok(None) => RealSimple { class: 1, raws: vec![], types: vec![], msg: String::new() },
        Err(msg) => {
            let class = if msg.contains("Grammar refers to") {
                2
            } else if msg.contains("Self referential") {
                3
            } else {
                4
            };
            RealSimple { class, raws: vec![], types: vec![], msg: trunc(&msg, 120) }
        }
    }
}

// ------------------------------------------------------------------------------------ Gallina
fn gl(xs: &[usize]) -> String {
    g_list(xs.iter().map(|x| x.to_string()))
}
fn gopt(x: &Option<usize>) -> String {
    match x {
        Some(v) => format!("(Some {})", v),
        None => "None".into(),
    }
}
fn gnode(n: &Node) -> String {
    match n {
        Node::Ref { name, excl, terms, reset } => format!("NRef {} {} {} {}", name, gopt(excl), gl(terms), g_bool(*reset)),
        Node::Seq { elems, terms, greedy } => format!("NSeq {} {} {}", gl(elems), gl(terms), g_bool(*greedy)),
        Node::Brack { btype, bset, elems, terms, greedy } => format!("NBrack {} {} {} {} {}", btype, bset, gl(elems), gl(terms), g_bool(*greedy)),
        Node::AnyOf { excl, elems, terms, greedy } => format!("NAnyOf {} {} {} {}", gopt(excl), gl(elems), gl(terms), g_bool(*greedy)),
        Node::Delim { delim, elems, terms } => format!("NDelim {} {} {}", delim, gl(elems), gl(terms)),
        Node::NodeM { kind, g } => format!("NNode {} {}", kind, g),
        Node::Str { raws } => format!("NStr {}", gl(raws)),
        Node::Multi { raws } => format!("NMulti {}", gl(raws)),
        Node::Typed { types } => format!("NTyped {}", gl(types)),
        Node::Regex => "NRegex".into(),
        Node::Meta => "NMeta".into(),
        Node::Cond => "NCond".into(),
        Node::Anything { terms } => format!("NAnything {}", gl(terms)),
        Node::Nothing => "NNothing".into(),
        Node::NonCode => "NNonCode".into(),
        Node::BrackSeg => "NBrackSeg".into(),
    }
}
fn gopt_bool(b: &Option<bool>) -> &'static str {
    match b {
        Some(true) => "(Some true)",
        Some(false) => "(Some false)",
        None => "None",
    }
}

pub struct DialectReport {
    pub dialect: String,
    pub text: String,
    pub n_nodes: usize,
    pub n_reach: usize,
    pub n_refs: usize,
    pub n_obligations: usize,
    pub dangling: Vec<Value>,
    pub stats: Value,
    pub strs: Vec<String>,
}

/// Everything about one dialect: graph, direct observations, generated Coq file.
pub fn analyse(name: &str, known: &[String], corpus_hits: &BTreeMap<String, String>, buf: &mut Buf) -> DialectReport {
    let dialect = dialect_of(name);
    let mut g = Graph::build(name, &dialect);
    let n_nodes = g.nodes.len();

    // real simple of every node (also interns the raws it returns)
    let mut simples: Vec<RealSimple> = vec![];
    for n in 0..n_nodes {
        let s = real_simple(&mut g, &dialect, n);
        simples.push(s);
    }

    // reachability + direct observation of Dialect::ref on every reachable reference
    let (order, parent) = g.reach();
    let root_ok = g.deref(0).is_some();
    buf.direct("root", root_ok, &format!("{}:FileSegment", name), "FileSegment is not defined", json!({"dialect": name}));
    let mut dangling: BTreeMap<usize, usize> = BTreeMap::new(); // name -> first node using it
    let mut n_refs = 0usize;
    let mut ref_names: BTreeSet<usize> = BTreeSet::new();
    let mut bad_bracket: Vec<usize> = vec![];
    for &n in &order {
        let (refs, found) = g.node_refs(n);
        if !found {
            bad_bracket.push(n);
        }
        for r in refs {
            n_refs += 1;
            ref_names.insert(r);
        }
    }
    for &r in &ref_names {
        let nm = g.strs[r].clone();
        let real = catch(|| dialect.r#ref(&nm));
        let model = g.deref(r);
        // translator fidelity: the dumped library answers like the real lookup
        buf.hyp("dump_deref_agrees", "blocking", real.is_ok() == model.is_some(), json!({"dialect": name, "name": nm}));
        if real.is_err() {
            let user = order.iter().copied().find(|&n| g.node_refs(n).0.contains(&r)).unwrap();
            dangling.insert(r, user);
        }
    }
    let mut dangling_json = vec![];
    let mut known_paths: Vec<(usize, Vec<usize>)> = vec![];
    for (&r, &user) in &dangling {
        let nm = g.strs[r].clone();
        let path = g.path_to(&parent, user);
        let key = format!("{}:{}", name, nm);
        let path_txt: Vec<String> = path.iter().map(|&p| format!("{}#{}", g.describe(p), p)).collect();
        let sql = corpus_hits.get(&key).cloned();
        let input = json!({"dialect": name, "reference": nm, "used_by_node": user, "path_from_FileSegment": path_txt, "sql_that_aborts": sql});
        buf.direct("reachable-reference", false, &key, &format!("grammar of dialect {} refers to '{}' which is not in the dialect (reachable from FileSegment)", name, nm), input.clone());
        dangling_json.push(input);
        if known.iter().any(|k| *k == key) {
            known_paths.push((r, path));
        }
    }
    for _ in 0..(ref_names.len() - dangling.len()) {
        buf.direct("reachable-reference", true, "", "", Value::Null);
    }
    for &n in &bad_bracket {
        let key = format!("{}:bracket#{}", name, g.describe(n));
        buf.direct("bracket-type", false, &key, "bracket type not in its bracket set", json!({"dialect": name, "node": n, "path": g.path_to(&parent, n)}));
    }
    // known names that are no longer dangling: give Coq an empty path so that the stale entry fails
    let mut known_ids: Vec<usize> = vec![];
    for k in known {
        if let Some(rest) = k.strip_prefix(&format!("{}:", name)) {
            let id = g.intern(rest);
            known_ids.push(id);
            if !known_paths.iter().any(|(r, _)| *r == id) {
                known_paths.push((id, vec![]));
            }
        }
    }

    // termination certificate
    let ranks = g.ranks();
    for &n in &order {
        let ok = ranks[n].is_some();
        if !ok {
            buf.direct("simple-terminates", false, &format!("{}:leftcorner-cycle#{}", name, g.describe(n)), "first-token hint recursion does not terminate (left-corner cycle)", json!({"dialect": name, "node": n, "path": g.path_to(&parent, n)}));
        }
    }
    buf.direct("simple-terminates", order.iter().all(|&n| ranks[n].is_some()), &format!("{}:leftcorner", name), "", Value::Null);

    // absent-name samples for the deref tie
    let mut probes: Vec<(usize, bool)> = vec![];
    let lib_names: Vec<usize> = g.library.iter().map(|(n, _)| *n).collect();
    for &nm in &lib_names {
        probes.push((nm, true));
    }
    for extra in ["NoSuchSegment", "ZzzKeywordSegment", "fileSegment", "", "FileSegment "] {
        let id = g.intern(extra);
        let real = catch(|| dialect.r#ref(extra)).is_ok();
        probes.push((id, real));
    }
    for &r in &ref_names {
        if !lib_names.contains(&r) {
            probes.push((r, false));
        }
    }

    // ---------------- emit
    let d = name;
    let mut t = String::with_capacity(1 << 20);
    let _ = writeln!(t, "(* generated by `sqv c14` from the freshly built dialect `{}` -- do not edit *)", d);
    t.push_str("From Sq Require Import Base.Bytes Grammar.Model Grammar.Proofs.\nOpen Scope N_scope.\n");
    let _ = writeln!(t, "(* string table: {} interned strings, full table in Grammar_{}.strs.json; only the two names the engine itself uses are needed in Coq *)", g.strs.len(), d);
    let _ = writeln!(t, "Definition strs : list (N * str) := [\n{}].", g.strs.iter().enumerate().take(2).map(|(i, s)| format!("({},{})", i, g_str(s))).collect::<Vec<_>>().join(";\n"));
    let _ = writeln!(t, "Definition nodes : list (N * node) := [\n{}].", g.nodes.iter().enumerate().map(|(i, n)| format!("({},{})", i, gnode(n))).collect::<Vec<_>>().join(";\n"));
    let opt_true: Vec<usize> = (0..n_nodes).filter(|&i| g.optional[i] == Some(true)).collect();
    let opt_none: Vec<usize> = (0..n_nodes).filter(|&i| g.optional[i].is_none()).collect();
    let _ = writeln!(t, "(* is_optional(): true for opt_true, panics for opt_none, false for every other node *)");
    let _ = writeln!(t, "Definition opt_true : list N := {}.\nDefinition opt_none : list N := {}.", gl(&opt_true), gl(&opt_none));
    t.push_str("Definition opts : list (N * option bool) := map (fun n => (n, Some true)) opt_true ++ map (fun n => (n, None)) opt_none.\n");
    let _ = writeln!(t, "Definition library : list (N * N) := {}.", g_list(g.library.iter().map(|(a, b)| format!("({},{})", a, b))));
    let _ = writeln!(
        t,
        "Definition brackets : list (N * list (N * N * N * bool)) := {}.",
        g_list(g.brackets.iter().map(|(l, ps)| format!("({},{})", l, g_list(ps.iter().map(|p| format!("({},{},{},{})", p.0, p.1, p.2, g_bool(p.3)))))))
    );
    let _ = writeln!(t, "Definition keyword_sets : list (N * list N) := {}.", g_list(g.sets.iter().map(|(l, ks)| format!("({},{})", l, gl(ks)))));
    let keyed: Vec<usize> = (0..n_nodes).filter(|&i| g.keys[i].is_some()).collect();
    let _ = writeln!(t, "Definition keyed_ids : list N := {}.", gl(&keyed));
    let _ = writeln!(t, "Definition key_vals : list N := {}.", gl(&keyed.iter().map(|&i| g.keys[i].unwrap() as usize).collect::<Vec<_>>()));
    t.push_str("Definition cache_keys : list (N * N) := combine keyed_ids key_vals.\n");
    let _ = writeln!(t, "Definition ranks : list (N * N) := {}.", g_list(ranks.iter().enumerate().filter_map(|(i, r)| r.map(|r| format!("({},{})", i, r)))));
    t.push_str("Definition g : graph := mk_graph nodes opts library brackets.\n");
    let _ = writeln!(t, "Definition known : list N := {}.", gl(&known_ids));
    let _ = writeln!(t, "Definition known_paths : list (N * list N) := {}.", g_list(known_paths.iter().map(|(r, p)| format!("({},{})", r, gl(p)))));
    let _ = writeln!(
        t,
        "Definition real_simple : list (N * sres) := [\n{}].",
        simples
            .iter()
            .enumerate()
            .map(|(i, s)| {
                let v = match s.class {
                    0 => format!("SVal (Some ({},{}))", gl(&s.raws), gl(&s.types)),
                    1 => "SVal None".to_string(),
                    2 => "SDangling".to_string(),
                    3 => "SSelfRef".to_string(),
                    _ => "SPanic".to_string(),
                };
                format!("({},{})", i, v)
            })
            .collect::<Vec<_>>()
            .join(";\n")
    );
    let _ = writeln!(t, "Definition real_deref : list (N * bool) := {}.", g_list(probes.iter().map(|(n, b)| format!("({},{})", n, g_bool(*b)))));
    let fuel = ranks.iter().flatten().max().copied().unwrap_or(0) + 2;
    let _ = writeln!(t, "Definition fuel : nat := N.to_nat {}.", fuel);
    // diagnostics first (printed even when a theorem below fails)
    t.push_str("Eval vm_compute in (101, N.of_nat (length (pset_elements (reach g)))).\n");
    t.push_str("Eval vm_compute in (102, dangling_names g (reach g)).\n");
    t.push_str("Eval vm_compute in (103, simple_mismatches g fuel real_simple).\n");
    t.push_str("Eval vm_compute in (104, deref_mismatches g real_deref).\n");
    t.push_str("Eval vm_compute in (105, unranked g (reach g) ranks).\n");
    // obligations
    let _ = writeln!(t, "Theorem closed_{d} : closed_except_b g known = true.\nProof. vm_compute. reflexivity. Qed.");
    let _ = writeln!(t, "Theorem known_dangling_{d} : forallb (fun kp => path_dangling_b g (snd kp) (fst kp)) known_paths = true.\nProof. vm_compute. reflexivity. Qed.");
    let _ = writeln!(t, "Theorem ranked_{d} : rank_ok_b g (reach g) ranks = true.\nProof. vm_compute. reflexivity. Qed.");
    let _ = writeln!(t, "Theorem simple_agrees_{d} : simple_mismatches g fuel real_simple = [].\nProof. vm_compute. reflexivity. Qed.");
    let _ = writeln!(t, "Theorem deref_agrees_{d} : deref_mismatches g real_deref = [].\nProof. vm_compute. reflexivity. Qed.");
    let _ = writeln!(t, "Theorem strs_distinct_{d} : ids_dense_b strs = true.\nProof. vm_compute. reflexivity. Qed.");
    // the instantiated general theorems
    let _ = writeln!(
        t,
        "Theorem {d}_every_reachable_reference_resolves : forall n, reachable g n -> node_ok_except g known n.\nProof. exact (closed_except_sound g known closed_{d}). Qed."
    );
    let _ = writeln!(
        t,
        "Theorem {d}_simple_terminates : forall n, reachable g n -> exists r, rank_of (mk_ranks ranks) n = Some r /\\ forall f, (N.to_nat r < f)%nat -> simple g f [] n <> SFuel /\\ simple g f [] n <> SSelfRef.\nProof. exact (simple_terminates_reachable g known ranks closed_{d} ranked_{d}). Qed."
    );
    let _ = writeln!(
        t,
        "Theorem {d}_known_are_dangling : forall kp, In kp known_paths -> exists n nd, reachable g n /\\ get_node g n = Some nd /\\ In (fst kp) (node_refs g nd) /\\ deref g (fst kp) = None.\nProof. intros kp H. apply (path_dangling_sound g (snd kp) (fst kp)). exact (proj1 (forallb_forall _ _) known_dangling_{d} kp H). Qed."
    );
    let _ = writeln!(t, "Print Assumptions {d}_every_reachable_reference_resolves.\nPrint Assumptions {d}_simple_terminates.\nPrint Assumptions {d}_known_are_dangling.");

    let n_simple_some = simples.iter().filter(|s| s.class == 0).count();
    let kinds = {
        let mut h: BTreeMap<&'static str, usize> = BTreeMap::new();
        for n in &g.nodes {
            let k = match n {
                Node::Ref { .. } => "Ref",
                Node::Seq { .. } => "Sequence",
                Node::Brack { .. } => "Bracketed",
                Node::AnyOf { .. } => "AnyNumberOf",
                Node::Delim { .. } => "Delimited",
                Node::NodeM { .. } => "NodeMatcher",
                Node::Str { .. } => "StringParser",
                Node::Multi { .. } => "MultiStringParser",
                Node::Typed { .. } => "TypedParser",
                Node::Regex => "RegexParser",
                Node::Meta => "MetaSegment",
                Node::Cond => "Conditional",
                Node::Anything { .. } => "Anything",
                Node::Nothing => "Nothing",
                Node::NonCode => "NonCodeMatcher",
                Node::BrackSeg => "BracketedSegmentMatcher",
            };
            *h.entry(k).or_default() += 1;
        }
        h
    };
    buf.count("nodes", n_nodes);
    buf.count("reachable_nodes", order.len());
    buf.count("reachable_reference_edges", n_refs);
    buf.count("distinct_reachable_reference_names", ref_names.len());
    buf.count("dangling_reachable_names", dangling.len());
    let stats = json!({"dialect": name, "nodes": n_nodes, "library": g.library.len(), "reachable": order.len(), "reference_edges": n_refs,
        "distinct_reference_names": ref_names.len(), "dangling": dangling.keys().map(|r| g.strs[*r].clone()).collect::<Vec<_>>(),
        "simple_some": n_simple_some, "simple_panics": simples.iter().filter(|s| s.class >= 2).count(), "max_rank": fuel - 2, "node_kinds": kinds,
        "reachable_simple_panics": order.iter().filter(|&&n| simples[n].class >= 2).count()});
    DialectReport { dialect: name.to_string(), text: t, n_nodes, n_reach: order.len(), n_refs, n_obligations: 8, dangling: dangling_json, stats, strs: g.strs.clone() }
}

// ------------------------------------------------------------------------------------ SQL synthesis
pub fn ser_tree(seg: &sqruff_lib_core::parser::segments::base::ErasedSegment, out: &mut String) {
    let _ = write!(out, "({}", seg.get_type() as u16);
    if seg.segments().is_empty() {
        let _ = write!(out, " {:?}", seg.raw().as_str());
    } else {
        for c in seg.segments() {
            out.push(' ');
            ser_tree(c, out);
        }
    }
    out.push(')');
}

/// Parse `sql` under `dialect`; Ok(serialised tree) / Err(panic or error message).
pub fn parse_with(dialect: &Dialect, sql: &str) -> Result<String, String> {
    catch(|| {
        let tables = Tables::default();
        let lexer = dialect.lexer();
        let (tokens, _errs) = lexer.lex(&tables, StringOrTemplate::String(sql)).map_err(|e| format!("lex error: {:?}", e))?;
        let parser = Parser::new(dialect, AHashMap::new());
        match parser.parse(&tables, &tokens, None) {
            Ok(Some(tree)) => {
                let mut s = String::new();
                ser_tree(&tree, &mut s);
                Ok(s)
            }
            Ok(None) => Ok("(none)".to_string()),
            Err(e) => Ok(format!("(parse-error {:?})", e.description)),
        }
    })
    .unwrap_or_else(|p| Err(format!("PANIC {}", p)))
}

const PROBES: &[&str] = &[
    "CREATE VIEW v AS SELECT 1 WITH NO SCHEMA BINDING\n",
    "CREATE CAST (int AS bool) WITH FUNCTION fname\n",
    "drop view a restrict\n",
    "CREATE DATABASE d COMMENT 'x'\n",
    "SELECT sum(a) OVER (ORDER BY b RANGE BETWEEN INTERVAL '1' DAY PRECEDING AND CURRENT ROW) FROM t\n",
    "CREATE TABLE t (a int)\n",
    "CREATE TEMPORARY TABLE t (a int)\n",
    "CREATE OR REPLACE TABLE t (a int)\n",
    "CREATE TABLE t AS SELECT 1\n",
    "CREATE VIEW v AS SELECT 1\n",
    "CREATE INDEX i ON t (a)\n",
    "CREATE SCHEMA s\n",
    "CREATE DATABASE d\n",
    "CREATE FUNCTION f() RETURNS int\n",
    "CREATE SEQUENCE s\n",
    "CREATE ROLE r\n",
    "CREATE USER u\n",
    "CREATE TRIGGER tr BEFORE INSERT ON t FOR EACH ROW EXECUTE PROCEDURE f()\n",
    "CREATE MODEL m\n",
    "CREATE EXTENSION e\n",
    "CREATE CAST (int AS text) WITH FUNCTION f\n",
    "DROP TABLE t\n",
    "DROP VIEW v\n",
    "DROP INDEX i\n",
    "DROP SCHEMA s CASCADE\n",
    "DROP FUNCTION f\n",
    "DROP TYPE x\n",
    "DROP ROLE r\n",
    "DROP USER u\n",
    "DROP TRIGGER tr\n",
    "DROP SEQUENCE s\n",
    "DROP MODEL m\n",
    "DROP DATABASE d\n",
    "DROP CAST (int AS text)\n",
    "ALTER TABLE t ADD COLUMN b int\n",
    "ALTER TABLE t DROP COLUMN b\n",
    "ALTER TABLE t RENAME TO u\n",
    "ALTER TABLE t ALTER COLUMN b SET DEFAULT 1\n",
    "ALTER SEQUENCE s INCREMENT BY 2\n",
    "TRUNCATE TABLE t\n",
    "INSERT INTO t (a) VALUES (1)\n",
    "INSERT INTO t DEFAULT VALUES\n",
    "INSERT OVERWRITE t SELECT 1\n",
    "UPDATE t SET a = 1 WHERE b = 2\n",
    "DELETE FROM t WHERE a = 1\n",
    "MERGE INTO t USING s ON t.a = s.a WHEN MATCHED THEN UPDATE SET a = 1 WHEN NOT MATCHED THEN INSERT (a) VALUES (1)\n",
    "GRANT SELECT ON t TO u\n",
    "GRANT ALL PRIVILEGES ON TABLE t TO ROLE r WITH GRANT OPTION\n",
    "REVOKE SELECT ON t FROM u\n",
    "SET x = 1\n",
    "USE d\n",
    "EXPLAIN SELECT 1\n",
    "DESCRIBE t\n",
    "BEGIN TRANSACTION\n",
    "START TRANSACTION\n",
    "COMMIT\n",
    "ROLLBACK\n",
    "COMMIT WORK AND NO CHAIN\n",
    "SELECT a FROM t\n",
    "SELECT DISTINCT a, b FROM t WHERE a IN (1, 2) GROUP BY a HAVING count(*) > 1 ORDER BY a DESC NULLS LAST LIMIT 1 OFFSET 2\n",
    "SELECT a FROM t ORDER BY a NULLS FIRST\n",
    "SELECT a FROM t FETCH FIRST 1 ROWS ONLY\n",
    "SELECT CASE WHEN a THEN 1 ELSE 2 END FROM t\n",
    "SELECT CAST(a AS int) FROM t\n",
    "SELECT a::int FROM t\n",
    "SELECT EXTRACT(year FROM d) FROM t\n",
    "SELECT sum(a) OVER (PARTITION BY b ORDER BY c ROWS BETWEEN UNBOUNDED PRECEDING AND CURRENT ROW) FROM t\n",
    "SELECT sum(a) FILTER (WHERE b) FROM t\n",
    "SELECT a FROM t WINDOW w AS (PARTITION BY b)\n",
    "SELECT * FROM a JOIN b USING (x)\n",
    "SELECT * FROM a NATURAL JOIN b\n",
    "SELECT * FROM a CROSS JOIN b\n",
    "SELECT * FROM a LEFT OUTER JOIN b ON a.x = b.x\n",
    "SELECT * FROM a FULL OUTER JOIN b ON a.x = b.x\n",
    "SELECT * FROM a, LATERAL (SELECT 1) b\n",
    "SELECT * FROM t TABLESAMPLE BERNOULLI (10)\n",
    "SELECT * FROM t AS x (a, b)\n",
    "SELECT 1 UNION ALL SELECT 2\n",
    "SELECT 1 INTERSECT SELECT 2\n",
    "SELECT 1 EXCEPT SELECT 2\n",
    "SELECT 1 MINUS SELECT 2\n",
    "WITH RECURSIVE c AS (SELECT 1) SELECT * FROM c\n",
    "WITH c AS (SELECT 1) SELECT * FROM c\n",
    "SELECT a FROM t GROUP BY ROLLUP (a)\n",
    "SELECT a FROM t GROUP BY CUBE (a)\n",
    "SELECT a FROM t GROUP BY GROUPING SETS ((a), ())\n",
    "SELECT INTERVAL '1' DAY\n",
    "SELECT DATE '2020-01-01', TIME '10:00', TIMESTAMP '2020-01-01 10:00'\n",
    "SELECT a IS NOT NULL, b IS DISTINCT FROM c, d LIKE 'x' ESCAPE '\\\\', e BETWEEN 1 AND 2, f ILIKE 'y', g RLIKE 'z' FROM t\n",
    "SELECT EXISTS (SELECT 1), NOT a, a AND b OR c FROM t\n",
    "SELECT a FROM t QUALIFY row_number() OVER (ORDER BY a) = 1\n",
    "SELECT ARRAY[1, 2], a[1] FROM t\n",
    "SELECT * FROM t FOR UPDATE\n",
    "SELECT * FROM UNNEST(a) WITH ORDINALITY\n",
    "SELECT * FROM t PIVOT (sum(a) FOR b IN (1, 2))\n",
    "VALUES (1, 2), (3, 4)\n",
    "CREATE TABLE t (a int NOT NULL PRIMARY KEY, b varchar(10) DEFAULT 'x' UNIQUE REFERENCES u (b) ON DELETE CASCADE, c int COMMENT 'c', CONSTRAINT k FOREIGN KEY (a) REFERENCES v (a) ON UPDATE SET NULL, CHECK (a > 0))\n",
    "CREATE TABLE t (a int AUTO_INCREMENT) COMMENT 'x'\n",
    "CREATE TABLE t LIKE u\n",
    "CREATE EXTERNAL TABLE t (a int)\n",
    "CREATE TABLE IF NOT EXISTS t (a int) WITH (format = 'ORC')\n",
    "CREATE TABLE t (a int) PARTITION BY RANGE (a)\n",
    "CREATE TABLE t (a int) CLUSTER BY (a)\n",
    "CREATE MATERIALIZED VIEW v AS SELECT 1\n",
    "CREATE TEMP VIEW v AS SELECT 1\n",
    "CREATE UNIQUE INDEX i ON t (a)\n",
    "ALTER TABLE t ADD CONSTRAINT k PRIMARY KEY (a)\n",
    "ALTER TABLE t MODIFY COLUMN a int FIRST\n",
    "ANALYZE TABLE t COMPUTE STATISTICS\n",
    "CALL p(1)\n",
    "PREPARE s FROM 'select 1'\n",
    "EXECUTE s\n",
    "COPY t FROM 's3://x'\n",
    "UNLOAD ('select 1') TO 's3://x'\n",
    "SHOW TABLES\n",
    "DECLARE x int\n",
    "CREATE TYPE x AS ENUM ('a')\n",
    "COMMENT ON TABLE t IS 'x'\n",
    "VACUUM t\n",
    "REFRESH MATERIALIZED VIEW v\n",
    "PRAGMA foo\n",
    "ATTACH DATABASE 'x' AS y\n",
    "REPLACE INTO t VALUES (1)\n",
    "INSERT OR REPLACE INTO t VALUES (1)\n",
    "INSERT INTO t VALUES (1) ON CONFLICT DO NOTHING\n",
    "INSERT INTO t VALUES (1) RETURNING a\n",
    "UPDATE t SET a = 1 FROM u WHERE t.b = u.b RETURNING a\n",
    "DELETE FROM t USING u WHERE t.a = u.a\n",
    "SELECT a FROM t WHERE b = ANY (SELECT 1)\n",
    "SELECT a COLLATE x FROM t\n",
    "SELECT a AT TIME ZONE 'UTC' FROM t\n",
    "SELECT TRIM(BOTH 'x' FROM a), SUBSTRING(a FROM 1 FOR 2), POSITION('a' IN b), OVERLAY(a PLACING b FROM 1) FROM t\n",
    "SELECT LISTAGG(a, ',') WITHIN GROUP (ORDER BY a) FROM t\n",
    "SELECT first_value(a) IGNORE NULLS OVER (ORDER BY b RANGE BETWEEN 1 PRECEDING AND 1 FOLLOWING EXCLUDE CURRENT ROW) FROM t\n",
];

/// For every dialect: run corpus files (own and foreign) and probe statements through the real
/// parser and collect, per dangling reference, the shortest SQL whose parse aborts in
/// `Dialect::ref`. Returns key "<dialect>:<Name>KeywordSegment" -> SQL.
pub fn synthesise_sql(dialects: &[&str], thorough: bool, out: &mut Out) -> BTreeMap<String, String> {
    let files = corpus();
    let mut items: Vec<(String, String)> = vec![];
    for d in dialects {
        for p in PROBES {
            items.push((d.to_string(), p.to_string()));
        }
        for (i, f) in files.iter().enumerate() {
            if f.text.len() > 6000 {
                continue;
            }
            if thorough || f.dialect == *d || f.dialect == "ansi" || i % 4 == 0 {
                items.push((d.to_string(), f.text.clone()));
            }
        }
    }
    let hits = std::sync::Mutex::new(BTreeMap::<String, String>::new());
    let cache = std::sync::Mutex::new(HashMap::<String, std::sync::Arc<Dialect>>::new());
    let n_items = items.len();
    par_run(
        out,
        &items,
        || (),
        |_, (d, sql), buf| {
            let dialect = {
                let mut c = cache.lock().unwrap();
                c.entry(d.clone()).or_insert_with(|| std::sync::Arc::new(dialect_of(d))).clone()
            };
            let r = parse_with(&dialect, sql);
            buf.count("synth_parses", 1);
            if let Err(msg) = r {
                let name = if let Some(i) = msg.find("Grammar refers to the '") {
                    let rest = &msg[i + 23..];
                    rest.find('\'').map(|j| format!("{}KeywordSegment", &rest[..j]))
                } else if let Some(i) = msg.find("Grammar refers to '") {
                    let rest = &msg[i + 19..];
                    rest.find('\'').map(|j| rest[..j].to_string())
                } else {
                    None
                };
                if let Some(name) = name {
                    buf.count("synth_aborts", 1);
                    let key = format!("{}:{}", d, name);
                    let mut h = hits.lock().unwrap();
                    let e = h.entry(key).or_insert_with(|| sql.clone());
                    if sql.len() < e.len() {
                        *e = sql.clone();
                    }
                }
            }
        },
    );
    let _ = n_items;
    hits.into_inner().unwrap()
}

pub fn main(args: &Args) {
    silence_panics();
    let mut out = Out::new(&args.out);
    let gen_dir = args.flag("--gen-dir").unwrap_or_else(|| "/tmp/sqv-c14-gen".into());
    std::fs::create_dir_all(&gen_dir).unwrap();
    let known: Vec<String> = args.flag("--known").map(|s| s.split(',').filter(|x| !x.is_empty()).map(|x| x.to_string()).collect()).unwrap_or_default();
    let only: Option<String> = args.flag("--dialect");

    if let Some(path) = args.flag("--replay-input") {
        // re-run one direct observation: {"dialect":..,"reference":..,"sql_that_aborts":..}
        let v: Value = serde_json::from_str(&std::fs::read_to_string(path).unwrap()).unwrap();
        let d = v["dialect"].as_str().unwrap_or("ansi").to_string();
        let dialect = dialect_of(&d);
        let mut buf = Buf::default();
        if let Some(r) = v["reference"].as_str() {
            let ok = catch(|| dialect.r#ref(r)).is_ok();
            buf.direct("replay-reference", ok, &format!("{}:{}", d, r), "reference does not resolve", v.clone());
        }
        if let Some(sql) = v["sql_that_aborts"].as_str() {
            let r = parse_with(&dialect, sql);
            buf.direct("replay-sql", r.is_ok(), &format!("{}:{}", d, v["reference"].as_str().unwrap_or("?")), &format!("{:?}", r.err()), v.clone());
        }
        out.absorb(buf);
        out.finish();
        return;
    }

    let dialects: Vec<&str> = DIALECTS.iter().copied().filter(|d| only.as_deref().map(|o| o == *d).unwrap_or(true)).collect();
    let hits = synthesise_sql(&dialects, args.thorough(), &mut out);
    let reports = std::sync::Mutex::new(Vec::<DialectReport>::new());
    par_run(
        &mut out,
        &dialects,
        || (),
        |_, d, buf| {
            let rep = analyse(d, &known, &hits, buf);
            std::fs::write(format!("{}/Grammar_{}.v", gen_dir, d), &rep.text).unwrap();
            std::fs::write(format!("{}/Grammar_{}.strs.json", gen_dir, d), serde_json::to_string(&rep.strs).unwrap()).unwrap();
            reports.lock().unwrap().push(rep);
        },
    );
    let mut reports = reports.into_inner().unwrap();
    reports.sort_by(|a, b| a.dialect.cmp(&b.dialect));
    for r in &reports {
        out.stat(r.stats.clone());
    }
    out.stat(json!({"sql_synthesised_for": hits.keys().collect::<Vec<_>>()}));
    out.finish();
}
