//! C08 — violations point at the right place in the source file.
//!
//! Group `linepos`: direct calls of the pub `TemplatedFile::get_line_pos_of_char_pos` on
//! random (text, offset) for both newline tables, vs the Gallina `get_line_pos_of_char_pos`.
//! Group `viol`: generated SQL files linted under raw and placeholder templating; every
//! reported violation's `(line_no, line_pos, source_slice)` vs the Gallina
//! `set_position_marker` recomputed from the *source* text and the violation's source range,
//! plus the same recomputation in plain Rust and the range check (direct observations).
//! Group `marker`: every position marker of the parse tree of the same files:
//! `source_position()` / `templated_position()` vs the model on the real (source, templated) ranges.
//! Every group has a *non-ASCII* class (2-, 3- and 4-byte UTF-8 characters in comments, literals,
//! quoted and bare identifiers, replacement values, parameter names, placed before newlines and
//! before the violations): every slice in sqruff is a byte range, so such texts separate byte
//! offsets from character indices in the newline tables, the lexer, the templater and the markers.
use serde_json::{Value as J, json};
use sqruff_lib::core::config::{FluffConfig, Value};
use sqruff_lib::core::linter::core::Linter;
use sqruff_lib_core::parser::segments::base::Tables;
use sqruff_lib_core::templaters::base::{RawFileSlice, TemplatedFile, TemplatedFileSlice};

use crate::common::*;

// ------------------------------------------------------------------ plain-Rust reference
/// 1-based (line, column in bytes) of byte offset `p` of `s`, by a left-to-right scan.
fn linecol(s: &[u8], p: usize) -> (usize, usize) {
    let (mut line, mut start) = (1usize, 0usize);
    for (i, b) in s.iter().enumerate() {
        if i >= p {
            break;
        }
        if *b == b'\n' {
            line += 1;
            start = i + 1;
        }
    }
    (line, p - start + 1)
}

// ------------------------------------------------------------------ group linepos
/// Characters of 2, 3 and 4 bytes in UTF-8.
const WIDE: &[char] = &['é', 'ß', 'ñ', '€', '日', '—', '😀'];

/// Is there a multi-byte character followed (anywhere later) by a newline strictly before byte `p`?
/// This is when an offset counted in characters and one counted in bytes give different lines/columns.
fn wide_then_newline_before(s: &[u8], p: usize) -> bool {
    let mut wide = false;
    for b in &s[..p.min(s.len())] {
        if *b >= 0x80 {
            wide = true;
        } else if *b == b'\n' && wide {
            return true;
        }
    }
    false
}

/// Largest char boundary of `s` that is `<= i`.
fn floor_boundary(s: &str, mut i: usize) -> usize {
    i = i.min(s.len());
    while !s.is_char_boundary(i) {
        i -= 1;
    }
    i
}

fn gen_text(rng: &mut Rng, wide: bool) -> String {
    let n = match rng.below(6) {
        0 => 0,
        1 => rng.range(1, 3),
        2 => rng.range(1, 12),
        _ => rng.range(4, 60),
    };
    let nl_weight = *rng.pick(&[0usize, 1, 1, 2, 5, 9]);
    let mut s = String::new();
    for _ in 0..n {
        if rng.below(10) < nl_weight {
            s.push('\n');
        } else if wide && rng.chance(1, 3) {
            s.push(*rng.pick(WIDE));
        } else {
            s.push(*rng.pick(&['a', 'b', ' ', 'S', ',', '\t', '\r', 'x']));
        }
    }
    if wide && s.is_ascii() {
        s.insert(0, *rng.pick(WIDE));
    }
    match rng.below(8) {
        0 => s.insert(0, '\n'),
        1 => s.push('\n'),
        2 => {
            s.insert(0, '\n');
            s.push('\n')
        }
        3 => s.push_str("\n\n\n"),
        _ => {}
    }
    s
}

fn gen_offsets(rng: &mut Rng, s: &str) -> Vec<usize> {
    let len = s.len();
    let mut ps = vec![0, len, len + 1, len + rng.range(2, 40)];
    for (i, b) in s.bytes().enumerate() {
        if b == b'\n' && rng.chance(2, 3) {
            ps.push(i);
            ps.push(i + 1);
            if i > 0 {
                ps.push(i - 1);
            }
        }
    }
    // around multi-byte characters: their first byte, a continuation byte, the byte after
    for (i, ch) in s.char_indices() {
        if ch.len_utf8() > 1 && rng.chance(1, 3) {
            ps.push(i);
            ps.push(i + 1);
            ps.push(i + ch.len_utf8());
        }
    }
    for _ in 0..4 {
        ps.push(rng.below(len + 2));
    }
    ps.sort();
    ps.dedup();
    ps
}

/// A templated file whose two texts differ: `src` with every `@` replaced by `val`.
fn mk_templated(src: &str, val: &str) -> Option<TemplatedFile> {
    let mut slices = vec![];
    let mut raws = vec![];
    let mut out = String::new();
    let mut last = 0usize;
    for (i, _) in src.match_indices('@') {
        slices.push(TemplatedFileSlice::new("literal", last..i, out.len()..out.len() + (i - last)));
        raws.push(RawFileSlice::new(src[last..i].to_string(), "literal".to_string(), last, None, None));
        out.push_str(&src[last..i]);
        slices.push(TemplatedFileSlice::new("templated", i..i + 1, out.len()..out.len() + val.len()));
        raws.push(RawFileSlice::new("@".to_string(), "templated".to_string(), i, None, None));
        out.push_str(val);
        last = i + 1;
    }
    if src.len() > last {
        slices.push(TemplatedFileSlice::new("literal", last..src.len(), out.len()..out.len() + (src.len() - last)));
        raws.push(RawFileSlice::new(src[last..].to_string(), "literal".to_string(), last, None, None));
        out.push_str(&src[last..]);
    }
    TemplatedFile::new(src.to_string(), "<c08>".to_string(), Some(out), Some(slices), Some(raws)).ok()
}

struct LpItem {
    cls: &'static str,
    src: String,
    val: Option<String>,
    ps: Vec<usize>,
}

fn run_linepos(it: &LpItem, out: &mut Buf) {
    let input = json!({"kind":"linepos","src":it.src,"val":it.val,"ps":it.ps});
    let r = catch(|| {
        let tf = match &it.val {
            None => Some(TemplatedFile::from(it.src.as_str())),
            Some(v) => mk_templated(&it.src, v),
        };
        tf.map(|tf| {
            let tpl = tf.templated().to_string();
            let got: Vec<(usize, bool, (usize, usize))> = it
                .ps
                .iter()
                .flat_map(|p| [(*p, true, tf.get_line_pos_of_char_pos(*p, true)), (*p, false, tf.get_line_pos_of_char_pos(*p, false))])
                .collect();
            (tpl, got)
        })
    });
    let (tpl, got) = match r {
        Ok(Some(x)) => x,
        Ok(None) => {
            out.count("linepos_constructor_rejected", 1);
            return;
        }
        Err(msg) => {
            out.count("linepos_panics", 1);
            out.direct("linepos-panic", false, "c08-linepos-panic", &format!("get_line_pos_of_char_pos panicked: {}", msg), input);
            return;
        }
    };
    out.count("linepos_calls", got.len());
    let mut bad = None;
    for (p, source, lc) in &got {
        let text = if *source { it.src.as_bytes() } else { tpl.as_bytes() };
        if *lc != linecol(text, *p) && bad.is_none() {
            bad = Some(format!("get_line_pos_of_char_pos({}, {}) = {:?}, recomputed {:?}", p, source, lc, linecol(text, *p)));
        }
        if *p > text.len() {
            out.count("linepos_calls_beyond_len", 1);
        }
        if text.get(*p) == Some(&b'\n') {
            out.count("linepos_calls_at_newline", 1);
        }
        if wide_then_newline_before(text, *p) {
            out.count("linepos_calls_after_multibyte_char_and_newline", 1);
        }
    }
    if !it.src.is_ascii() {
        out.count("linepos_texts_nonascii", 1);
    }
    out.direct("linepos", bad.is_none(), "c08-linepos", bad.as_deref().unwrap_or(""), input.clone());
    let args = g_tuple(&[
        g_str(&it.src),
        g_str(&tpl),
        g_list(got.iter().map(|(p, s, _)| g_tuple(&[g_n(*p), g_bool(*s)]))),
    ]);
    let exp = g_list(got.iter().map(|(_, _, (l, c))| g_tuple(&[g_n(*l), g_n(*c)])));
    let nontrivial = it.src.contains('\n');
    out.case("linepos", it.cls, nontrivial, args, exp, json!({"input":input,"templated":tpl,"got":got.iter().map(|(p,s,lc)| json!([p,s,lc.0,lc.1])).collect::<Vec<_>>()}));
}

// ------------------------------------------------------------------ group viol / marker
/// (style key, is param_regex, placeholder text for name/index)
struct Style {
    name: &'static str,
    regex: Option<&'static str>,
    positional: bool,
    numeric: bool,
}
const STYLES: &[Style] = &[
    Style { name: "colon", regex: None, positional: false, numeric: false },
    Style { name: "colon_nospaces", regex: None, positional: false, numeric: false },
    Style { name: "numeric_colon", regex: None, positional: false, numeric: true },
    Style { name: "pyformat", regex: None, positional: false, numeric: false },
    Style { name: "dollar", regex: None, positional: false, numeric: false },
    Style { name: "question_mark", regex: None, positional: true, numeric: true },
    Style { name: "numeric_dollar", regex: None, positional: false, numeric: true },
    Style { name: "percent", regex: None, positional: true, numeric: true },
    Style { name: "ampersand", regex: None, positional: false, numeric: false },
    Style { name: "custom", regex: Some(r"__(?P<param_name>[\w_]+)__"), positional: false, numeric: false },
];

/// Text of the `k`-th placeholder (0-based) and the parameter name the templater will look up.
fn placeholder(st: &Style, k: usize, rng: &mut Rng) -> (String, String) {
    // the fifth name is only reachable from the non-ASCII classes (index 4)
    const NAMES: [&str; 5] = ["x", "my_param", "p", "some_longer_name", "größe"];
    let nm = NAMES[k % NAMES.len()].to_string();
    let num = (k + 1).to_string();
    match st.name {
        "colon" | "colon_nospaces" => (format!(":{}", nm), nm),
        "numeric_colon" => (format!(":{}", num), num),
        "pyformat" => (format!("%({})s", nm), nm),
        "dollar" => (if rng.chance(1, 2) { format!("${}", nm) } else { format!("${{{}}}", nm) }, nm),
        "question_mark" => ("?".to_string(), num),
        "numeric_dollar" => (if rng.chance(1, 2) { format!("${}", num) } else { format!("${{{}}}", num) }, num),
        "percent" => ("%s".to_string(), num),
        "ampersand" => (if rng.chance(1, 2) { format!("&{}", nm) } else { format!("&{{{}}}", nm) }, nm),
        _ => (format!("__{}__", nm), nm),
    }
}

/// SQL skeletons: `@` marks a slot where a placeholder (an expression / column list) goes.
/// Everything after the first slot contains layout / capitalisation / aliasing violations.
const SKELETONS: &[&str] = &[
    "SELECT @,\n   b  from t\n",
    "SELECT @,  b from t\n",
    "select a, @ ,c\nFROM  t\nwhere  a =  1\n",
    "SELECT a\nFROM t\nWHERE c = @  and d  = 2\n     AND e = 3\n",
    "SELECT\n    @ as z,\n  col_a a,\n      col_b  b\nfrom tbl\n",
    "SELECT a FROM t WHERE b IN (@)  and c=1\nORDER BY a  desc\n",
    "SELECT @ FROM t;\nSeLeCt  1 from tBl ;\n\n\nselect 2  ;\n",
    "SELECT a,@,b\n  from  t  where a=@ and b =  @\n",
    "SELECT  a\n-- comment @ here\nFROM t  where x = @\n",
    "SELECT @\n\n\n   ,b   from t\n",
    "WITH c AS (SELECT @ FROM t)\nselect  * from c join d  on c.a=d.a\n",
    "SELECT '@', a  from t\nwhere b  = @\n",
    "UPDATE t SET a = @,  b = 2\n  WHERE c  = @\n",
    "INSERT INTO t (a, b) VALUES (@,  @)\n ;\n",
    "SELECT a from t where a = @\n+\n",
    "SELECT @ from t -- noqa: disable=\nselect  1\n",
    "SELECT a,\n  (@ +  1 from t\n",
    "SELECT a, @\n  from t )  where b  = 1\n",
    "SELECT @ /* noqa: enable= */ ,  b\nfrom t  -- noqa: LT01,\n",
];

/// Replacement values: shorter / longer than a placeholder, multi-token, multi-line, empty.
const VALUES: &[&str] = &[
    "1",
    "a",
    "some_very_long_identifier_name_here",
    "1000000000000",
    "a, b",
    "1 + 2",
    "a  ,b",
    "1,\n    2",
    "col_a,\n  col_b,\n      col_c",
    "x\n",
    "\n1",
    "'s'",
    "1\n\n\n",
    "",
];

/// Non-ASCII skeletons: multi-byte characters in comments (leading, inline, block), string
/// literals, quoted identifiers and as bare (possibly unlexable) words, always *before* line
/// breaks and before the layout / capitalisation / aliasing violations, parse errors and noqa errors.
const NA_SKELETONS: &[&str] = &[
    "-- résumé des ventes (€)\nSELECT @,\n   b  from t\n",
    "SELECT 'żółć' as s, @\n  from  t  where a  = 'ñ'\n   and b = 1\n",
    "/* 日本語のコメント\n   二行目 */\nselect a, @ ,c\nFROM  t\n",
    "SELECT \"prénom\", @\nfrom \"tablé\"  where \"âge\"  > 1\n",
    "SELECT a -- ünïcödé 😀\n  , @  from t\nwhere  a =  1\n",
    "SELECT @ from t where n = 'München'  and  m = '東京'\norder by a  desc\n",
    "SELECT café, @\n  from t\n",
    "SELECT 'é' from t -- noqa: disable=\nselect  @\n+\n",
    "SELECT @ as \"ß\",\n  col_a a  -- € noqa: LT01,\nfrom t\n",
    "SELECT a,  'é—é' ,@\n\n\n   ,b   from t /* ñ */  where  c=1\n",
    "— SELECT @\nselect  1 from t\n",
];

/// Header lines put before a file of the non-ASCII classes.
const NA_HEADERS: &[&str] = &["-- Übersicht: größe in €\n", "/* 😀 */\n", "-- 日本語\n-- ещё одна строка\n", "/*\n  é\n*/\n\n"];

/// Non-ASCII replacement values (literal, quoted identifier, multi-line, with a comment, bare).
const NA_VALUES: &[&str] = &["'é'", "'日本語'", "'ä',\n  'ö'", "\"ü\"", "é", "'€' -- ñ\n", "😀", "'—'\n\n"];

const RULESETS8: &[&str] = &["LT01,LT02", "LT01,LT02,CP01,AL02", "LT01,LT02,CP01,CP02,AL01,AL02,LT05,LT12", "core", "all", "CP01", "LT02", "LT01"];

struct VItem {
    cls: &'static str,
    dialect: String,
    rules: String,
    /// None = raw templater
    style: Option<usize>,
    values: Vec<(String, String)>,
    sql: String,
}

fn mk_linter(it: &VItem) -> Linter {
    let mut src = format!("[sqruff]\ndialect = {}\nrules = {}\n", it.dialect, it.rules);
    if let Some(si) = it.style {
        let st = &STYLES[si];
        src.push_str("templater = placeholder\n\n[sqruff:templater:placeholder]\n");
        match st.regex {
            Some(r) => src.push_str(&format!("param_regex = {}\n", r)),
            None => src.push_str(&format!("param_style = {}\n", st.name)),
        }
    }
    let mut cfg = FluffConfig::from_source(&src, None);
    if it.style.is_some() {
        // replacement values are put into the config map directly: the ini reader trims values and
        // cannot carry newlines
        let ph = cfg.raw.get_mut("templater").unwrap().as_map_mut().unwrap().get_mut("placeholder").unwrap().as_map_mut().unwrap();
        for (k, v) in &it.values {
            ph.insert(k.clone(), Value::String(v.as_str().into()));
        }
    }
    Linter::new(cfg, None, None, true)
}

fn item_json(it: &VItem) -> J {
    json!({"kind":"viol","cls":it.cls,"dialect":it.dialect,"rules":it.rules,
           "style":it.style.map(|s| STYLES[s].name),"values":it.values,"sql":it.sql})
}

struct Obs {
    source: String,
    templated: String,
    /// (line_no, line_pos, source_slice, rule code, description)
    viols: Vec<(usize, usize, (usize, usize), Option<&'static str>, String)>,
    /// (source_slice, templated_slice, source_position, templated_position, line_no, line_pos)
    markers: Vec<((usize, usize), (usize, usize), (usize, usize), (usize, usize), usize, usize)>,
    /// source ranges of the templated slices with their length change (templated len - source len)
    shifts: Vec<(usize, usize, i64)>,
    /// non-leaf segments: (source, templated) ranges of the children, (source, templated) range of the parent
    parents: Vec<(Vec<((usize, usize), (usize, usize))>, ((usize, usize), (usize, usize)))>,
}

fn observe(it: &VItem) -> Obs {
    let linter = mk_linter(it);
    let linted = linter.lint_string(&it.sql, None, false);
    let tf = linted.templated_file.clone();
    let viols = linted
        .violations
        .iter()
        .map(|v| (v.line_no, v.line_pos, (v.source_slice.start, v.source_slice.end), v.rule.as_ref().map(|r| r.code), v.description.clone()))
        .collect();
    let tables = Tables::default();
    let parsed = linter.parse_string(&tables, &it.sql, None).unwrap();
    let mut markers = vec![];
    let mut parents = vec![];
    if let Some(tree) = &parsed.tree {
        let mut all = tree.recursive_crawl_all(false);
        all.push(tree.clone());
        for seg in &all {
            let kids: Vec<_> = seg
                .segments()
                .iter()
                .filter_map(|c| c.get_position_marker().map(|pm| ((pm.source_slice.start, pm.source_slice.end), (pm.templated_slice.start, pm.templated_slice.end))))
                .collect();
            if let (false, Some(pm)) = (kids.is_empty(), seg.get_position_marker()) {
                parents.push((kids, ((pm.source_slice.start, pm.source_slice.end), (pm.templated_slice.start, pm.templated_slice.end))));
            }
        }
        parents.sort();
        parents.dedup();
        for seg in all {
            if let Some(pm) = seg.get_position_marker() {
                markers.push((
                    (pm.source_slice.start, pm.source_slice.end),
                    (pm.templated_slice.start, pm.templated_slice.end),
                    pm.source_position(),
                    pm.templated_position(),
                    pm.line_no(),
                    pm.line_pos(),
                ));
            }
        }
    }
    markers.sort();
    markers.dedup();
    let shifts = tf
        .sliced_file
        .iter()
        .filter(|s| s.slice_type == "templated")
        .map(|s| (s.source_slice.start, s.source_slice.end, s.templated_slice.len() as i64 - s.source_slice.len() as i64))
        .collect();
    Obs { source: tf.source_str.clone(), templated: tf.templated().to_string(), viols, markers, shifts, parents }
}

fn g_range(r: (usize, usize)) -> String {
    g_tuple(&[g_n(r.0), g_n(r.1)])
}

fn run_viol(it: &VItem, out: &mut Buf) {
    out.count("files", 1);
    let input = item_json(it);
    let o = match catch(|| observe(it)) {
        Ok(o) => o,
        Err(msg) => {
            // a crash is C03's subject; here it only means nothing was reported for this file
            out.count("files_panicked_not_observed", 1);
            out.count(&format!("panic:{}", trunc(&msg, 60)), 1);
            return;
        }
    };
    if it.style.is_some() {
        out.count("files_placeholder_templated", 1);
    }
    if !o.source.is_ascii() || !o.templated.is_ascii() {
        out.count("files_nonascii", 1);
    }
    let src = o.source.as_bytes();
    let shifted_somewhere = o.shifts.iter().any(|s| s.2 != 0);
    if shifted_somewhere {
        out.count("files_with_length_changing_replacement", 1);
    }
    if o.templated.matches('\n').count() != o.source.matches('\n').count() {
        out.count("files_with_line_count_changed_by_templating", 1);
    }
    out.count("violations", o.viols.len());
    let mut nontrivial = false;
    for (line, col, (s0, s1), code, desc) in &o.viols {
        let class = match code {
            Some(_) => "lint",
            None if desc.contains("noqa") || desc.contains("Rule ") => "noqa-error",
            None => "parse-error",
        };
        out.count(&format!("violations_{}", class), 1);
        // net length change of the replacements wholly before the violation's source start
        let delta: i64 = o.shifts.iter().filter(|s| s.1 <= *s0).map(|s| s.2).sum();
        let changed_before = o.shifts.iter().any(|s| s.1 <= *s0 && s.2 != 0);
        if changed_before {
            out.count("violations_after_length_changing_replacement", 1);
            let first_end = o.shifts.iter().filter(|s| s.2 != 0).map(|s| s.1).min().unwrap();
            if src[first_end.min(src.len())..(*s0).min(src.len())].contains(&b'\n') {
                out.count("violations_after_length_changing_replacement_on_later_line", 1);
            }
            if delta != 0 {
                out.count("violations_with_nonzero_net_shift", 1);
                nontrivial = true;
            }
        }
        if wide_then_newline_before(src, *s0) {
            out.count("violations_after_multibyte_char_on_later_line", 1);
            nontrivial = true;
        } else if src[..(*s0).min(src.len())].iter().any(|b| *b >= 0x80) {
            out.count("violations_after_multibyte_char_on_same_line", 1);
        }
        let in_file = s0 <= s1 && *s1 <= src.len();
        let want = linecol(src, *s0);
        let ok = in_file && (*line, *col) == want;
        let key = format!("c08-{}", class);
        let msg = format!(
            "violation {:?} {:?} reported at {}:{} with source range {}..{} (file length {}); the start of that range is {}:{}",
            code, trunc(desc, 60), line, col, s0, s1, src.len(), want.0, want.1
        );
        out.direct(&format!("violation-{}", class), ok, &key, &msg, input.clone());
    }
    let args = g_tuple(&[g_str(&o.source), g_str(&o.templated), g_list(o.viols.iter().map(|v| g_range(v.2)))]);
    let exp = g_list(o.viols.iter().map(|v| g_tuple(&[g_n(v.0), g_n(v.1), g_range(v.2)])));
    let sample = json!({"input":input,"source":o.source,
        "violations":o.viols.iter().map(|v| json!({"line":v.0,"col":v.1,"source_slice":[v.2.0,v.2.1],"rule":v.3,"desc":trunc(&v.4,80)})).collect::<Vec<_>>()});
    out.case("viol", it.cls, nontrivial, args, exp, sample);

    // markers of the parse tree
    out.count("markers", o.markers.len());
    let mut bad = None;
    for (s, t, sp, tp, ln, lp) in &o.markers {
        let ok = s.0 <= s.1 && s.1 <= src.len() && *sp == linecol(src, s.0) && *tp == linecol(o.templated.as_bytes(), t.0) && (*ln, *lp) == *sp;
        if !ok && bad.is_none() {
            bad = Some(format!("marker source {:?} templated {:?}: source_position {:?} (recomputed {:?}), templated_position {:?} (recomputed {:?}), line_no/line_pos {}:{}",
                s, t, sp, linecol(src, s.0), tp, linecol(o.templated.as_bytes(), t.0), ln, lp));
        }
        if s.0 != t.0 {
            out.count("markers_with_shifted_start", 1);
        }
        if wide_then_newline_before(src, s.0) {
            out.count("markers_after_multibyte_char_on_later_line", 1);
        }
    }
    out.direct("markers", bad.is_none(), "c08-marker", bad.as_deref().unwrap_or(""), input.clone());
    // the Coq replay gets at most 24 markers per file (all are checked in Rust above): every
    // k-th one, so that the whole file is covered
    let step = o.markers.len().div_ceil(24).max(1);
    let ms: Vec<_> = o.markers.iter().skip(step - 1).step_by(step).collect();
    out.count("markers_replayed_in_coq", ms.len());
    let margs = g_tuple(&[g_str(&o.source), g_str(&o.templated), g_list(ms.iter().map(|m| g_tuple(&[g_range(m.0), g_range(m.1)])))]);
    let mexp = g_list(ms.iter().map(|m| g_tuple(&[g_n(m.2.0), g_n(m.2.1), g_n(m.3.0), g_n(m.3.1)])));
    let msample = json!({"input":input,"source":o.source,"templated":o.templated,"n_markers":o.markers.len(),
        "markers":ms.iter().map(|m| json!([m.0.0,m.0.1,m.1.0,m.1.1,m.2.0,m.2.1,m.3.0,m.3.1])).collect::<Vec<_>>()});
    out.case("marker", it.cls, ms.iter().any(|m| m.0.0 != m.1.0), margs, mexp, msample);

    // hypothesis of C08_parent_range (it is C15's conclusion): the ranges of the leaves lie in the file
    let leaves_ok = o.markers.iter().all(|m| m.0.0 <= m.0.1 && m.0.1 <= src.len());
    out.hyp("H_ranges_in_file", "blocking", leaves_ok, input.clone());

    // parent markers = from_child_markers of the children
    out.count("parents", o.parents.len());
    let mut pbad = None;
    for (kids, par) in &o.parents {
        let want = (
            (kids.iter().map(|k| k.0.0).min().unwrap(), kids.iter().map(|k| k.0.1).max().unwrap()),
            (kids.iter().map(|k| k.1.0).min().unwrap(), kids.iter().map(|k| k.1.1).max().unwrap()),
        );
        if want != *par && pbad.is_none() {
            pbad = Some(format!("parent marker {:?} but min/max over its {} children is {:?}", par, kids.len(), want));
        }
    }
    out.direct("parents", pbad.is_none(), "c08-parent-marker", pbad.as_deref().unwrap_or(""), input.clone());
    let pstep = o.parents.len().div_ceil(8).max(1);
    let ps: Vec<_> = o.parents.iter().skip(pstep - 1).step_by(pstep).collect();
    if !ps.is_empty() {
        let g_m = |m: &((usize, usize), (usize, usize))| g_tuple(&[g_range(m.0), g_range(m.1)]);
        let pargs = g_list(ps.iter().map(|(kids, _)| g_list(kids.iter().map(g_m))));
        let pexp = g_list(ps.iter().map(|(_, par)| g_m(par)));
        let psample = json!({"input":input,"parents":ps.iter().map(|(k, p)| json!({"children":k.len(),"parent":[p.0.0,p.0.1,p.1.0,p.1.1]})).collect::<Vec<_>>()});
        out.case("parent", it.cls, ps.iter().any(|(k, _)| k.len() > 1), pargs, pexp, psample);
    }
}

fn gen_viol(rng: &mut Rng, cls: &'static str, templated: bool, wide: bool) -> VItem {
    let dialect = if rng.chance(1, 3) { DIALECTS[rng.below(DIALECTS.len())] } else { "ansi" }.to_string();
    let rules = rng.pick(RULESETS8).to_string();
    let mut skel = String::new();
    let n = rng.range(1, 2);
    for _ in 0..n {
        let pool = if wide && rng.chance(2, 3) { NA_SKELETONS } else { SKELETONS };
        skel.push_str(*rng.pick(pool));
    }
    if wide && (skel.is_ascii() || rng.chance(1, 3)) {
        skel.insert_str(0, *rng.pick(NA_HEADERS));
    }
    if !templated {
        // raw templater: fill the slots with ordinary expressions (possibly multi-line)
        let mut sql = String::new();
        for ch in skel.chars() {
            if ch == '@' {
                if wide && rng.chance(1, 2) {
                    sql.push_str(*rng.pick(NA_VALUES));
                } else {
                    sql.push_str(*rng.pick(&["a", "1", "col_a,\n  col_b", "x  ", "1 + 2"]));
                }
            } else {
                sql.push(ch);
            }
        }
        return VItem { cls, dialect, rules, style: None, values: vec![], sql };
    }
    let si = rng.below(STYLES.len());
    let st = &STYLES[si];
    let mut sql = String::new();
    let mut values: Vec<(String, String)> = vec![];
    let mut k = 0usize;
    for ch in skel.chars() {
        if ch != '@' {
            sql.push(ch);
            continue;
        }
        let idx = if st.positional || st.numeric { k } else { rng.below(if wide { 5 } else { 3 }) };
        let (text, name) = placeholder(st, idx, rng);
        sql.push_str(&text);
        k += 1;
        if !values.iter().any(|(n, _)| *n == name) && !rng.chance(1, 6) {
            let pool = if wide && rng.chance(1, 2) { NA_VALUES } else { VALUES };
            values.push((name, rng.pick(pool).to_string()));
        }
    }
    VItem { cls, dialect, rules, style: Some(si), values, sql }
}

enum Item {
    Lp(LpItem),
    V(VItem),
}

fn item_from_json(v: &J) -> Item {
    if v["kind"] == "linepos" {
        Item::Lp(LpItem {
            cls: "replay",
            src: v["src"].as_str().unwrap().to_string(),
            val: v["val"].as_str().map(|s| s.to_string()),
            ps: v["ps"].as_array().unwrap().iter().map(|x| x.as_u64().unwrap() as usize).collect(),
        })
    } else {
        let style = v["style"].as_str().map(|s| STYLES.iter().position(|t| t.name == s).unwrap());
        Item::V(VItem {
            cls: "replay",
            dialect: v["dialect"].as_str().unwrap().to_string(),
            rules: v["rules"].as_str().unwrap().to_string(),
            style,
            values: v["values"].as_array().map(|a| a.iter().map(|p| (p[0].as_str().unwrap().to_string(), p[1].as_str().unwrap().to_string())).collect()).unwrap_or_default(),
            sql: v["sql"].as_str().unwrap().to_string(),
        })
    }
}

pub fn main(args: &Args) {
    silence_panics();
    let mut out = Out::new(&args.out);
    let mut rng = Rng::new(args.seed);
    let mut items: Vec<Item> = vec![];

    if let Some(path) = args.flag("--replay-input") {
        let v: J = serde_json::from_str(&std::fs::read_to_string(path).unwrap()).unwrap();
        let v = if v.get("input").is_some() { v["input"].clone() } else { v };
        items.push(item_from_json(&v));
    } else {
        // ---- regression corpus first
        let colon = STYLES.iter().position(|s| s.name == "colon").unwrap();
        let reg = |rules: &str, style: Option<usize>, values: &[(&str, &str)], sql: &str| {
            Item::V(VItem {
                cls: "regression",
                dialect: "ansi".into(),
                rules: rules.into(),
                style,
                values: values.iter().map(|(a, b)| (a.to_string(), b.to_string())).collect(),
                sql: sql.into(),
            })
        };
        // fixed 9a5420e: LT02 on source bytes 11..14 (2:1) was reported at 1:11
        items.push(reg("LT02", Some(colon), &[("x", "1")], "SELECT :x,\n   b  from t\n"));
        items.push(reg("LT01,LT02", Some(colon), &[("x", "1")], "SELECT :x,\n   b  from t\n"));
        items.push(reg("LT01,LT02", Some(colon), &[("x", "some_long_value")], "SELECT :x,\n   b  from t\n"));
        items.push(reg("LT01,LT02,CP01", Some(colon), &[("x", "1,\n  2")], "SELECT :x,\n   b  from t\n"));
        // parse errors and noqa-directive errors
        items.push(reg("LT01", None, &[], "SELECT 1\n+\n"));
        items.push(reg("LT01", None, &[], "SELECT 1\n  from t -- noqa: disable=\n"));
        items.push(reg("LT01", Some(colon), &[("x", "1000")], "SELECT :x\n  from t -- noqa:\n;\n  +\n"));

        let (n_lp, n_raw, n_tpl) = if args.thorough() { (30000, 4000, 16000) } else { (2500, 400, 1600) };
        for i in 0..n_lp {
            // two fifths of the texts contain multi-byte characters
            let wide = i % 5 >= 3;
            let src0 = gen_text(&mut rng, wide);
            let templ = i % 3 == 2;
            let (src, val) = if templ {
                let mut s = src0.replace('x', "@");
                if !s.contains('@') {
                    let at = floor_boundary(&s, rng.below(s.len() + 1));
                    s.insert(at, '@');
                }
                let v = if wide && rng.chance(1, 2) {
                    rng.pick(&["é", "€\n", "é\nß😀", "\n—\n"]).to_string()
                } else {
                    rng.pick(&["", "\n", "vv\nv", "long long value", "\n\n"]).to_string()
                };
                (s, Some(v))
            } else {
                (src0, None)
            };
            let ps = gen_offsets(&mut rng, &src);
            let cls = match (templ, wide) {
                (false, false) => "linepos-raw",
                (true, false) => "linepos-templated",
                (false, true) => "linepos-raw-nonascii",
                (true, true) => "linepos-templated-nonascii",
            };
            items.push(Item::Lp(LpItem { cls, src, val, ps }));
        }
        // a quarter of the files of either kind are of the non-ASCII class
        for i in 0..n_raw {
            let wide = i % 4 == 3;
            items.push(Item::V(gen_viol(&mut rng, if wide { "raw-nonascii" } else { "raw" }, false, wide)));
        }
        for i in 0..n_tpl {
            let wide = i % 4 == 3;
            items.push(Item::V(gen_viol(&mut rng, if wide { "placeholder-nonascii" } else { "placeholder" }, true, wide)));
        }
    }
    par_run(&mut out, &items, || (), |_, it, buf| match it {
        Item::Lp(x) => run_linepos(x, buf),
        Item::V(x) => run_viol(x, buf),
    });
    out.finish();
}
