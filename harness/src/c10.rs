//! C10 — noqa directives mask exactly what they say.
//! Generates SQL files with directive comments, lints each with noqa off and on,
//! extracts the comment leaves with their source positions and emits the
//! correspondence case `lint_noqa comments parse_vs rule_vs == reported`.
//!
//! Generator classes:
//!  * `readme-forms` / `odd-forms` — 2-7 statement lines, directives at the end / start of lines;
//!  * `deep-files` — the same lines behind up to 60 lines of padding and with random indentation, so
//!    that line numbers and columns of directives and violations range over each other's values;
//!  * `placed-list` — one select list over many lines, directives before / between / behind the
//!    aliased columns of a line, at any indentation and any depth of the file;
//!  * `templated-list` / `templated-stmts` — the same under `templater = placeholder` (8 parameter
//!    styles, values shorter / longer than the placeholder, values spanning several lines, values
//!    set through the ini text or through the configuration object): positions in the templated
//!    text differ from the positions in the source, in column and in line;
//!  * some files of the new classes with CRLF line ends.
use serde_json::json;
use sqruff_lib::core::config::{FluffConfig, Value as CfgValue};
use sqruff_lib::core::linter::core::Linter;
use sqruff_lib_core::dialects::syntax::{SyntaxKind, SyntaxSet};
use sqruff_lib_core::errors::SQLBaseError;
use sqruff_lib_core::parser::segments::base::Tables;

use crate::common::*;

const STMTS: &[&str] = &[
    "SeLeCt  1 from tBl ;",
    "SELECT col_a a FROM foo",
    "select a,b from t",
    "SELECT  a  AS x,  b y FROM  t  WHERE a=1",
    "SELECT a FROM t;",
    "select A from T where B  in (1,2)",
];
const RULESETS: &[&str] = &["CP01,LT01,AL02", "CP01,CP02,LT01,LT02,AL02,AL01", "core", "all", "CP01", "LT01,AL02"];
const CODES: &[&str] = &["CP01", "LT01", "AL02", "CP02", "LT02", "AL01", "XX99"];

fn viol_g(v: &SQLBaseError) -> String {
    g_tuple(&[g_n(v.line_no), g_n(v.line_pos), g_opt(v.rule.as_ref().map(|r| g_str(r.code)))])
}
fn viol_j(v: &SQLBaseError) -> serde_json::Value {
    json!([v.line_no, v.line_pos, v.rule.as_ref().map(|r| r.code)])
}

/// Configuration of the placeholder templater for one file.
#[derive(Clone, Debug, PartialEq)]
struct Templ {
    style: String,
    params: Vec<(String, String)>,
    /// every value set through the configuration object instead of the ini text
    api: bool,
}
impl Templ {
    fn json(&self) -> serde_json::Value {
        json!({"style":self.style,"params":self.params,"api":self.api})
    }
    fn from_json(v: &serde_json::Value) -> Option<Templ> {
        if !v.is_object() {
            return None;
        }
        Some(Templ {
            style: v["style"].as_str().unwrap().to_string(),
            params: v["params"].as_array().unwrap().iter().map(|p| (p[0].as_str().unwrap().to_string(), p[1].as_str().unwrap().to_string())).collect(),
            api: v["api"].as_bool().unwrap_or(false),
        })
    }
}

/// Can the ini reader carry `key = value` (it trims, cuts at comment signs, has no multi-line values)?
fn ini_ok(k: &str, v: &str) -> bool {
    !v.is_empty() && v.trim() == v && !v.contains(['\n', '#', ';', '%']) && !k.is_empty()
}
fn value_text(v: &CfgValue) -> Option<String> {
    match (v.as_string(), v.as_int(), v.as_bool()) {
        (Some(s), None, None) => Some(s.to_string()),
        (None, Some(i), None) => Some(i.to_string()),
        (None, None, Some(b)) => Some(if b { "true" } else { "false" }.to_string()),
        _ => None,
    }
}

fn mk_linter(dialect: &str, rules: &str, disable_noqa: bool, templ: Option<&Templ>) -> Linter {
    let mut src = format!(
        "[sqruff]\ndialect = {}\nrules = {}\n{}",
        dialect,
        rules,
        if disable_noqa { "disable_noqa = True\n" } else { "" }
    );
    if let Some(t) = templ {
        src.push_str(&format!("templater = placeholder\n\n[sqruff:templater:placeholder]\nparam_style = {}\n", t.style));
        for (k, v) in &t.params {
            if !t.api && ini_ok(k, v) {
                src.push_str(&format!("{} = {}\n", k, v));
            }
        }
    }
    let mut cfg = FluffConfig::from_source(&src, None);
    if let Some(t) = templ {
        // whatever the ini text did not deliver exactly goes in through the configuration object
        if let Some(m) = cfg.raw.get_mut("templater").and_then(|x| x.as_map_mut()).and_then(|x| x.get_mut("placeholder")).and_then(|x| x.as_map_mut()) {
            for (k, v) in &t.params {
                if m.get(k.as_str()).and_then(value_text).as_deref() != Some(v.as_str()) {
                    m.insert(k.clone(), CfgValue::String(v.as_str().into()));
                }
            }
        }
    }
    Linter::new(cfg, None, None, true)
}

/// README forms with arbitrary interior whitespace where the forms allow it.
fn readme_directive(rng: &mut Rng) -> String {
    let sp = |rng: &mut Rng| ["", " ", "  "][rng.below(3)].to_string();
    let codes = |rng: &mut Rng, n: usize| -> Vec<&'static str> { (0..n).map(|_| CODES[rng.below(CODES.len() - 1)]).collect() };
    match rng.below(7) {
        0 => format!("--{}noqa", sp(rng)),
        1 => {
            let n = rng.range(1, 3);
            format!("--{}noqa:{}{}", sp(rng), sp(rng), codes(rng, n).join(","))
        }
        2 => {
            let n = rng.range(1, 2);
            format!("--{}noqa:{}disable={}", sp(rng), sp(rng), codes(rng, n).join(","))
        }
        3 => {
            let n = rng.range(1, 2);
            format!("--{}noqa:{}enable={}", sp(rng), sp(rng), codes(rng, n).join(","))
        }
        4 => format!("--{}noqa:{}disable=all", sp(rng), sp(rng)),
        5 => format!("--{}noqa:{}enable=all", sp(rng), sp(rng)),
        _ => block_directive(rng),
    }
}

/// README forms in a block comment.
fn block_directive(rng: &mut Rng) -> String {
    let inner = match rng.below(7) {
        0 => "noqa: disable=all".to_string(),
        1 => "noqa: enable=all".to_string(),
        2 => format!("noqa: disable={}", CODES[rng.below(3)]),
        3 => format!("noqa: enable={}", CODES[rng.below(3)]),
        4 => "noqa".to_string(),
        5 => format!("noqa: {}", CODES[rng.below(6)]),
        _ => format!("noqa: {},{}", CODES[rng.below(6)], CODES[rng.below(6)]),
    };
    format!("/* {} */", inner)
}

/// Directive-like comments outside the README forms (malformed, odd spacing, prefixes).
fn odd_directive(rng: &mut Rng) -> String {
    const ODD: &[&str] = &[
        "-- noqa?",
        "-- noqa:",
        "-- noqa: ",
        "-- noqa: disable=",
        "-- noqa: enable= ,",
        "-- noqa : CP01",
        "-- noqa: CP01, LT01",
        "-- noqa: CP01 ,LT01",
        "-- noqa: disable=CP01 , LT01",
        "-- noqa: disable = CP01",
        "-- NOQA",
        "-- noqa: all",
        "-- noqa:disable=all,CP01",
        "-- text -- noqa: LT01",
        "-- text --- noqa",
        "-- text ---- noqa: disable=all",
        "-- noqa -- text",
        "--noqa:enable=CP01,,LT01",
        "/* noqa */",
        "/*noqa: disable=CP01*/",
        "/* noqa: CP01 */",
        "/* text -- noqa: enable=all */",
        "/**/",
        "/*/",
        "-- noqa:\tdisable=all",
        "-- noqa\t",
        "--\tnoqa: CP01",
        "-- noqaX",
        "-- noqa:disable=all extra",
    ];
    ODD[rng.below(ODD.len())].to_string()
}

/// Shape of a statement file beyond the 2-7 directive-carrying lines.
#[derive(Default)]
struct Shape<'a> {
    /// up to this many lines without directives in front (blank lines, plain comments, statements)
    pad_max: usize,
    /// random indentation (0..=40 blanks) in front of lines
    indent: bool,
    /// statements with placeholders for this templater configuration
    templ: Option<&'a Templ>,
}

fn indentation(rng: &mut Rng) -> String {
    let n = match rng.below(6) {
        0 => 0,
        1 => 4,
        2 => rng.range(1, 8),
        _ => rng.range(0, 40),
    };
    " ".repeat(n)
}

/// A block-comment directive that closes a line now and then spans several lines: the lexer cuts a block comment at its line
/// breaks, so the directive sits in a piece that has only the opening marker, only the closing one, or neither.
fn spread_block(rng: &mut Rng, d: String) -> String {
    if !(d.starts_with("/*") && d.ends_with("*/") && d.len() >= 4) || !rng.chance(1, 3) {
        return d;
    }
    let inner = d[2..d.len() - 2].trim().to_string();
    match rng.below(4) {
        0 => format!("/* {}\n   an explanation */", inner),
        1 => format!("/* an explanation\n   {} */", inner),
        2 => format!("/*\n{}\n*/", inner),
        _ => format!("/* {}\n   more\n   text */", inner),
    }
}

fn gen_file(rng: &mut Rng, odd: bool, shape: &Shape) -> String {
    let mut s = String::new();
    if shape.pad_max > 0 {
        for _ in 0..rng.range(0, shape.pad_max) {
            match rng.below(6) {
                0 => {}
                1 => s.push_str("-- a plain comment"),
                2 => s.push_str("SELECT a FROM t;"),
                _ => s.push_str(STMTS[rng.below(STMTS.len())]),
            }
            s.push('\n');
        }
    }
    let nlines = rng.range(2, 7);
    for _ in 0..nlines {
        let kind = rng.below(10);
        let line_start = s.len();
        if shape.indent {
            s.push_str(&indentation(rng));
        }
        if kind < 7 {
            match shape.templ {
                Some(t) if rng.chance(2, 3) => {
                    let pattern = STMTS_T[rng.below(STMTS_T.len())];
                    s.push_str(&fill(rng, pattern, t))
                }
                _ => s.push_str(STMTS[rng.below(STMTS.len())]),
            }
            if rng.chance(3, 5) {
                s.push_str(["", " ", "    "][rng.below(3)]);
                let d = if odd && rng.chance(1, 2) { odd_directive(rng) } else { readme_directive(rng) };
                if d.starts_with("/*") && rng.chance(1, 2) {
                    // block comment in the middle of a line: put it before the statement instead
                    let stmt_start = if shape.indent && rng.chance(1, 2) {
                        s[line_start..].find(|c| c != ' ').map(|i| line_start + i).unwrap_or(line_start)
                    } else {
                        line_start
                    };
                    s.insert_str(stmt_start, &format!("{} ", d));
                    // ... and sometimes a second directive at the end of the same line
                    if rng.chance(1, 2) {
                        let d2 = if odd && rng.chance(1, 3) { odd_directive(rng) } else { readme_directive(rng) };
                        s.push(' ');
                        s.push_str(&d2);
                    }
                } else {
                    s.push_str(&spread_block(rng, d));
                }
            }
        } else if kind < 9 {
            let d = if odd && rng.chance(1, 2) { odd_directive(rng) } else { readme_directive(rng) };
            s.push_str(&spread_block(rng, d));
        }
        s.push('\n');
    }
    s
}

// ---------------------------------------------------------------- placeholder templater
const STYLES: &[&str] = &["colon", "dollar", "pyformat", "question_mark", "percent", "numeric_dollar", "numeric_colon", "ampersand"];
/// Named parameters: values shorter and longer than the placeholder, values over several lines,
/// a value that is a rule code (for a placeholder inside a directive), a value with a violation in it.
/// `u` has no value: it renders as its name.
const NAMED: &[(&str, &str)] = &[
    ("tenant_specific_amount_column", "amt"),
    ("k", "a_rather_long_generated_column_name_for_the_key"),
    ("ml", "col_m,\n    col_n n"),
    ("ml2", "col_p p,\n\n    col_q"),
    ("v", "1"),
    ("rule", "AL02"),
    ("e", "col_e e"),
    ("a_fairly_long_name_for_a_short_value", "c"),
];
/// Positional / numeric parameters (9 and above have no value).
const NUMBERED: &[(&str, &str)] = &[
    ("1", "amt_but_quite_a_bit_longer_than_the_placeholder"),
    ("2", "x"),
    ("3", "col_m,\n    col_n n"),
    ("4", "c"),
    ("5", "col_e e"),
    ("6", "a_rather_long_generated_column_name_for_the_key"),
    ("8", "1"),
];
const STMTS_T: &[&str] = &[
    "select {P},b from t",
    "SELECT {P} a FROM foo",
    "SELECT  a  AS x,  {P}, b y FROM  t  WHERE a={P}",
    "SeLeCt  {P} from tBl ;",
    "SELECT {P}, {P} z, col_b b FROM foo;",
];

fn numbered(style: &str) -> bool {
    matches!(style, "question_mark" | "percent" | "numeric_dollar" | "numeric_colon")
}
fn gen_templ(rng: &mut Rng) -> Templ {
    let style = STYLES[rng.below(STYLES.len())];
    let table = if numbered(style) { NUMBERED } else { NAMED };
    Templ { style: style.to_string(), params: table.iter().map(|(k, v)| (k.to_string(), v.to_string())).collect(), api: rng.chance(1, 4) }
}
/// One placeholder of the configuration's style.
fn placeholder(rng: &mut Rng, t: &Templ) -> String {
    let name = if numbered(&t.style) {
        rng.range(1, 9).to_string()
    } else if rng.chance(1, 8) {
        "u".to_string()
    } else {
        // not the rule-code parameter: that one is for directives
        loop {
            let k = &t.params[rng.below(t.params.len())].0;
            if k != "rule" {
                break k.clone();
            }
        }
    };
    match t.style.as_str() {
        "colon" | "numeric_colon" => format!(":{}", name),
        "pyformat" => format!("%({})s", name),
        "dollar" | "numeric_dollar" | "ampersand" => {
            let sign = if t.style == "ampersand" { '&' } else { '$' };
            if rng.chance(1, 2) { format!("{}{}", sign, name) } else { format!("{}{{{}}}", sign, name) }
        }
        "question_mark" => "?".to_string(),
        "percent" => "%s".to_string(),
        other => panic!("style {}", other),
    }
}
fn fill(rng: &mut Rng, pattern: &str, t: &Templ) -> String {
    let mut out = String::new();
    let mut rest = pattern;
    while let Some(i) = rest.find("{P}") {
        out.push_str(&rest[..i]);
        out.push_str(&placeholder(rng, t));
        rest = &rest[i + 3..];
    }
    out.push_str(rest);
    out
}

// ---------------------------------------------------------------- directives placed inside one select list
/// Range directives on the rules the list violates most of the time, otherwise any README form.
fn list_directive(rng: &mut Rng, block: bool, templ: Option<&Templ>) -> String {
    let inner = match rng.below(10) {
        0 => "noqa: disable=all".to_string(),
        1 => "noqa: enable=all".to_string(),
        2 | 3 | 4 => format!("noqa: disable={}", ["AL02", "AL02", "CP02", "AL02,CP02", "LT01"][rng.below(5)]),
        5 | 6 => format!("noqa: enable={}", ["AL02", "AL02", "CP02", "CP02,AL02", "LT01"][rng.below(5)]),
        7 => {
            // the rule code comes out of a placeholder (named colon / dollar / pyformat styles only)
            match templ {
                Some(t) if matches!(t.style.as_str(), "colon" | "dollar" | "pyformat") => {
                    let ph = match t.style.as_str() {
                        "colon" => ":rule",
                        "dollar" => "${rule}",
                        _ => "%(rule)s",
                    };
                    format!("noqa: {}={}", ["disable", "enable"][rng.below(2)], ph)
                }
                _ => "noqa: disable=AL02".to_string(),
            }
        }
        _ => return if block { block_directive(rng) } else { readme_directive(rng) },
    };
    if block { format!("/* {} */", inner) } else { format!("--{}{}", ["", " "][rng.below(2)], inner) }
}

/// `SELECT` / padding lines / 2-6 lines of select elements with directives in front of, between and
/// behind the elements, each line at its own indentation / `1` / `FROM foo`.
fn gen_list(rng: &mut Rng, pad_max: usize, templ: Option<&Templ>) -> String {
    const ELEMS: &[&str] = &["col_a a", "col_b b", "col_c", "COL_d d", "col_e AS e", "col_f  f", "1 AS One", "Col_G"];
    let mut s = String::from("SELECT\n");
    for i in 0..rng.range(0, pad_max) {
        match rng.below(8) {
            0 => {}
            1 => s.push_str("    -- a plain comment"),
            2 => s.push_str(&format!("    col_{} p{},", i, i)),
            _ => s.push_str(&format!("    col_{},", i)),
        }
        s.push('\n');
    }
    for _ in 0..rng.range(2, 6) {
        s.push_str(&indentation(rng));
        if rng.chance(1, 4) {
            s.push_str(&list_directive(rng, true, templ));
            s.push_str(["", " ", "  "][rng.below(3)]);
        }
        for _ in 0..rng.range(1, 3) {
            match templ {
                Some(t) if rng.chance(1, 2) => {
                    s.push_str(&placeholder(rng, t));
                    if rng.chance(1, 3) {
                        s.push_str(" z");
                    }
                }
                _ => s.push_str(ELEMS[rng.below(ELEMS.len())]),
            }
            s.push(',');
            s.push_str(["", " ", " ", "  "][rng.below(4)]);
            if rng.chance(1, 5) {
                s.push_str(&list_directive(rng, true, templ));
                s.push(' ');
            }
        }
        if rng.chance(1, 2) {
            let block = rng.chance(1, 4);
            s.push_str(&list_directive(rng, block, templ));
        }
        s.push('\n');
    }
    s.push_str("    1\nFROM foo\n");
    s
}

type Linters = std::collections::HashMap<(String, String, bool, String), Linter>;
fn linter<'a>(ls: &'a mut Linters, dialect: &str, rules: &str, off: bool, templ: Option<&Templ>) -> &'a Linter {
    let tkey = templ.map(|t| t.json().to_string()).unwrap_or_default();
    ls.entry((dialect.to_string(), rules.to_string(), off, tkey)).or_insert_with(|| mk_linter(dialect, rules, off, templ))
}

struct Item {
    group: &'static str,
    cls: &'static str,
    dialect: String,
    rules: String,
    sql: String,
    templ: Option<Templ>,
}

fn run_one(ls: &mut Linters, it: &Item, out: &mut Buf) {
    let (group, cls, dialect, rules, sql) = (it.group, it.cls, it.dialect.as_str(), it.rules.as_str(), it.sql.as_str());
    out.count("files", 1);
    let templ = it.templ.as_ref();
    let tkey = templ.map(|t| t.json().to_string()).unwrap_or_default();
    linter(ls, dialect, rules, true, templ);
    linter(ls, dialect, rules, false, templ);
    let off = &ls[&(dialect.to_string(), rules.to_string(), true, tkey.clone())];
    let on = &ls[&(dialect.to_string(), rules.to_string(), false, tkey)];
    let input = json!({"dialect":dialect,"rules":rules,"sql":sql,"templ":templ.map(|t| t.json())});
    let r = catch(|| {
        let a = off.lint_string(sql, None, false);
        let b = on.lint_string(sql, None, false);
        let tables = Tables::default();
        let parsed = on.parse_string(&tables, sql, None).unwrap();
        let n_parse_vs = parsed.violations.len();
        let mut templated_pos: Vec<(usize, usize)> = vec![];
        let comments: Vec<(String, usize, usize)> = match &parsed.tree {
            Some(tree) => tree
                .recursive_crawl(
                    &SyntaxSet::new(&[SyntaxKind::Comment, SyntaxKind::InlineComment, SyntaxKind::BlockComment]),
                    false,
                    &SyntaxSet::new(&[]),
                    false,
                )
                .into_iter()
                .map(|c| {
                    let (l, p) = c.get_position_marker().unwrap().source_position();
                    templated_pos.push(c.get_position_marker().unwrap().templated_position());
                    (c.raw().to_string(), l, p)
                })
                .collect(),
            None => vec![],
        };
        (a.violations, b.violations, n_parse_vs, comments, templated_pos)
    });
    let (all_vs, on_vs, n_parse_vs, comments, templated_pos) = match r {
        Ok(x) => x,
        Err(msg) => {
            out.count("panics", 1);
            out.direct("panic", false, "c10-panic", &format!("lint panicked: {}", msg), input);
            return;
        }
    };
    if comments.iter().any(|(raw, _, _)| !raw.is_ascii()) {
        out.count("non_ascii_skipped", 1);
        return;
    }
    // with noqa off the list is parse violations then rule violations
    let n_parse_vs = n_parse_vs.min(all_vs.len());
    let (pvs, rvs) = all_vs.split_at(n_parse_vs);
    let masked_any = on_vs.len() < all_vs.len();
    if masked_any {
        out.count("files_with_masked_violation", 1);
    }
    if comments.iter().any(|(raw, _, _)| raw.contains("able=")) {
        out.count("files_with_range_directive", 1);
    }
    // how far the inputs spread over the positions the mask compares
    let range_ds: Vec<(usize, (usize, usize), (usize, usize))> = comments
        .iter()
        .enumerate()
        .filter(|(_, (raw, _, _))| raw.contains("noqa") && raw.contains("able="))
        .map(|(i, (_, l, p))| (i, (*l, *p), templated_pos[i]))
        .collect();
    if range_ds.iter().any(|(_, (l, p), _)| all_vs.iter().any(|v| v.line_no == *l && v.line_pos < *p)) {
        out.count("files_with_violation_before_range_directive_on_its_line", 1);
    }
    if range_ds.iter().any(|(_, (l, p), _)| all_vs.iter().any(|v| v.line_no == *l && v.line_pos > *p)) {
        out.count("files_with_violation_behind_range_directive_on_its_line", 1);
    }
    if range_ds.iter().any(|(_, (l, p), _)| p <= l) {
        out.count("files_with_range_directive_column_at_most_line_number", 1);
    }
    if range_ds.iter().any(|(_, (l, _), _)| all_vs.iter().any(|v| v.line_no == *l && v.line_pos <= *l)) {
        out.count("files_with_violation_column_at_most_line_number_on_directive_line", 1);
    }
    if it.templ.is_some() {
        out.count("files_templated", 1);
        if comments.iter().zip(&templated_pos).any(|((raw, l, p), (tl, tp))| raw.contains("noqa") && l == tl && p != tp) {
            out.count("files_templated_directive_column_shifted", 1);
        }
        if comments.iter().zip(&templated_pos).any(|((raw, l, _), (tl, _))| raw.contains("noqa") && l != tl) {
            out.count("files_templated_directive_line_shifted", 1);
        }
    }
    if on_vs.iter().any(|v| v.rule.is_none() && v.description.contains("noqa")) {
        out.count("files_with_malformed_directive_error", 1);
    }
    let args = g_tuple(&[
        g_list(comments.iter().map(|(raw, l, p)| g_tuple(&[g_str(raw), g_n(*l), g_n(*p)]))),
        g_list(pvs.iter().map(viol_g)),
        g_list(rvs.iter().map(viol_g)),
    ]);
    let exp = g_list(on_vs.iter().map(viol_g));
    let sample = json!({"input":input,"comments":comments,"all":all_vs.iter().map(viol_j).collect::<Vec<_>>(),"reported":on_vs.iter().map(viol_j).collect::<Vec<_>>()});
    out.case(group, cls, masked_any && !all_vs.is_empty(), args, exp, sample);
}

pub fn main(args: &Args) {
    silence_panics();
    let mut out = Out::new(&args.out);
    let mut rng = Rng::new(args.seed);
    let mut items: Vec<Item> = vec![];
    let mut push_t = |group: &'static str, cls: &'static str, dialect: &str, rules: &str, sql: &str, templ: Option<Templ>| {
        items.push(Item { group, cls, dialect: dialect.to_string(), rules: rules.to_string(), sql: sql.to_string(), templ })
    };

    if let Some(path) = args.flag("--replay-input") {
        let v: serde_json::Value = serde_json::from_str(&std::fs::read_to_string(path).unwrap()).unwrap();
        let v = if v.get("input").is_some() { v["input"].clone() } else { v };
        push_t("readme", "replay", v["dialect"].as_str().unwrap(), v["rules"].as_str().unwrap(), v["sql"].as_str().unwrap(), Templ::from_json(&v["templ"]));
    } else {
        let mut push = |group: &'static str, cls: &'static str, dialect: &str, rules: &str, sql: &str| push_t(group, cls, dialect, rules, sql, None);
        // regression corpus first
        let fixed: &[(&str, &str)] = &[
            ("CP01,LT01", "SeLeCt  1 from tBl ; -- noqa: disable=CP01\nSeLeCt  1 from tBl ;\nSeLeCt  1 from tBl ; -- noqa: enable=all\nSeLeCt  1 from tBl ;\n"),
            ("CP01,AL02", "SELECT col_a a FROM foo -- noqa: disable=all\nSELECT col_a a FROM foo -- noqa: enable=AL02\nSELECT col_a a FrOM foo\n"),
            ("AL02", "SELECT\n    col_a a,\n    col_c c, --noqa: disable=AL02\n    col_d d,\n    col_e e, --noqa: enable=AL02\n    col_f f\nFROM foo\n"),
            ("CP01,LT01,AL02", "SeLeCt  1 from tBl ;    -- noqa\nSeLeCt  1 from tBl ;    -- noqa: CP01,LT01\n"),
            ("AL02,CP01", "SELECT\n/* noqa: CP01 */ col_a a, col_b b -- noqa: AL02\nFROM foo\n"),
            ("AL02,CP01", "SELECT\n/* noqa: CP01 */ col_a a, col_b b -- noqa\nFROM foo\n"),
            ("AL02", "SELECT\n    col_a a, --noqa: disable=all\n    col_b b, --noqa: enable=AL02\n    col_c c, --noqa: disable=all\n    col_d d,\n    col_e e --noqa: enable=all\nFROM foo\n"),
        ];
        for (rules, sql) in fixed {
            push("readme", "regression", "ansi", rules, sql);
        }
        let (n_readme, n_odd) = if args.thorough() { (12000, 4000) } else { (1200, 500) };
        for i in 0..n_readme {
            let dialect = if i % 5 == 4 { DIALECTS[rng.below(DIALECTS.len())] } else { "ansi" };
            let rules = RULESETS[rng.below(RULESETS.len())];
            let sql = gen_file(&mut rng, false, &Shape::default());
            push("readme", "readme-forms", dialect, rules, &sql);
        }
        for _ in 0..n_odd {
            let rules = RULESETS[rng.below(RULESETS.len())];
            let sql = gen_file(&mut rng, true, &Shape::default());
            push("odd", "odd-forms", "ansi", rules, &sql);
        }
        // ---- positions: deep files, indentation, directives inside a select list
        let crlf = |rng: &mut Rng, sql: String| if rng.chance(1, 12) { sql.replace('\n', "\r\n") } else { sql };
        let some_dialect = |rng: &mut Rng| if rng.chance(1, 5) { DIALECTS[rng.below(DIALECTS.len())] } else { "ansi" };
        const LIST_RULES: &[&str] = &["AL02", "AL02,CP02,LT01", "AL02,CP02", "core", "all"];
        let k = if args.thorough() { 8 } else { 1 };
        // the grid (line, column) of a leading and a trailing range directive around two violations
        {
            let mut cells: Vec<(usize, usize)> = (2..=64).flat_map(|l| (1..=64).map(move |c| (l, c))).collect();
            if !args.thorough() {
                rng.shuffle(&mut cells);
                cells.truncate(150);
            }
            for (l, c) in cells {
                let mut sql = String::from("SELECT\n");
                for i in 2..l {
                    sql.push_str(&format!("    col_{},\n", i));
                }
                sql.push_str(&" ".repeat(c - 1));
                sql.push_str("/* noqa: disable=AL02 */ col_x x, col_y y, -- noqa: enable=AL02\n    col_z z\nFROM foo\n");
                push("readme", "grid-line-column", "ansi", "AL02", &sql);
            }
        }
        for i in 0..330 * k {
            let odd = i % 4 == 3;
            let rules = RULESETS[rng.below(RULESETS.len())];
            let shape = Shape { pad_max: if rng.chance(1, 4) { 0 } else { 60 }, indent: rng.chance(3, 4), templ: None };
            let sql = gen_file(&mut rng, odd, &shape);
            let sql = crlf(&mut rng, sql);
            let dialect = some_dialect(&mut rng);
            push(if odd { "odd" } else { "readme" }, if odd { "deep-files-odd" } else { "deep-files" }, dialect, rules, &sql);
        }
        for _ in 0..450 * k {
            let rules = LIST_RULES[rng.below(LIST_RULES.len())];
            let pad = if rng.chance(1, 3) { 0 } else { 60 };
            let sql = gen_list(&mut rng, pad, None);
            let sql = crlf(&mut rng, sql);
            let dialect = some_dialect(&mut rng);
            push("readme", "placed-list", dialect, rules, &sql);
        }
        // ---- the placeholder templater: source positions differ from positions in the templated text
        drop(push);
        let templ_regression: &[(&str, &str, &[(&str, &str)], &str)] = &[
            ("AL02", "colon", &[("ml", "col_m,\n    col_n n")], "SELECT\n    :ml,\n    col_b b, -- noqa: AL02\n    col_c c\nFROM foo\n"),
        ];
        for (rules, style, params, sql) in templ_regression {
            let t = Templ { style: style.to_string(), params: params.iter().map(|(k, v)| (k.to_string(), v.to_string())).collect(), api: false };
            push_t("readme", "templated-regression", "ansi", rules, sql, Some(t));
        }
        for _ in 0..350 * k {
            let rules = LIST_RULES[rng.below(LIST_RULES.len())];
            let t = gen_templ(&mut rng);
            let pad = if rng.chance(1, 2) { 0 } else { 30 };
            let sql = gen_list(&mut rng, pad, Some(&t));
            let sql = crlf(&mut rng, sql);
            let dialect = some_dialect(&mut rng);
            push_t("readme", "templated-list", dialect, rules, &sql, Some(t));
        }
        for i in 0..200 * k {
            let odd = i % 5 == 4;
            let rules = RULESETS[rng.below(RULESETS.len())];
            let t = gen_templ(&mut rng);
            let shape = Shape { pad_max: if rng.chance(1, 2) { 0 } else { 30 }, indent: rng.chance(1, 2), templ: Some(&t) };
            let sql = gen_file(&mut rng, odd, &shape);
            let sql = crlf(&mut rng, sql);
            push_t(if odd { "odd" } else { "readme" }, if odd { "templated-stmts-odd" } else { "templated-stmts" }, "ansi", rules, &sql, Some(t));
        }
        let mut push = |group: &'static str, cls: &'static str, dialect: &str, rules: &str, sql: &str| push_t(group, cls, dialect, rules, sql, None);
        if args.thorough() {
            // exhaustive: one of 8 directives or none on each of 4 statement lines
            let alphabet = [
                "-- noqa: disable=CP01",
                "-- noqa: enable=CP01",
                "-- noqa: disable=all",
                "-- noqa: enable=all",
                "-- noqa: disable=LT01",
                "-- noqa: enable=LT01",
                "-- noqa",
                "-- noqa: CP01",
            ];
            let lines = 4usize;
            let opts = alphabet.len() + 1;
            let total = opts.pow(lines as u32);
            for code in 1..total {
                let mut c = code;
                let mut sql = String::new();
                for _ in 0..lines {
                    let k = c % opts;
                    c /= opts;
                    sql.push_str("SeLeCt  1 from tBl ;");
                    if k > 0 {
                        sql.push(' ');
                        sql.push_str(alphabet[k - 1]);
                    }
                    sql.push('\n');
                }
                push("readme", "exhaustive-4-lines", "ansi", "CP01,LT01", &sql);
            }
        }
    }
    par_run(&mut out, &items, Linters::new, run_one);
    out.finish();
}
