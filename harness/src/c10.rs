//! C10 — noqa directives mask exactly what they say.
//! Generates SQL files with directive comments, lints each with noqa off and on,
//! extracts the comment leaves with their source positions and emits the
//! correspondence case `lint_noqa comments parse_vs rule_vs == reported`.
use serde_json::json;
use sqruff_lib::core::config::FluffConfig;
use sqruff_lib::core::linter::core::Linter;
use sqruff_lib_core::dialects::syntax::{SyntaxKind, SyntaxSet};
use sqruff_lib_core::errors::SQLBaseError;
use sqruff_lib_core::parser::segments::base::Tables;

use crate::common::*;

const STMTS: &[&str] = &[
    "SeLeCt  1 from tBl ;",
    "SELECT col_a a FROM foo",
    "select a,b from t",
    "SELECT  a  AS x,  b y FROM  t  WHERE a=1",
    "SELECT a FROM t;",
    "select A from T where B  in (1,2)",
];
const RULESETS: &[&str] = &["CP01,LT01,AL02", "CP01,CP02,LT01,LT02,AL02,AL01", "core", "all", "CP01", "LT01,AL02"];
const CODES: &[&str] = &["CP01", "LT01", "AL02", "CP02", "LT02", "AL01", "XX99"];

fn viol_g(v: &SQLBaseError) -> String {
    g_tuple(&[g_n(v.line_no), g_n(v.line_pos), g_opt(v.rule.as_ref().map(|r| g_str(r.code)))])
}
fn viol_j(v: &SQLBaseError) -> serde_json::Value {
    json!([v.line_no, v.line_pos, v.rule.as_ref().map(|r| r.code)])
}

fn mk_linter(dialect: &str, rules: &str, disable_noqa: bool) -> Linter {
    let src = format!(
        "[sqruff]\ndialect = {}\nrules = {}\n{}",
        dialect,
        rules,
        if disable_noqa { "disable_noqa = True\n" } else { "" }
    );
    Linter::new(FluffConfig::from_source(&src, None), None, None, true)
}

/// README forms with arbitrary interior whitespace where the forms allow it.
fn readme_directive(rng: &mut Rng) -> String {
    let sp = |rng: &mut Rng| ["", " ", "  "][rng.below(3)].to_string();
    let codes = |rng: &mut Rng, n: usize| -> Vec<&'static str> { (0..n).map(|_| CODES[rng.below(CODES.len() - 1)]).collect() };
    match rng.below(7) {
        0 => format!("--{}noqa", sp(rng)),
        1 => {
            let n = rng.range(1, 3);
            format!("--{}noqa:{}{}", sp(rng), sp(rng), codes(rng, n).join(","))
        }
        2 => {
            let n = rng.range(1, 2);
            format!("--{}noqa:{}disable={}", sp(rng), sp(rng), codes(rng, n).join(","))
        }
        3 => {
            let n = rng.range(1, 2);
            format!("--{}noqa:{}enable={}", sp(rng), sp(rng), codes(rng, n).join(","))
        }
        4 => format!("--{}noqa:{}disable=all", sp(rng), sp(rng)),
        5 => format!("--{}noqa:{}enable=all", sp(rng), sp(rng)),
        _ => {
            let inner = match rng.below(7) {
                0 => "noqa: disable=all".to_string(),
                1 => "noqa: enable=all".to_string(),
                2 => format!("noqa: disable={}", CODES[rng.below(3)]),
                3 => format!("noqa: enable={}", CODES[rng.below(3)]),
                4 => "noqa".to_string(),
                5 => format!("noqa: {}", CODES[rng.below(6)]),
                _ => format!("noqa: {},{}", CODES[rng.below(6)], CODES[rng.below(6)]),
            };
            format!("/* {} */", inner)
        }
    }
}

/// Directive-like comments outside the README forms (malformed, odd spacing, prefixes).
fn odd_directive(rng: &mut Rng) -> String {
    const ODD: &[&str] = &[
        "-- noqa?",
        "-- noqa:",
        "-- noqa: ",
        "-- noqa: disable=",
        "-- noqa: enable= ,",
        "-- noqa : CP01",
        "-- noqa: CP01, LT01",
        "-- noqa: CP01 ,LT01",
        "-- noqa: disable=CP01 , LT01",
        "-- noqa: disable = CP01",
        "-- NOQA",
        "-- noqa: all",
        "-- noqa:disable=all,CP01",
        "-- text -- noqa: LT01",
        "-- text --- noqa",
        "-- text ---- noqa: disable=all",
        "-- noqa -- text",
        "--noqa:enable=CP01,,LT01",
        "/* noqa */",
        "/*noqa: disable=CP01*/",
        "/* noqa: CP01 */",
        "/* text -- noqa: enable=all */",
        "/**/",
        "/*/",
        "-- noqa:\tdisable=all",
        "-- noqa\t",
        "--\tnoqa: CP01",
        "-- noqaX",
        "-- noqa:disable=all extra",
    ];
    ODD[rng.below(ODD.len())].to_string()
}

fn gen_file(rng: &mut Rng, odd: bool) -> String {
    let nlines = rng.range(2, 7);
    let mut s = String::new();
    for _ in 0..nlines {
        let kind = rng.below(10);
        if kind < 7 {
            s.push_str(STMTS[rng.below(STMTS.len())]);
            if rng.chance(3, 5) {
                s.push_str(["", " ", "    "][rng.below(3)]);
                let d = if odd && rng.chance(1, 2) { odd_directive(rng) } else { readme_directive(rng) };
                if d.starts_with("/*") && rng.chance(1, 2) {
                    // block comment in the middle of a line: put it before the statement instead
                    let stmt_start = s.rfind('\n').map(|i| i + 1).unwrap_or(0);
                    s.insert_str(stmt_start, &format!("{} ", d));
                    // ... and sometimes a second directive at the end of the same line
                    if rng.chance(1, 2) {
                        let d2 = if odd && rng.chance(1, 3) { odd_directive(rng) } else { readme_directive(rng) };
                        s.push(' ');
                        s.push_str(&d2);
                    }
                } else {
                    s.push_str(&d);
                }
            }
        } else if kind < 9 {
            let d = if odd && rng.chance(1, 2) { odd_directive(rng) } else { readme_directive(rng) };
            s.push_str(&d);
        }
        s.push('\n');
    }
    s
}

type Linters = std::collections::HashMap<(String, String, bool), Linter>;
fn linter<'a>(ls: &'a mut Linters, dialect: &str, rules: &str, off: bool) -> &'a Linter {
    ls.entry((dialect.to_string(), rules.to_string(), off)).or_insert_with(|| mk_linter(dialect, rules, off))
}

struct Item {
    group: &'static str,
    cls: &'static str,
    dialect: String,
    rules: String,
    sql: String,
}

fn run_one(ls: &mut Linters, it: &Item, out: &mut Buf) {
    let (group, cls, dialect, rules, sql) = (it.group, it.cls, it.dialect.as_str(), it.rules.as_str(), it.sql.as_str());
    out.count("files", 1);
    linter(ls, dialect, rules, true);
    linter(ls, dialect, rules, false);
    let off = &ls[&(dialect.to_string(), rules.to_string(), true)];
    let on = &ls[&(dialect.to_string(), rules.to_string(), false)];
    let input = json!({"dialect":dialect,"rules":rules,"sql":sql});
    let r = catch(|| {
        let a = off.lint_string(sql, None, false);
        let b = on.lint_string(sql, None, false);
        let tables = Tables::default();
        let parsed = on.parse_string(&tables, sql, None).unwrap();
        let n_parse_vs = parsed.violations.len();
        let comments: Vec<(String, usize, usize)> = match &parsed.tree {
            Some(tree) => tree
                .recursive_crawl(
                    &SyntaxSet::new(&[SyntaxKind::Comment, SyntaxKind::InlineComment, SyntaxKind::BlockComment]),
                    false,
                    &SyntaxSet::new(&[]),
                    false,
                )
                .into_iter()
                .map(|c| {
                    let (l, p) = c.get_position_marker().unwrap().source_position();
                    (c.raw().to_string(), l, p)
                })
                .collect(),
            None => vec![],
        };
        (a.violations, b.violations, n_parse_vs, comments)
    });
    let (all_vs, on_vs, n_parse_vs, comments) = match r {
        Ok(x) => x,
        Err(msg) => {
            out.count("panics", 1);
            out.direct("panic", false, "c10-panic", &format!("lint panicked: {}", msg), input);
            return;
        }
    };
    if comments.iter().any(|(raw, _, _)| !raw.is_ascii()) {
        out.count("non_ascii_skipped", 1);
        return;
    }
    // with noqa off the list is parse violations then rule violations
    let n_parse_vs = n_parse_vs.min(all_vs.len());
    let (pvs, rvs) = all_vs.split_at(n_parse_vs);
    let masked_any = on_vs.len() < all_vs.len();
    if masked_any {
        out.count("files_with_masked_violation", 1);
    }
    if comments.iter().any(|(raw, _, _)| raw.contains("able=")) {
        out.count("files_with_range_directive", 1);
    }
    if on_vs.iter().any(|v| v.rule.is_none() && v.description.contains("noqa")) {
        out.count("files_with_malformed_directive_error", 1);
    }
    let args = g_tuple(&[
        g_list(comments.iter().map(|(raw, l, p)| g_tuple(&[g_str(raw), g_n(*l), g_n(*p)]))),
        g_list(pvs.iter().map(viol_g)),
        g_list(rvs.iter().map(viol_g)),
    ]);
    let exp = g_list(on_vs.iter().map(viol_g));
    let sample = json!({"input":input,"comments":comments,"all":all_vs.iter().map(viol_j).collect::<Vec<_>>(),"reported":on_vs.iter().map(viol_j).collect::<Vec<_>>()});
    out.case(group, cls, masked_any && !all_vs.is_empty(), args, exp, sample);
}

pub fn main(args: &Args) {
    silence_panics();
    let mut out = Out::new(&args.out);
    let mut rng = Rng::new(args.seed);
    let mut items: Vec<Item> = vec![];
    let mut push = |group: &'static str, cls: &'static str, dialect: &str, rules: &str, sql: &str| {
        items.push(Item { group, cls, dialect: dialect.to_string(), rules: rules.to_string(), sql: sql.to_string() })
    };

    if let Some(path) = args.flag("--replay-input") {
        let v: serde_json::Value = serde_json::from_str(&std::fs::read_to_string(path).unwrap()).unwrap();
        let v = if v.get("input").is_some() { v["input"].clone() } else { v };
        push("readme", "replay", v["dialect"].as_str().unwrap(), v["rules"].as_str().unwrap(), v["sql"].as_str().unwrap());
    } else {
        // regression corpus first
        let fixed: &[(&str, &str)] = &[
            ("CP01,LT01", "SeLeCt  1 from tBl ; -- noqa: disable=CP01\nSeLeCt  1 from tBl ;\nSeLeCt  1 from tBl ; -- noqa: enable=all\nSeLeCt  1 from tBl ;\n"),
            ("CP01,AL02", "SELECT col_a a FROM foo -- noqa: disable=all\nSELECT col_a a FROM foo -- noqa: enable=AL02\nSELECT col_a a FrOM foo\n"),
            ("AL02", "SELECT\n    col_a a,\n    col_c c, --noqa: disable=AL02\n    col_d d,\n    col_e e, --noqa: enable=AL02\n    col_f f\nFROM foo\n"),
            ("CP01,LT01,AL02", "SeLeCt  1 from tBl ;    -- noqa\nSeLeCt  1 from tBl ;    -- noqa: CP01,LT01\n"),
            ("AL02,CP01", "SELECT\n/* noqa: CP01 */ col_a a, col_b b -- noqa: AL02\nFROM foo\n"),
            ("AL02,CP01", "SELECT\n/* noqa: CP01 */ col_a a, col_b b -- noqa\nFROM foo\n"),
            ("AL02", "SELECT\n    col_a a, --noqa: disable=all\n    col_b b, --noqa: enable=AL02\n    col_c c, --noqa: disable=all\n    col_d d,\n    col_e e --noqa: enable=all\nFROM foo\n"),
        ];
        for (rules, sql) in fixed {
            push("readme", "regression", "ansi", rules, sql);
        }
        let (n_readme, n_odd) = if args.thorough() { (12000, 4000) } else { (1200, 500) };
        for i in 0..n_readme {
            let dialect = if i % 5 == 4 { DIALECTS[rng.below(DIALECTS.len())] } else { "ansi" };
            let rules = RULESETS[rng.below(RULESETS.len())];
            let sql = gen_file(&mut rng, false);
            push("readme", "readme-forms", dialect, rules, &sql);
        }
        for _ in 0..n_odd {
            let rules = RULESETS[rng.below(RULESETS.len())];
            let sql = gen_file(&mut rng, true);
            push("odd", "odd-forms", "ansi", rules, &sql);
        }
        if args.thorough() {
            // exhaustive: one of 8 directives or none on each of 4 statement lines
            let alphabet = [
                "-- noqa: disable=CP01",
                "-- noqa: enable=CP01",
                "-- noqa: disable=all",
                "-- noqa: enable=all",
                "-- noqa: disable=LT01",
                "-- noqa: enable=LT01",
                "-- noqa",
                "-- noqa: CP01",
            ];
            let lines = 4usize;
            let opts = alphabet.len() + 1;
            let total = opts.pow(lines as u32);
            for code in 1..total {
                let mut c = code;
                let mut sql = String::new();
                for _ in 0..lines {
                    let k = c % opts;
                    c /= opts;
                    sql.push_str("SeLeCt  1 from tBl ;");
                    if k > 0 {
                        sql.push(' ');
                        sql.push_str(alphabet[k - 1]);
                    }
                    sql.push('\n');
                }
                push("readme", "exhaustive-4-lines", "ansi", "CP01,LT01", &sql);
            }
        }
    }
    par_run(&mut out, &items, Linters::new, run_one);
    out.finish();
}
