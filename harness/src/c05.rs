//! C05 — fix never turns SQL that parsed into SQL that does not.
//!
//! Direct observation (the deciding part; the Coq side is only the decomposition theorem):
//! for every dialect x rule selection {all, core, each group, each single fix-compatible rule} x
//! rule configuration {default, every non-default value of every option a fix-compatible rule reads,
//! combined non-default configurations, layout configurations} x fully parsable input:
//! `parse(fix(source))` has no Unparsable node and no parse error.
//! Input classes:
//!  * `probe`      token-adjacency probes of C06 and minimised earlier failures;
//!  * `corpus` / `scrambled` / `collapsed` / `recased`   dialect fixtures and their perturbations;
//!  * `statement`  single statements cut out of the fixtures (also of the files too big to run whole);
//!  * `joint-*`    a line-ending inline comment / block comment / bare line break put at one joint
//!                 between two code tokens — *also where the source has no gap* (`a[1]`, `x::int`,
//!                 `f(`, `s.t`): systematically at every joint of the touch-site probes, sampled
//!                 (biased to brackets, casts, dots, colons, signs) in fixture statements; the rest
//!                 of the statement one token group per line, so that a swallowed token is missed;
//!  * `option`     fixture statements relevant to a rule (its trigger words occur; chosen so that every
//!                 distinct local context of the trigger in the dialect's fixtures is met) under each
//!                 non-default value of the rule's options, rule alone and inside its group / `all`;
//!  * `synth`      generated queries: 1-4 sources (tables, aliased / unaliased derived tables, nested,
//!                 VALUES, LATERAL, table functions, CTE references, FROM elements and SELECTs cut out
//!                 of the fixtures) x every join kind the dialect parses (incl. semi / anti / asof /
//!                 natural / comma) x ON / USING / no condition x select lists x WHERE / GROUP BY /
//!                 ORDER BY tails, alone or under CTEs, set operators, INSERT / CREATE ... AS, derived
//!                 wrappers; under default and non-default configurations;
//!  * `snippet`    the repository's own cases of each rule (yaml fixtures), under the rule, `all`, and every
//!                 non-default option value of the rule (rule alone / its group / `all`);
//!  * `script`     2-3 statements in one file, each ended in one of nine ways (terminator on the line, on
//!                 its own line, before / behind an inline or block comment, next statement on the same line,
//!                 no terminator at the end of the file), statements as in the fixtures or one token group per
//!                 line; `all` under the default configuration, every configuration of the terminator rule, a
//!                 combined one, another rule's option; narrower selections by lot;
//!  * `templated-*` sources of the `placeholder` templater whose rendered text parses (the configuration
//!                 carries the templater and its parameters; source and fix output are parsed through it):
//!                 token-level twins of rule cases / fixture statements (as is, one token group per line,
//!                 scrambled) / generated queries - one value or a short run of tokens (`a.id`, `x + 1`)
//!                 per placeholder, all of a random subset or exactly one -, `c04::templatise` over fixture
//!                 statements and `c04::gen_shape`; under `all`, the case's rule / group, other selections and
//!                 option configurations by lot.
//! Also measures the antecedents of `C05_decomposition` on layout / capitalisation selections
//! (diagnostic): code tokens preserved (C06), preserved up to ASCII case (C16), gap pattern unchanged.
use std::collections::{BTreeMap, HashMap, HashSet};

use serde_json::{Value, json};
use sqruff_lib::core::config::FluffConfig;
use sqruff_lib::core::linter::core::Linter;
use sqruff_lib::core::linter::core::verif_hook::FIX_HOOK;
use sqruff_lib::core::rules::base::RuleGroups;
use sqruff_lib_core::dialects::syntax::{SyntaxKind, SyntaxSet};
use sqruff_lib_core::parser::segments::base::{ErasedSegment, Tables};

use crate::c04::{Templ, gen_shape, templatise};
use crate::c06::{FUSION_PROBES, LAYOUT_CFGS, LayoutCfg, Linters, code_of, collapse, fnv, install_hook, lex_tokens, linter, scramble, take_rec};
use crate::common::*;

fn parse_tree(lt: &Linter, sql: &str) -> Result<(usize, usize, Option<ErasedSegment>), String> {
    let tables = Tables::default();
    let r = catch(|| lt.parse_string(&tables, sql, None));
    match r {
        Ok(Ok(p)) => {
            let unp = match &p.tree {
                Some(t) => t.recursive_crawl(&SyntaxSet::single(SyntaxKind::Unparsable), true, &SyntaxSet::EMPTY, true).len(),
                None => 0,
            };
            Ok((unp, p.violations.len(), p.tree))
        }
        Ok(Err(e)) => Err(format!("{:?}", e)),
        Err(p) => Err(format!("panic: {}", p)),
    }
}
/// (number of Unparsable nodes, number of parse violations, tree present)
fn parse_status(lt: &Linter, sql: &str) -> Result<(usize, usize, bool), String> {
    parse_tree(lt, sql).map(|(u, v, t)| (u, v, t.is_some()))
}
fn parses_cleanly(lt: &Linter, sql: &str) -> bool {
    matches!(parse_status(lt, sql), Ok((0, 0, true)))
}

pub fn selections() -> Vec<(String, &'static str)> {
    let mut v: Vec<(String, &'static str)> = vec![("all".into(), "all"), ("core".into(), "core")];
    for g in GROUPS {
        v.push((g.to_string(), "group"));
    }
    for r in sqruff_lib::rules::rules() {
        if r.is_fix_compatible() {
            v.push((r.code().to_string(), "single"));
        }
    }
    v
}
const GROUPS: [&str; 7] = ["aliasing", "ambiguous", "capitalisation", "convention", "layout", "references", "structure"];
fn is_layout_or_caps(sel: &str) -> bool {
    sel == "layout" || sel == "capitalisation" || sel.starts_with("LT") || sel.starts_with("CP")
}
fn _groups_exist() {
    // the group names above are the lower-cased RuleGroups variants
    let _ = [RuleGroups::Aliasing, RuleGroups::Ambiguous, RuleGroups::Capitalisation, RuleGroups::Convention, RuleGroups::Layout, RuleGroups::References, RuleGroups::Structure];
}
fn group_of(code: &str) -> &'static str {
    match &code[..2] {
        "AL" => "aliasing",
        "AM" => "ambiguous",
        "CP" => "capitalisation",
        "CV" => "convention",
        "LT" => "layout",
        "RF" => "references",
        _ => "structure",
    }
}
fn sel_kind(sel: &str) -> &'static str {
    match sel {
        "all" => "all",
        "core" => "core",
        s if GROUPS.contains(&s) => "group",
        _ => "single",
    }
}

// ------------------------------------------------------------------ rule options
/// CV10 `force_enable`: "disabled for dialects that do not support single and double quotes for quoted
/// literals": forcing it where a double-quoted token is an identifier asks for a different statement, not
/// for a restyled one. These are the dialects whose double-quoted tokens are string literals.
const QUOTE_DIALECTS: &[&str] = &["bigquery", "sparksql", "databricks", "mysql"];
/// (rule code, non-default option lines of the rule's section, trigger words: a statement is relevant
/// when its lower-cased text contains one of them; empty = every statement is relevant, dialects in which
/// the configuration is meaningful; empty = all)
const RULE_OPTS: &[(&str, &str, &[&str], &[&str])] = &[
    ("AL01", "aliasing = implicit", &[" as "], &[]),
    ("AL02", "aliasing = implicit", &[" as "], &[]),
    ("AL07", "force_enable = True", &["join", " as ", "from"], &[]),
    ("AM05", "fully_qualify_join_types = outer", &["join"], &[]),
    ("AM05", "fully_qualify_join_types = both", &["join"], &[]),
    ("CP01", "capitalisation_policy = upper", &[], &[]),
    ("CP01", "capitalisation_policy = lower", &[], &[]),
    ("CP01", "capitalisation_policy = capitalise", &[], &[]),
    ("CP02", "extended_capitalisation_policy = upper", &[], &[]),
    ("CP02", "extended_capitalisation_policy = lower", &[], &[]),
    ("CP02", "extended_capitalisation_policy = pascal", &[], &[]),
    ("CP02", "extended_capitalisation_policy = capitalise", &[], &[]),
    ("CP02", "extended_capitalisation_policy = upper\nunquoted_identifiers_policy = aliases", &[" as "], &[]),
    ("CP02", "extended_capitalisation_policy = lower\nunquoted_identifiers_policy = column_aliases", &[" as "], &[]),
    ("CP03", "extended_capitalisation_policy = upper", &["("], &[]),
    ("CP03", "extended_capitalisation_policy = lower", &["("], &[]),
    ("CP03", "extended_capitalisation_policy = pascal", &["("], &[]),
    ("CP03", "extended_capitalisation_policy = capitalise", &["("], &[]),
    ("CP04", "capitalisation_policy = upper", &["null", "true", "false"], &[]),
    ("CP04", "capitalisation_policy = lower", &["null", "true", "false"], &[]),
    ("CP04", "capitalisation_policy = capitalise", &["null", "true", "false"], &[]),
    ("CP05", "extended_capitalisation_policy = upper", &["int", "char", "date", "time", "numeric", "decimal", "cast", "::", "create"], &[]),
    ("CP05", "extended_capitalisation_policy = lower", &["int", "char", "date", "time", "numeric", "decimal", "cast", "::", "create"], &[]),
    ("CP05", "extended_capitalisation_policy = capitalise", &["int", "char", "date", "time", "numeric", "decimal", "cast", "::", "create"], &[]),
    ("CV01", "preferred_not_equal_style = c_style", &["<>", "!="], &[]),
    ("CV01", "preferred_not_equal_style = ansi", &["<>", "!="], &[]),
    ("CV06", "multiline_newline = True", &[], &[]),
    ("CV06", "require_final_semicolon = True", &[], &[]),
    ("CV06", "multiline_newline = True\nrequire_final_semicolon = True", &[], &[]),
    ("CV10", "preferred_quoted_literal_style = single_quotes\nforce_enable = True", &["'", "\""], QUOTE_DIALECTS),
    ("CV10", "preferred_quoted_literal_style = double_quotes\nforce_enable = True", &["'", "\""], QUOTE_DIALECTS),
    ("CV10", "force_enable = True", &["'", "\""], QUOTE_DIALECTS),
    ("CV10", "preferred_quoted_literal_style = single_quotes", &["'", "\""], &["bigquery", "sparksql"]),
    ("CV10", "preferred_quoted_literal_style = double_quotes", &["'", "\""], &["bigquery", "sparksql"]),
    ("CV11", "preferred_type_casting_style = cast", &["cast", "::", "convert"], &[]),
    ("CV11", "preferred_type_casting_style = convert", &["cast", "::", "convert"], &[]),
    ("CV11", "preferred_type_casting_style = shorthand", &["cast", "::", "convert"], &[]),
    ("LT05", "ignore_comment_lines = True", &["--", "/*", "#"], &[]),
    ("LT05", "ignore_comment_clauses = True", &["comment"], &[]),
    ("LT09", "wildcard_policy = multiple", &["*"], &[]),
    ("RF03", "single_table_references = qualified\nforce_enable = True", &["from"], &[]),
    ("RF03", "single_table_references = unqualified\nforce_enable = True", &["from"], &[]),
    ("RF03", "force_enable = True", &["from"], &[]),
    ("RF06", "prefer_quoted_identifiers = True\nforce_enable = True", &[], &[]),
    ("RF06", "prefer_quoted_keywords = True\nforce_enable = True", &[], &[]),
    ("RF06", "force_enable = True", &["\"", "`", "["], &[]),
    ("ST05", "forbid_subquery_in = from", &["select"], &[]),
    ("ST05", "forbid_subquery_in = both", &["select"], &[]),
];

struct OptCfg {
    code: &'static str,
    only: &'static [&'static str],
    cfg: &'static LayoutCfg,
    triggers: &'static [&'static str],
}
fn leak_cfg(name: String, body: String) -> &'static LayoutCfg {
    Box::leak(Box::new(LayoutCfg { name: Box::leak(name.into_boxed_str()), body: Box::leak(body.into_boxed_str()) }))
}
/// One configuration per RULE_OPTS row (section named by the rule's `config_ref`), and two combined
/// configurations (first / last non-default value of every rule at once) for the wide selections.
fn option_cfgs() -> (Vec<OptCfg>, Vec<&'static LayoutCfg>) {
    let mut refs: HashMap<&'static str, &'static str> = HashMap::new();
    for r in sqruff_lib::rules::rules() {
        refs.insert(r.code(), r.config_ref());
    }
    let mut v = vec![];
    let mut first: BTreeMap<&str, String> = BTreeMap::new();
    let mut last: BTreeMap<&str, String> = BTreeMap::new();
    for (code, opts, triggers, only) in RULE_OPTS {
        let Some(sec) = refs.get(code) else { continue };
        let body = format!("[sqruff:rules:{}]\n{}\n", sec, opts);
        if only.is_empty() {
            first.entry(code).or_insert(body.clone());
            last.insert(code, body.clone());
        }
        v.push(OptCfg { code, only, cfg: leak_cfg(format!("{}:{}", code, opts.replace('\n', ",").replace(' ', "")), body), triggers });
    }
    let combos = vec![
        leak_cfg("combo-first".into(), first.values().cloned().collect::<String>()),
        leak_cfg("combo-last".into(), last.values().cloned().collect::<String>()),
    ];
    (v, combos)
}

// ------------------------------------------------------------------ small helpers
/// flip the case of every keyword-like code token (letters only) by `mode`: 0 upper, 1 lower, 2 alternate
fn recase(toks: &[(u8, String)], mode: usize) -> String {
    let mut out = String::new();
    for (k, (cls, raw)) in toks.iter().enumerate() {
        if *cls == 0 && raw.chars().all(|c| c.is_ascii_alphabetic() || c == '_') && raw.len() > 1 {
            match mode {
                0 => out.push_str(&raw.to_ascii_uppercase()),
                1 => out.push_str(&raw.to_ascii_lowercase()),
                _ => {
                    if k % 2 == 0 {
                        out.push_str(&raw.to_ascii_uppercase())
                    } else {
                        out.push_str(&raw.to_ascii_lowercase())
                    }
                }
            }
        } else {
            out.push_str(raw);
        }
    }
    out
}

fn gap_pattern(toks: &[(u8, String)]) -> Vec<bool> {
    let mut v = vec![];
    let mut seen = false;
    let mut pending = false;
    for (c, _) in toks {
        if *c == 0 {
            if seen {
                v.push(pending);
            }
            seen = true;
            pending = false;
        } else {
            pending = true;
        }
    }
    v
}

/// `f` over `items` on the harness' worker threads, each with its own linter cache; results in item order.
fn par_map<I: Sync, R: Send>(items: &[I], f: impl Fn(&mut Linters, &I) -> R + Sync) -> Vec<R> {
    let threads = std::env::var("SQV_THREADS").ok().and_then(|s| s.parse().ok()).unwrap_or(16usize).max(1);
    let n = items.len();
    let next = std::sync::atomic::AtomicUsize::new(0);
    let results: std::sync::Mutex<Vec<Option<R>>> = std::sync::Mutex::new((0..n).map(|_| None).collect());
    std::thread::scope(|sc| {
        for _ in 0..threads.min(n.max(1)) {
            sc.spawn(|| {
                let mut st = Linters::new();
                loop {
                    let i = next.fetch_add(1, std::sync::atomic::Ordering::SeqCst);
                    if i >= n {
                        break;
                    }
                    let r = f(&mut st, &items[i]);
                    results.lock().unwrap()[i] = Some(r);
                }
            });
        }
    });
    results.into_inner().unwrap().into_iter().flatten().collect()
}

// ------------------------------------------------------------------ the fixtures, cut into statements and fragments
#[derive(Default)]
struct Harvest {
    whole_clean: bool,
    whole_toks: Vec<(u8, String)>,
    /// statements of the file that parse cleanly on their own: (text, tokens)
    stmts: Vec<(String, Vec<(u8, String)>)>,
    selects: Vec<String>,
    from_elems: Vec<String>,
    joins: Vec<String>,
}
fn one_line(raw: &str) -> Option<String> {
    if raw.contains("--") || raw.contains("/*") || raw.contains('#') || raw.contains("//") || raw.contains(';') {
        return None;
    }
    Some(raw.split_whitespace().collect::<Vec<_>>().join(" "))
}
fn split_statements(toks: &[(u8, String)]) -> Vec<String> {
    let mut out = vec![];
    let mut cur = String::new();
    let mut has_code = false;
    let mut depth = 0i32;
    for (cls, raw) in toks {
        if *cls == 0 {
            match raw.as_str() {
                "(" | "[" => depth += 1,
                ")" | "]" => depth -= 1,
                _ => {}
            }
        }
        if !has_code && *cls != 0 {
            // leading layout / comments stay with the statement only if a comment started it
            if *cls == 2 && cur.is_empty() {
                continue;
            }
        }
        cur.push_str(raw);
        if *cls == 0 {
            has_code = true;
            if raw == ";" && depth <= 0 {
                cur.push('\n');
                out.push(std::mem::take(&mut cur));
                has_code = false;
                depth = 0;
            }
        }
    }
    if has_code {
        let t = cur.trim_end().to_string();
        out.push(format!("{}\n", t));
    }
    out
}
fn harvest_file(ls: &mut Linters, f: &CorpusFile, whole_max: usize) -> Harvest {
    let mut h = Harvest::default();
    let lt = linter(ls, &f.dialect, "LT01", &LAYOUT_CFGS[0]);
    let Ok(toks) = lex_tokens(lt, &f.text) else { return h };
    if f.text.len() <= whole_max {
        h.whole_clean = parses_cleanly(lt, &f.text);
    }
    let pieces = split_statements(&toks);
    h.whole_toks = toks;
    let kinds = SyntaxSet::new(&[SyntaxKind::SelectStatement, SyntaxKind::FromExpressionElement, SyntaxKind::JoinClause]);
    for p in pieces {
        if p.len() > 1500 {
            continue;
        }
        let Ok((0, 0, Some(tree))) = parse_tree(lt, &p) else { continue };
        for seg in tree.recursive_crawl(&kinds, true, &SyntaxSet::EMPTY, true) {
            let raw = seg.raw().to_string();
            let Some(flat) = one_line(&raw) else { continue };
            match seg.get_type() {
                SyntaxKind::SelectStatement if flat.len() <= 160 => h.selects.push(flat),
                SyntaxKind::FromExpressionElement if flat.len() <= 110 => h.from_elems.push(flat),
                SyntaxKind::JoinClause if flat.len() <= 150 => h.joins.push(flat),
                _ => {}
            }
        }
        if let Ok(t) = lex_tokens(lt, &p) {
            h.stmts.push((p, t));
        }
    }
    h
}

// ------------------------------------------------------------------ class `joint-*`
/// code / comment tokens, each with the layout run that follows it
fn units(toks: &[(u8, String)]) -> Vec<(u8, String, String)> {
    let mut v: Vec<(u8, String, String)> = vec![];
    for (cls, raw) in toks {
        if *cls == 2 {
            if let Some(l) = v.last_mut() {
                l.2.push_str(raw);
            }
        } else {
            v.push((*cls, raw.clone(), String::new()));
        }
    }
    v
}
fn is_inline_comment(u: &(u8, String, String)) -> bool {
    u.0 == 1 && (u.1.starts_with("--") || u.1.starts_with('#') || u.1.starts_with("//"))
}
/// tokens at which the default layout asks for `touch` (brackets, casts, dots, colons, commas, signs ...)
fn is_touch_token(raw: &str) -> bool {
    matches!(raw, "[" | "]" | "(" | ")" | "::" | "." | ":" | "," | ";" | "-" | "+" | "~" | "<" | ">" | "{" | "}" | "=>" | "->" | "->>")
}
const JOINT_STYLES: [(&str, &str); 4] = [("joint-inline-comment", " -- c\n"), ("joint-block-comment-eol", " /* c */\n"), ("joint-line-break", "\n"), ("joint-block-comment", " /* c */ ")];
/// The statement with `filler` put at the joint after unit `k` (replacing the gap there, if any).
/// `explode`: every other gap becomes a line break, and brackets go on lines of their own side.
fn with_joint(us: &[(u8, String, String)], k: usize, filler: &str, explode: bool) -> String {
    let mut out = String::new();
    for (i, u) in us.iter().enumerate() {
        out.push_str(&u.1);
        if i + 1 == us.len() {
            out.push('\n');
            break;
        }
        if i == k && !is_inline_comment(u) {
            out.push_str(filler);
        } else if is_inline_comment(u) {
            out.push('\n');
        } else if explode {
            let next = &us[i + 1].1;
            if !u.2.is_empty() || matches!(u.1.as_str(), "(" | "[") || matches!(next.as_str(), ")" | "]") {
                out.push('\n');
            }
        } else {
            out.push_str(&u.2);
        }
    }
    out
}

/// statements that exercise every `touch` / `touch:inline` site of the default layout configuration
const TOUCH_PROBES: &[(&str, &str)] = &[
    ("ansi", "SELECT a[1] + f(b, 0) AS c FROM t\n"),
    ("ansi", "SELECT s.t.col, CAST(x AS INT), -1, +y, count(*) FROM s.t WHERE t.b > 1.5\n"),
    ("ansi", "SELECT a::int, b::numeric(10, 2) FROM t\n"),
    ("ansi", "WITH x AS (SELECT 1 AS a) SELECT x.a FROM x\n"),
    ("ansi", "INSERT INTO t (a, b) VALUES (1, 2)\n"),
    ("ansi", "CREATE TABLE t (a INT, b VARCHAR(10), c NUMERIC(10, 2))\n"),
    ("ansi", "SELECT a FROM t WHERE a IN (1, 2) AND f(g(a)[1]) = 1;\n"),
    ("postgres", "SELECT a::int, arr[1:2], ~x, c -> 'k', ARRAY[1, 2]::int[] FROM t\n"),
    ("postgres", "SELECT t.a[1], (t.b).c, f(a)::text FROM s.t\n"),
    ("bigquery", "SELECT a[OFFSET(0)], STRUCT<x INT64>(1), ARRAY<INT64>[1, 2], t.a.b FROM d.t\n"),
    ("bigquery", "SELECT ARRAY(SELECT 1)[SAFE_OFFSET(0)], CAST(x AS ARRAY<STRING>) FROM t\n"),
    ("snowflake", "SELECT a:b.c::string, c[0]:d, f(x => 1) FROM t\n"),
    ("snowflake", "SELECT t.v:k[0]::int, -a FROM s.t\n"),
    ("sparksql", "SELECT a[0], m['k'], CAST(x AS ARRAY<INT>), named_struct('a', 1).a FROM t\n"),
    ("databricks", "SELECT a[0], m['k'], x::int, s.f FROM c.d.t\n"),
    ("duckdb", "SELECT a[1], b::INT[], l[1:2], {'k': 1} FROM t\n"),
    ("clickhouse", "SELECT a[1], CAST(x AS Array(Int32)), t.1 FROM t\n"),
    ("trino", "SELECT a[1], CAST(x AS ARRAY(INTEGER)), ROW(1, 2) FROM t\n"),
    ("athena", "SELECT a[1], CAST(x AS ARRAY<INTEGER>) FROM t\n"),
    ("redshift", "SELECT a::int, b[0].c, f(x) FROM s.t\n"),
    ("mysql", "SELECT `a`.`b`, f(x), -1 FROM t\n"),
    ("sqlite", "SELECT a.b, CAST(x AS INT), f(x) FROM t\n"),
];

// ------------------------------------------------------------------ class `synth`
#[derive(Default, Clone)]
struct Frags {
    selects: Vec<String>,
    from_elems: Vec<String>,
    joins: Vec<String>,
}
const JOIN_KINDS: &[&str] = &[
    "JOIN", "INNER JOIN", "LEFT JOIN", "LEFT OUTER JOIN", "RIGHT JOIN", "RIGHT OUTER JOIN", "FULL JOIN", "FULL OUTER JOIN", "CROSS JOIN",
    "NATURAL JOIN", "NATURAL LEFT JOIN", "NATURAL INNER JOIN", "NATURAL FULL OUTER JOIN", "LEFT SEMI JOIN", "LEFT ANTI JOIN", "SEMI JOIN", "ANTI JOIN",
    "RIGHT SEMI JOIN", "RIGHT ANTI JOIN", "ASOF JOIN", "LEFT ASOF JOIN", "ANY LEFT JOIN", "ALL INNER JOIN", "GLOBAL LEFT JOIN", "STRAIGHT_JOIN",
    "CROSS APPLY", "OUTER APPLY", "POSITIONAL JOIN", "INNER JOIN LATERAL", "LEFT JOIN LATERAL", ",",
];
const SET_OPS: &[&str] = &["UNION", "UNION ALL", "UNION DISTINCT", "EXCEPT", "EXCEPT ALL", "INTERSECT", "MINUS"];
const N_SRC_FORMS: usize = 22;
/// source form `i` over table number `n` with alias `a`: (text, name by which its columns can be qualified)
fn src_form(i: usize, n: usize, a: &str, fr: &Frags, rng: &mut Rng) -> Option<(String, Option<String>)> {
    let t = format!("t{}", n);
    let pick = |v: &Vec<String>, rng: &mut Rng| -> Option<String> { if v.is_empty() { None } else { Some(v[rng.below(v.len())].clone()) } };
    Some(match i {
        0 => (t.clone(), Some(t)),
        1 => (format!("{} AS {}", t, a), Some(a.into())),
        2 => (format!("{} {}", t, a), Some(a.into())),
        3 => (format!("s.{}", t), Some(t)),
        4 => (format!("s.{} AS {}", t, a), Some(a.into())),
        5 => (format!("(SELECT id, x FROM {})", t), None),
        6 => (format!("(SELECT id, x FROM {}) AS {}", t, a), Some(a.into())),
        7 => (format!("(SELECT DISTINCT id FROM {} WHERE x > 1) {}", t, a), Some(a.into())),
        8 => (format!("({})", pick(&fr.selects, rng)?), None),
        9 => (format!("({}) AS {}", pick(&fr.selects, rng)?, a), Some(a.into())),
        10 => (pick(&fr.from_elems, rng)?, None),
        11 => (format!("(VALUES (1, 2)) AS {} (id, x)", a), Some(a.into())),
        12 => (format!("(SELECT * FROM (SELECT id FROM {}) AS i{})", t, n), None),
        13 => (format!("(SELECT id FROM {} UNION ALL SELECT id FROM t{})", t, n + 1), None),
        14 => (format!("(SELECT id FROM {} UNION ALL SELECT id FROM t{}) AS {}", t, n + 1, a), Some(a.into())),
        15 => (format!("LATERAL (SELECT id FROM {}) AS {}", t, a), Some(a.into())),
        16 => (format!("UNNEST(arr{}) AS {}", n, a), Some(a.into())),
        17 => (format!("f{}(1, 2) AS {}", n, a), Some(a.into())),
        18 => (format!("({} INNER JOIN t{} USING (id))", t, n + 1), None),
        19 => (format!("(SELECT id, x FROM {} WHERE x IN (SELECT x FROM t{}))", t, n + 1), None),
        20 => (format!("db.s.{}", t), Some(t)),
        _ => (format!("(WITH w AS (SELECT id FROM {}) SELECT id FROM w) AS {}", t, a), Some(a.into())),
    })
}
/// what of the vocabulary the dialect parses
struct Vocab {
    src_ok: Vec<bool>,
    /// per join kind: ON / USING / no condition
    jk_ok: Vec<[bool; 3]>,
    set_ok: Vec<bool>,
    wrap_ok: Vec<bool>,
}
const WRAPS: &[(&str, &str)] = &[
    ("INSERT INTO t9 ", ""),
    ("CREATE TABLE t9 AS ", ""),
    ("CREATE VIEW v9 AS ", ""),
    ("SELECT * FROM (", ") AS w"),
    ("SELECT w.id FROM (", ") AS w WHERE w.id > 1"),
    ("SELECT * FROM (", ")"),
    ("CREATE OR REPLACE VIEW v9 AS ", ""),
    ("SELECT id FROM t8 WHERE id IN (", ")"),
    ("SELECT id FROM t8 WHERE EXISTS (", ")"),
];
fn vocab(lt: &Linter, fr: &Frags) -> Vocab {
    let mut rng = Rng::new(7);
    let ok = |s: String| parses_cleanly(lt, &s);
    let src_ok = (0..N_SRC_FORMS)
        .map(|i| match src_form(i, 1, "y", fr, &mut rng) {
            Some((s, _)) => i == 8 || i == 9 || i == 10 || ok(format!("SELECT * FROM {}\n", s)),
            None => false,
        })
        .collect();
    // a join kind counts only if the dialect reads it as one: with a bare table on its left the parse must
    // be clean *and* hold no alias (otherwise `t0 ANTI JOIN t1` is just table t0 aliased ANTI)
    let is_join = |s: String| match parse_tree(lt, &s) {
        Ok((0, 0, Some(t))) => t.recursive_crawl(&SyntaxSet::single(SyntaxKind::AliasExpression), true, &SyntaxSet::EMPTY, true).is_empty(),
        _ => false,
    };
    let jk_ok = JOIN_KINDS
        .iter()
        .map(|jk| {
            [
                *jk != "," && is_join(format!("SELECT * FROM t0 {} t1 ON t0.id = t1.id\n", jk)),
                *jk != "," && is_join(format!("SELECT * FROM t0 {} t1 USING (id)\n", jk)),
                is_join(format!("SELECT * FROM t0 {} t1\n", jk)),
            ]
        })
        .collect();
    let set_ok = SET_OPS.iter().map(|op| ok(format!("SELECT id FROM t1 {} SELECT id FROM t2\n", op))).collect();
    let wrap_ok = WRAPS.iter().map(|(a, b)| ok(format!("{}SELECT id FROM t1{}\n", a, b))).collect();
    Vocab { src_ok, jk_ok, set_ok, wrap_ok }
}
fn pick_ok(ok: &[bool], rng: &mut Rng) -> Option<usize> {
    let v: Vec<usize> = (0..ok.len()).filter(|i| ok[*i]).collect();
    if v.is_empty() { None } else { Some(v[rng.below(v.len())]) }
}

struct Sel {
    items: Vec<String>,
    distinct: bool,
    clauses: Vec<String>,
}
fn core_select(v: &Vocab, fr: &Frags, rng: &mut Rng, base: usize, ctes: &[String]) -> Sel {
    const ALIASES: [&str; 4] = ["a", "b", "c", "d"];
    let n_src = match rng.below(20) {
        0..=2 => 1,
        3..=9 => 2,
        10..=16 => 3,
        _ => 4,
    };
    let mut names: Vec<Option<String>> = vec![];
    let mut clauses: Vec<String> = vec![];
    for k in 0..n_src {
        // a source: a CTE of the statement, a harvested join clause as a whole, or a source form
        let (text, name) = if !ctes.is_empty() && rng.chance(1, 3) {
            let c = ctes[rng.below(ctes.len())].clone();
            if rng.chance(1, 2) { (format!("{} AS {}", c, ALIASES[k]), Some(ALIASES[k].to_string())) } else { (c.clone(), Some(c)) }
        } else {
            let mut got = None;
            for _ in 0..6 {
                // the plain and derived forms more often than the exotic ones
                let i = if rng.chance(1, 2) { rng.below(8) } else { rng.below(N_SRC_FORMS) };
                if v.src_ok[i] {
                    if let Some(s) = src_form(i, base + k + 1, ALIASES[k], fr, rng) {
                        got = Some(s);
                        break;
                    }
                }
            }
            got.unwrap_or_else(|| (format!("t{}", base + k + 1), Some(format!("t{}", base + k + 1))))
        };
        if k == 0 {
            clauses.push(format!("FROM {}", text));
            names.push(name);
            continue;
        }
        if !fr.joins.is_empty() && rng.chance(1, 10) {
            clauses.push(fr.joins[rng.below(fr.joins.len())].clone());
            names.push(None);
            continue;
        }
        // join kind and condition
        let mut jk = 1usize;
        let mut ck = 0usize;
        for _ in 0..8 {
            let j = if rng.chance(1, 2) { rng.below(9) } else { rng.below(JOIN_KINDS.len()) };
            let c = match rng.below(10) {
                0..=3 => 0,
                4..=7 => 1,
                _ => 2,
            };
            if v.jk_ok[j][c] {
                jk = j;
                ck = c;
                break;
            }
        }
        let prev: Option<String> = {
            let named: Vec<&String> = names.iter().flatten().collect();
            if named.is_empty() || rng.chance(1, 6) { None } else { Some(named[rng.below(named.len())].clone()) }
        };
        let col = |q: &Option<String>, c: &str| match q {
            Some(q) => format!("{}.{}", q, c),
            None => c.to_string(),
        };
        let cond = match ck {
            0 => match rng.below(5) {
                0 => format!(" ON {} = {}", col(&name, "id"), col(&prev, "id")),
                1 => format!(" ON {} = {} AND {} > {}", col(&prev, "id"), col(&name, "id"), col(&prev, "x"), col(&name, "x")),
                2 => format!(" ON ({} = {})", col(&prev, "id"), col(&name, "id")),
                3 => " ON TRUE".to_string(),
                _ => format!(" ON {} = {}", col(&prev, "id"), col(&name, "id")),
            },
            1 => if rng.chance(1, 3) { " USING (id, x)".to_string() } else { " USING (id)".to_string() },
            _ => String::new(),
        };
        if JOIN_KINDS[jk] == "," {
            let l = clauses.last_mut().unwrap();
            l.push_str(&format!(", {}", text));
        } else {
            clauses.push(format!("{} {}{}", JOIN_KINDS[jk], text, cond));
        }
        names.push(name);
    }
    let named: Vec<String> = names.iter().flatten().cloned().collect();
    let q = |rng: &mut Rng| -> Option<String> { if named.is_empty() || rng.chance(1, 5) { None } else { Some(named[rng.below(named.len())].clone()) } };
    let col = |q: Option<String>, c: &str| match q {
        Some(q) => format!("{}.{}", q, c),
        None => c.to_string(),
    };
    let mut distinct = false;
    let mut group = false;
    let items: Vec<String> = match rng.below(13) {
        0 => vec!["*".into()],
        1 => vec![match q(rng) {
            Some(q) => format!("{}.*", q),
            None => "*".into(),
        }],
        2 => vec![col(q(rng), "id"), col(q(rng), "x")],
        3 => vec!["id".into(), "x".into()],
        4 => vec![format!("{} AS i", col(q(rng), "id")), format!("{} AS v", col(q(rng), "x"))],
        5 => {
            distinct = true;
            vec![col(q(rng), "id")]
        }
        6 => vec!["COUNT(*) AS n".into()],
        7 => {
            group = true;
            vec![col(q(rng), "id"), "COUNT(*) AS n".into()]
        }
        8 => vec![col(q(rng), "id"), format!("CASE WHEN {} > 1 THEN 1 ELSE 0 END AS f", col(q(rng), "x"))],
        9 => vec![col(q(rng), "id"), format!("COALESCE({}, 0) x2", col(q(rng), "x"))],
        10 => vec![col(q(rng), "id"), "(SELECT MAX(x) FROM t9) AS m".into()],
        11 => vec![col(q(rng), "id"), format!("CASE WHEN {} IS NULL THEN NULL ELSE {} END AS g", col(q(rng), "x"), col(q(rng), "x"))],
        _ => vec![col(q(rng), "id"), col(q(rng), "x"), col(q(rng), "y"), "1 AS one".into()],
    };
    match rng.below(7) {
        0 => clauses.push(format!("WHERE {} > 1", col(q(rng), "x"))),
        1 => clauses.push(format!("WHERE {} IN (SELECT id FROM t8)", col(q(rng), "id"))),
        2 => clauses.push(format!("WHERE EXISTS (SELECT 1 FROM t8 WHERE t8.id = {})", col(q(rng), "id"))),
        3 => clauses.push(format!("WHERE {} IS NOT NULL AND {} <> 1", col(q(rng), "x"), col(q(rng), "id"))),
        _ => {}
    }
    if group {
        clauses.push(if rng.chance(1, 2) { "GROUP BY 1".to_string() } else { format!("GROUP BY {}", items[0]) });
        if rng.chance(1, 3) {
            clauses.push("HAVING COUNT(*) > 1".into());
        }
    }
    match rng.below(6) {
        0 => clauses.push("ORDER BY 1".into()),
        1 => clauses.push(format!("ORDER BY {} DESC", col(q(rng), "id"))),
        2 => {
            // several sort keys: plain columns, expressions, positions and function calls, with and without an explicit direction
            let n = rng.range(2, 4);
            let mut keys = vec![];
            for _ in 0..n {
                let c = col(q(rng), ["id", "x", "y"][rng.below(3)]);
                let k = match rng.below(5) {
                    0 => c,
                    1 => format!("{} + 1", c),
                    2 => format!("lower({})", c),
                    3 => (rng.below(3) + 1).to_string(),
                    _ => format!("coalesce({}, 0)", c),
                };
                let dir = ["", "", " ASC", " DESC", " DESC NULLS LAST"][rng.below(5)];
                keys.push(format!("{}{}", k, dir));
            }
            clauses.push(format!("ORDER BY {}", keys.join(", ")));
        }
        _ => {}
    }
    if rng.chance(1, 6) {
        clauses.push("LIMIT 10".into());
    }
    Sel { items, distinct, clauses }
}
fn render_sel(s: &Sel, style: usize, indent: &str, out: &mut Vec<String>) {
    let head = if s.distinct { "SELECT DISTINCT" } else { "SELECT" };
    if style == 2 {
        out.push(format!("{}{}", indent, head));
        for (i, it) in s.items.iter().enumerate() {
            out.push(format!("{}    {}{}", indent, it, if i + 1 < s.items.len() { "," } else { "" }));
        }
    } else {
        out.push(format!("{}{} {}", indent, head, s.items.join(", ")));
    }
    for c in &s.clauses {
        out.push(format!("{}{}", indent, c));
    }
}
/// one generated statement (style 0: one line; 1: a clause per line; 2: also a select target per line)
fn synth_query(v: &Vocab, fr: &Frags, rng: &mut Rng) -> String {
    let style = rng.below(3);
    let mut lines: Vec<String> = vec![];
    let mut ctes: Vec<String> = vec![];
    let shape = rng.below(20);
    if (10..14).contains(&shape) {
        // CTEs
        let n = rng.range(1, 2);
        for k in 0..n {
            let name = format!("cte{}", k + 1);
            let inner = core_select(v, fr, rng, 4 + 2 * k, &ctes.clone());
            lines.push(format!("{}{} AS (", if k == 0 { "WITH " } else { "" }, name));
            render_sel(&inner, style, "    ", &mut lines);
            lines.push(if k + 1 < n { "),".to_string() } else { ")".to_string() });
            ctes.push(name);
        }
    }
    let main = core_select(v, fr, rng, 0, &ctes);
    match shape {
        14..=16 => {
            // set operators (2 or 3 operands)
            render_sel(&main, style, "", &mut lines);
            for k in 0..rng.range(1, 2) {
                if let Some(o) = pick_ok(&v.set_ok, rng) {
                    lines.push(SET_OPS[o].to_string());
                    let other = core_select(v, fr, rng, 4 + 2 * k, &[]);
                    render_sel(&other, style, "", &mut lines);
                }
            }
        }
        17 | 18 => match pick_ok(&v.wrap_ok, rng) {
            Some(w) => {
                lines.push(WRAPS[w].0.trim_end().to_string());
                render_sel(&main, style, if WRAPS[w].1.is_empty() { "" } else { "    " }, &mut lines);
                if !WRAPS[w].1.is_empty() {
                    lines.push(WRAPS[w].1.to_string());
                }
            }
            None => render_sel(&main, style, "", &mut lines),
        },
        19 => {
            render_sel(&main, style, "", &mut lines);
            let l = lines.last_mut().unwrap();
            l.push(';');
            let other = core_select(v, fr, rng, 4, &[]);
            render_sel(&other, style, "", &mut lines);
        }
        _ => render_sel(&main, style, "", &mut lines),
    }
    let mut text = if style == 0 { lines.iter().map(|l| l.trim()).collect::<Vec<_>>().join(" ") } else { lines.join("\n") };
    if rng.chance(1, 3) {
        text.push(';');
    }
    text.push('\n');
    if rng.chance(1, 4) {
        text = text.to_ascii_lowercase();
    }
    text
}


// ------------------------------------------------------------------ class `script`
/// How a statement of a script ends: what stands between its last token and the next statement.
const TERMINATORS: [(&str, &str); 9] = [
    ("plain", ";\n"),
    ("spaced", " ;\n"),
    ("comment-after", "; -- c\n"),
    ("own-line", "\n;\n"),
    ("comment-before", " -- c\n;\n"),
    ("block-comment-after", "; /* c */\n"),
    ("same-line", "; "),
    ("blank-lines", "\n\n;\n\n"),
    ("comment-both", " -- c\n; -- d\n"),
];
/// the statement without its terminator and what follows it
fn strip_terminator(stmt: &str) -> &str {
    stmt.trim_end_matches(|c: char| c.is_whitespace() || c == ';')
}
/// Several statements in one file; `ends[i]` indexes TERMINATORS for statement `i`, `None` for the last
/// one = the file ends without a terminator.
fn script(parts: &[String], ends: &[Option<usize>]) -> String {
    let mut out = String::new();
    for (p, e) in parts.iter().zip(ends.iter()) {
        out.push_str(strip_terminator(p));
        match e {
            Some(k) => out.push_str(TERMINATORS[*k].1),
            None => out.push('\n'),
        }
    }
    out
}
/// one token group per line (the `explode` layout of the joint classes, no joint)
fn exploded(toks: &[(u8, String)]) -> String {
    with_joint(&units(toks), usize::MAX, "", true)
}

// ------------------------------------------------------------------ class `templated-*`
/// styles of the token-level generator below: (style, text of the placeholder for a name)
const PH_STYLES: [&str; 4] = ["colon", "dollar", "pyformat", "ampersand"];
fn ph_text(style: &str, name: &str) -> String {
    match style {
        "colon" => format!(":{}", name),
        "dollar" => format!("${{{}}}", name),
        "pyformat" => format!("%({})s", name),
        _ => format!("&{{{}}}", name),
    }
}
fn is_word(raw: &str) -> bool {
    let mut cs = raw.chars();
    matches!(cs.next(), Some(c) if c.is_ascii_alphabetic() || c == '_') && cs.all(|c| c.is_ascii_alphanumeric() || c == '_')
}
/// a code token a parameter may stand for on its own: a word that is no keyword of the dialect, a
/// number, a simple quoted literal
fn is_value_token(kw: &ahash::AHashSet<&'static str>, raw: &str) -> bool {
    if is_word(raw) {
        return !kw.contains(raw.to_ascii_uppercase().as_str());
    }
    if raw.chars().all(|c| c.is_ascii_digit()) {
        return !raw.is_empty() && raw.len() <= 9 && (raw.len() == 1 || !raw.starts_with('0'));
    }
    raw.len() >= 3 && raw.starts_with('\'') && raw.ends_with('\'') && raw[1..raw.len() - 1].chars().all(|c| c.is_ascii_alphanumeric() || c == '_' || c == ' ' || c == '-')
}
/// tokens that may sit *inside* the text one parameter stands for (`a.id`, `x + 1`, `a = b`)
fn is_inner_token(raw: &str) -> bool {
    matches!(raw, "." | "+" | "-" | "*" | "/" | "||" | "=" | "<" | ">" | "<>" | "!=" | ">=" | "<=" | " ")
}
/// The placeholder twin of a text: runs of code tokens (one value token, or several joined by dots /
/// operators / single blanks) are replaced by placeholders whose value is the text they replace, so the
/// template renders to the very text it was made from. `want(n)` decides for the n-th candidate run
/// (counted from 0). A run never starts or ends against an identifier character, a dot, a quote or a
/// bracket that would glue to it (as `c04::templatise`). Returns the template, its parameters and the
/// number of candidate runs.
fn templatise_toks(toks: &[(u8, String)], kw: &ahash::AHashSet<&'static str>, style: &str, rng: &mut Rng, want: &mut dyn FnMut(usize) -> bool) -> (String, Templ, usize) {
    let glue_before = |raw: &str| matches!(raw.chars().last(), Some(c) if c.is_alphanumeric() || matches!(c, '_' | '.' | '\'' | '"' | '`' | '$' | '@' | ':' | '&' | '%' | '#' | '\\' | '{' | '['));
    let glue_after = |raw: &str| matches!(raw.chars().next(), Some(c) if c.is_alphanumeric() || matches!(c, '_' | '.' | '\'' | '"' | '`' | '(' | '[' | ':'));
    let mut out = String::new();
    let mut params: Vec<(String, String)> = vec![];
    let mut cand = 0usize;
    let mut i = 0usize;
    while i < toks.len() {
        let (cls, raw) = &toks[i];
        let free_before = i == 0 || !glue_before(&toks[i - 1].1);
        if *cls != 0 || !is_value_token(kw, raw) || !free_before {
            out.push_str(raw);
            i += 1;
            continue;
        }
        // the longest run from here, then cut back to a value token that stands free
        let mut ends: Vec<usize> = vec![];
        let mut j = i;
        loop {
            if toks[j].0 == 0 && is_value_token(kw, &toks[j].1) && (j + 1 == toks.len() || !glue_after(&toks[j + 1].1)) {
                ends.push(j);
            }
            j += 1;
            if j >= toks.len() || j - i > 8 {
                break;
            }
            let r = &toks[j].1;
            let inner = match toks[j].0 {
                0 => is_value_token(kw, r) || is_inner_token(r),
                2 => r == " ",
                _ => false,
            };
            if !inner {
                break;
            }
        }
        if ends.is_empty() {
            out.push_str(raw);
            i += 1;
            continue;
        }
        let n = cand;
        cand += 1;
        if !want(n) {
            out.push_str(raw);
            i += 1;
            continue;
        }
        // mostly the single token, sometimes a longer run
        let end = if ends.len() > 1 && rng.chance(1, 3) { ends[rng.below(ends.len())] } else { ends[0] };
        let value: String = toks[i..=end].iter().map(|t| t.1.as_str()).collect();
        let k = params.len() + 1;
        let name = match rng.below(4) {
            0 => format!("p{}", k),
            1 => format!("param_{}", k),
            2 => format!("a_rather_long_parameter_name_{}", k),
            _ => format!("v{}", k),
        };
        out.push_str(&ph_text(style, &name));
        params.push((name, value));
        i = end + 1;
    }
    (out, Templ { style: style.to_string(), regex: None, params, api: rng.chance(1, 5) }, cand)
}
/// the rule a yaml fixture file of the repository is about (`LT01-commas.yml` -> `LT01`)
fn snippet_rule(file: &str) -> String {
    file.chars().take(4).collect()
}

// ------------------------------------------------------------------ failure class
fn abstract_token(kw: &ahash::AHashSet<&'static str>, raw: &str) -> String {
    let up = raw.to_ascii_uppercase();
    let c0 = raw.chars().next().unwrap_or(' ');
    if kw.contains(up.as_str()) {
        up
    } else if c0.is_ascii_digit() {
        "<n>".into()
    } else if c0 == '\'' || c0 == '"' || c0 == '`' || c0 == '$' {
        "<q>".into()
    } else if c0.is_alphanumeric() || c0 == '_' {
        "<w>".into()
    } else {
        raw.chars().take(3).collect()
    }
}
fn keywords(lt: &Linter) -> ahash::AHashSet<&'static str> {
    let dialect = lt.config().get_dialect();
    let mut kw = dialect.sets("reserved_keywords");
    kw.extend(dialect.sets("unreserved_keywords"));
    kw
}
/// Where the parser gives up: the first three code tokens of the first unparsable section of `sql`, with
/// everything that is not a keyword of the dialect or punctuation abstracted (`<w>` word, `<n>` number,
/// `<q>` quoted).
fn breakage_signature(lt: &Linter, sql: &str) -> String {
    let Ok((unp, pv, Some(tree))) = parse_tree(lt, sql) else { return "no-tree".into() };
    if unp == 0 {
        return if pv > 0 { "parse-violation".into() } else { "clean".into() };
    }
    let first = tree.recursive_crawl(&SyntaxSet::single(SyntaxKind::Unparsable), false, &SyntaxSet::EMPTY, true).into_iter().next();
    let Some(first) = first else { return "unparsable".into() };
    let kw = keywords(lt);
    let toks = lex_tokens(lt, first.raw()).unwrap_or_default();
    let sig: Vec<String> = toks.iter().filter(|t| t.0 == 0).take(3).map(|t| abstract_token(&kw, &t.1)).collect();
    format!("at:{}", sig.join("_"))
}
/// Whether a batch left the code tokens of the tree alone (a layout-only batch).
fn code_neutral(before: &ErasedSegment, after: &ErasedSegment) -> bool {
    let code = |t: &ErasedSegment| -> Vec<String> { t.get_raw_segments().iter().filter(|s| s.is_code() && !s.raw().is_empty()).map(|s| s.raw().to_string()).collect() };
    code(before) == code(after)
}
/// Which rule's batch of fixes first turned the (parsable) tree into text that does not parse:
/// re-runs the fix with the recorder of the fix loop installed. Returns the rule code and, for a batch that
/// only moved layout (or when no single batch can be blamed), where the parser gives up on its output; a
/// batch that rewrote code is classed by the rule alone (what such a rule writes, and hence where the
/// parser stops, varies with every input).
fn culprit(lt: &Linter, sql: &str, fixed: &str) -> (String, Option<String>, Option<String>) {
    install_hook();
    let _ = catch(|| {
        let lf = lt.lint_string(sql, None, true);
        lf.fix_string()
    });
    let rec = take_rec();
    FIX_HOOK.with(|h| *h.borrow_mut() = None);
    let final_raw = rec.end.as_ref().or(rec.start.as_ref()).map(|t| t.raw().to_string());
    let mut checked: HashMap<String, bool> = HashMap::new();
    // a batch whose text no longer reads as its tree (two created tokens fused into one, code that now
    // sits behind an inline comment): the text may still parse, as something else; the batch that makes
    // the difference visible to the parser later is then not the one to blame
    let mut disagrees: Option<&'static str> = None;
    for b in rec.batches.iter().filter(|b| b.accepted) {
        let text = b.after.raw().to_string();
        let neutral = code_neutral(&b.before, &b.after);
        if std::env::var("SQV_SHOW").is_ok() {
            eprintln!("BATCH pass {} {} ({} fixes): {:?}", b.pass, b.rule, b.fixes.len(), text);
        }
        let ok = *checked.entry(text.clone()).or_insert_with(|| parses_cleanly(lt, &text));
        if !ok {
            if let Some(rule) = disagrees {
                return (rule.to_string(), None, final_raw);
            }
            let sig = if neutral { Some(breakage_signature(lt, &text)) } else { None };
            return (b.rule.to_string(), sig, final_raw);
        }
        if disagrees.is_none() {
            let leaves: Vec<String> = b.after.get_raw_segments().iter().filter(|s| s.is_code() && !s.raw().is_empty()).map(|s| s.raw().to_string()).collect();
            if let Ok(toks) = lex_tokens(lt, &text) {
                if code_of(&toks) != leaves {
                    disagrees = Some(b.rule);
                }
            }
        }
    }
    ("unknown".into(), Some(breakage_signature(lt, fixed)), final_raw)
}
/// the option lines of `rule`'s own section in a configuration body ("" when it has none)
fn rule_options_in(body: &str, rule: &str) -> String {
    let Some(sec) = sqruff_lib::rules::rules().into_iter().find(|r| r.code() == rule).map(|r| r.config_ref()) else { return String::new() };
    let head = format!("[sqruff:rules:{}]", sec);
    let mut inside = false;
    let mut v = vec![];
    for l in body.lines() {
        if l.starts_with('[') {
            inside = l.trim() == head;
        } else if inside && !l.trim().is_empty() {
            v.push(l.replace(' ', ""));
        }
    }
    v.join(",")
}

// ------------------------------------------------------------------ one observation
struct Item {
    cls: &'static str,
    dialect: String,
    sel: String,
    cfg: &'static LayoutCfg,
    sql: String,
    /// the source is a template of the `placeholder` templater with these parameters
    templ: Option<Templ>,
}
fn templ_json(t: &Templ) -> Value {
    json!({"style": t.style, "regex": t.regex, "params": t.params, "api": t.api})
}
fn item_json(it: &Item) -> Value {
    let mut v = json!({"cls": it.cls, "dialect": it.dialect, "rules": it.sel, "cfg": it.cfg.name, "cfg_body": it.cfg.body, "sql": it.sql});
    if let Some(t) = &it.templ {
        v["templ"] = templ_json(t);
    }
    v
}
fn item_from_json(j: &Value, cls: &'static str, cfg: &'static LayoutCfg) -> Item {
    let templ = if j["templ"].is_object() { crate::c04::item_from_json(&json!({"dialect": "", "rules": "", "sql": "", "templ": j["templ"]})).templ } else { None };
    Item {
        cls,
        dialect: j["dialect"].as_str().unwrap_or("ansi").to_string(),
        sel: j["rules"].as_str().unwrap_or("all").to_string(),
        cfg,
        sql: j["sql"].as_str().unwrap_or("").to_string(),
        templ,
    }
}
/// The linter of a templated observation: the configuration `c04::mk_config` builds for the template (ini
/// text where the reader can carry the value, the configuration object elsewhere), plus the rule / layout
/// options of `cfg`. Parameter sets differ per input, so these linters are not cached.
fn templ_linter(dialect: &str, rules: &str, cfg: &LayoutCfg, t: &Templ) -> Linter {
    if cfg.body.is_empty() {
        return crate::c04::mk_linter(dialect, rules, Some(t));
    }
    let head = crate::c04::cfg_text(dialect, rules, Some(t));
    let (core, templ_sec) = head.split_once("\n\n").unwrap_or((head.as_str(), ""));
    let (core_keys, sections) = match cfg.body.find('[') {
        Some(0) => ("", cfg.body),
        Some(p) => (&cfg.body[..p], &cfg.body[p..]),
        None => (cfg.body, ""),
    };
    let mut c = FluffConfig::from_source(&format!("{}\n{}{}\n{}", core, core_keys, sections, templ_sec), None);
    let want = crate::c04::mk_config(dialect, rules, Some(t));
    if let Some(sec) = want.raw.get("templater") {
        c.raw.insert("templater".into(), sec.clone());
    }
    Linter::new(c, None, None, true)
}

fn run_one(ls: &mut Linters, it: &Item, out: &mut Buf) {
    let kind = sel_kind(&it.sel);
    let own: Linter;
    let lt: &Linter = match &it.templ {
        Some(t) => match catch(|| templ_linter(&it.dialect, &it.sel, it.cfg, t)) {
            Ok(l) => {
                own = l;
                &own
            }
            Err(_) => {
                out.count("skipped_template_configuration_rejected", 1);
                return;
            }
        },
        None => match catch(|| {
            linter(ls, &it.dialect, &it.sel, it.cfg);
        }) {
            Ok(()) => linter(ls, &it.dialect, &it.sel, it.cfg),
            Err(e) => {
                out.hyp("configuration_loads", "diagnostic", false, json!({"dialect": it.dialect, "rules": it.sel, "cfg": it.cfg.name, "panic": e}));
                return;
            }
        },
    };
    let mut input = json!({"dialect": it.dialect, "rules": it.sel, "sql": it.sql});
    if !it.cfg.body.is_empty() {
        input["cfg"] = json!(it.cfg.name);
        input["cfg_body"] = json!(it.cfg.body);
    }
    if let Some(t) = &it.templ {
        input["templ"] = templ_json(t);
        out.count("runs_templated", 1);
    }
    out.count("runs", 1);
    out.count(&format!("runs_{}", kind), 1);
    out.count(&format!("runs_cls_{}", it.cls), 1);
    if !it.cfg.body.is_empty() {
        out.count("runs_nondefault_cfg", 1);
    }
    // the quantifier: fully parsable inputs only
    match parse_status(lt, &it.sql) {
        Ok((0, 0, true)) => {}
        _ => {
            out.count("skipped_source_not_fully_parsable", 1);
            out.count(&format!("skipped_cls_{}", it.cls), 1);
            return;
        }
    }
    let r = catch(|| {
        let lf = lt.lint_string(&it.sql, None, true);
        lf.fix_string()
    });
    let fixed = match r {
        Ok(s) => s,
        Err(_) => {
            out.count("skipped_fix_panicked", 1); // C03's subject
            return;
        }
    };
    if std::env::var("SQV_SHOW").is_ok() {
        eprintln!("FIXED ({} {} {}): {:?}", it.dialect, it.sel, it.cfg.name, fixed);
    }
    if fixed == it.sql {
        out.count("unchanged_by_fix", 1);
        out.direct(it.cls, true, "", "", Value::Null);
        return;
    }
    out.count("changed_by_fix", 1);
    out.count(&format!("changed_cls_{}", it.cls), 1);
    // failure class: (dialect, rule whose batch broke the text, that rule's non-default options[, where the parser stops])
    let fail = |out: &mut Buf, what: String| {
        let (rule, sig, final_raw) = culprit(lt, &it.sql, &fixed);
        let opts = rule_options_in(it.cfg.body, &rule);
        let mut key = format!("c05:{}:{}{}", it.dialect, rule, if opts.is_empty() { String::new() } else { format!("[{}]", opts) });
        // a templated source is marked as such only when its rendered text, given to the same rules as a plain
        // file, is fixed to text that parses: otherwise the defect is the rule's, templating or not
        if it.templ.is_some() {
            let plain_breaks = catch(|| {
                let plain = crate::c06::mk_linter(&it.dialect, &it.sel, it.cfg);
                let rendered = lt.render_string(&it.sql, "<string>".into(), lt.config()).ok().and_then(|r| r.templated_file.templated_str.clone())?;
                let out = plain.lint_string(&rendered, None, true).fix_string();
                Some(parses_cleanly(&plain, &rendered) && !parses_cleanly(&plain, &out))
            })
            .ok()
            .flatten()
            .unwrap_or(false);
            if !plain_breaks {
                key.push_str(":templated");
            }
        }
        if let Some(sig) = sig {
            key.push_str(&format!(":{}", sig));
        }
        // templated source, every batch left a tree that parses, and the fixed file does not render to the
        // final tree: what broke the text is the writing of the tree into the templated file (C04's subject:
        // patches out of order under a templated ancestor, a placeholder fused with its neighbour), no rule
        if it.templ.is_some() && rule == "unknown" {
            let rerendered = catch(|| lt.render_string(&fixed, "<string>".into(), lt.config())).ok().and_then(|r| r.ok()).and_then(|r| r.templated_file.templated_str.clone());
            if let (Some(tree), Some(re)) = (final_raw, rerendered) {
                if tree != re {
                    key = "c05:templated:fixed-file-is-not-the-fixed-tree".to_string();
                }
            }
        }
        let msg = format!("{} (first broken by a batch of {}; input {}); output: {:?}", what, rule, fnv(&it.sql), trunc(&fixed, 300));
        out.direct(it.cls, false, &key, &msg, input.clone());
    };
    match parse_status(lt, &fixed) {
        Ok((0, 0, true)) => out.direct(it.cls, true, "", "", Value::Null),
        Ok((unp, pv, tree)) => fail(out, format!("source parses cleanly, fix output does not: {} unparsable section(s), {} parse violation(s), tree={}", unp, pv, tree)),
        Err(e) => fail(out, format!("source parses cleanly, parsing the fix output fails: {}", e)),
    }
    // antecedents of the decomposition (diagnostic)
    if is_layout_or_caps(&it.sel) && it.cfg.body.is_empty() && it.templ.is_none() {
        if let (Ok(a), Ok(b)) = (lex_tokens(lt, &it.sql), lex_tokens(lt, &fixed)) {
            let (ca, cb) = (code_of(&a), code_of(&b));
            let fold = |v: &[String]| v.iter().map(|s| s.to_ascii_uppercase()).collect::<Vec<_>>();
            if it.sel == "layout" || it.sel.starts_with("LT") {
                out.hyp("H_C06_code_tokens_preserved", "diagnostic", ca == cb, json!({"input": input}));
            } else {
                out.hyp("H_C16_code_tokens_preserved_up_to_case", "diagnostic", fold(&ca) == fold(&cb), json!({"input": input}));
            }
            out.hyp("gap_pattern_unchanged", "diagnostic", gap_pattern(&a) == gap_pattern(&b), json!({"input": input}));
        }
    }
}

/// Statements whose lower-cased text holds a trigger, at most `k`: first those that show a local
/// context of the trigger (the two words before it and the word after it) not met so far, then a
/// seeded sample of the rest.
fn pick_relevant(stmts: &[(String, String)], triggers: &[&str], k: usize, rng: &mut Rng) -> Vec<usize> {
    let mut order: Vec<usize> = (0..stmts.len()).collect();
    rng.shuffle(&mut order);
    if triggers.is_empty() {
        order.truncate(k);
        return order;
    }
    let mut seen: HashSet<String> = HashSet::new();
    let mut first = vec![];
    let mut rest = vec![];
    for i in order {
        let low = &stmts[i].1;
        let mut relevant = false;
        let mut novel = false;
        for t in triggers {
            let mut from = 0;
            while let Some(p) = low[from..].find(t) {
                let at = from + p;
                relevant = true;
                let mut s = at.saturating_sub(24);
                while !low.is_char_boundary(s) {
                    s -= 1;
                }
                let before: Vec<&str> = low[s..at].split_whitespace().collect();
                let mut e = (at + t.len() + 12).min(low.len());
                while !low.is_char_boundary(e) {
                    e += 1;
                }
                let after = low[at + t.len()..e].split_whitespace().next().unwrap_or("");
                let ctx = format!("{}|{}|{}", before.iter().rev().take(2).rev().cloned().collect::<Vec<_>>().join(" "), t, after);
                if seen.insert(ctx) {
                    novel = true;
                }
                from = at + t.len().max(1);
                if from >= low.len() {
                    break;
                }
            }
        }
        if novel {
            first.push(i);
        } else if relevant {
            rest.push(i);
        }
    }
    first.extend(rest);
    first.truncate(k);
    first
}

pub fn main(args: &Args) {
    silence_panics();
    if let Some(path) = args.flag("--items-file") {
        return run_items_file(args, &path);
    }
    let mut out = Out::new(&args.out);
    let mut rng = Rng::new(args.seed);
    let mut items: Vec<Item> = vec![];
    let sels = selections();
    let default_cfg: &'static LayoutCfg = &LAYOUT_CFGS[0];
    if let Some(mode) = args.flag("--leak-test") {
        // diagnostic: which step keeps memory (prints the resident set size)
        let rss = || std::fs::read_to_string("/proc/self/statm").ok().and_then(|s| s.split_whitespace().nth(1).and_then(|x| x.parse::<usize>().ok())).unwrap_or(0) * 4 / 1024;
        let mut ls = Linters::new();
        let sql = "SELECT a.id, b.x FROM t1 AS a INNER JOIN (SELECT id, x FROM t2) AS b ON a.id = b.id WHERE a.x > 1 ORDER BY 1\n";
        eprintln!("start rss {} MB", rss());
        for round in 0..5 {
            for i in 0..2000 {
                match mode.as_str() {
                    "linter" => {
                        if i % 20 == 0 {
                            ls.clear();
                            let _ = linter(&mut ls, "ansi", "all", default_cfg);
                        }
                    }
                    "parse" => {
                        let lt = linter(&mut ls, "ansi", "all", default_cfg);
                        let _ = parse_status(lt, sql);
                    }
                    "lint" => {
                        let lt = linter(&mut ls, "ansi", &std::env::var("SQV_SEL").unwrap_or("all".into()), default_cfg);
                        let _ = lt.lint_string(sql, None, false);
                    }
                    _ => {
                        let lt = linter(&mut ls, "ansi", "all", default_cfg);
                        let _ = lt.lint_string(sql, None, true).fix_string();
                    }
                }
            }
            eprintln!("{} round {} rss {} MB", mode, round, rss());
        }
        return;
    }
    if let Some(path) = args.flag("--replay-input") {
        let v: Value = serde_json::from_str(&std::fs::read_to_string(path).unwrap()).unwrap();
        let v = if v.get("input").is_some() { v["input"].clone() } else { v };
        let cfg = match v["cfg_body"].as_str() {
            Some(b) if !b.is_empty() => leak_cfg(v["cfg"].as_str().unwrap_or("replayed").to_string(), b.to_string()),
            _ => default_cfg,
        };
        items.push(item_from_json(&v, "replay", cfg));
    } else {
        let thorough = args.thorough();
        let (opt_cfgs, combos) = option_cfgs();
        // regression corpus first: the token-adjacency probes of C06 and minimised earlier failures
        let extra: &[(&str, &str)] = &[
            ("postgres", "drop procedure delete_actor, update_actor CASCADE;\n"),
            ("postgres", "CREATE STATISTICS s3 (ndistinct) ON a, b FROM t3;\n"),
            ("snowflake", "select\n    a,\n    coalesce(first_value(case when a then b else null end) ignore nulls over (order by e), false) as c\nfrom d\n"),
            ("ansi", "UPDATE table1 SET a = CASE WHEN t2.col = 'T' THEN TRUE WHEN t2.col = 'F' THEN FALSE ELSE NULL END FROM table2 t2;\n"),
            ("snowflake", "CREATE OR REPLACE EXTERNAL FUNCTION f(a VARCHAR) RETURNS VARIANT API_INTEGRATION = x REQUEST_TRANSLATOR = db.s.fn RESPONSE_TRANSLATOR = db.s.fn2 AS 'https://x/y';\n"),
        ];
        for (d, sql) in FUSION_PROBES.iter().chain(extra.iter()) {
            if !DIALECTS.contains(d) {
                continue;
            }
            for (i, sel) in sels.iter().enumerate() {
                if i < 2 || ["layout", "convention", "structure", "LT01", "CV07", "ST04"].contains(&sel.0.as_str()) {
                    items.push(Item { cls: "probe", dialect: d.to_string(), sel: sel.0.clone(), cfg: default_cfg, sql: sql.to_string(), templ: None });
                }
            }
        }

        // ---- the fixtures: whole files, single statements, fragments (parsed once, in parallel)
        let corpus: Vec<CorpusFile> = corpus().into_iter().filter(|f| DIALECTS.contains(&f.dialect.as_str()) && f.text.len() <= 40000).collect();
        let (stride, max_len, sel_per_variant) = if thorough { (2usize, 6000usize, 12usize) } else { (14usize, 1800usize, 6usize) };
        let harvests: Vec<Harvest> = par_map(&corpus, |ls, f| harvest_file(ls, f, max_len));
        let mut stmts: BTreeMap<String, Vec<(String, String)>> = BTreeMap::new(); // dialect -> (text, lower-cased)
        let mut stmt_toks: HashMap<String, Vec<(u8, String)>> = HashMap::new();
        let mut frags: BTreeMap<String, Frags> = BTreeMap::new();
        for (f, h) in corpus.iter().zip(harvests.iter()) {
            let fr = frags.entry(f.dialect.clone()).or_default();
            for (dst, src) in [(&mut fr.selects, &h.selects), (&mut fr.from_elems, &h.from_elems), (&mut fr.joins, &h.joins)] {
                for s in src {
                    if !dst.contains(s) {
                        dst.push(s.clone());
                    }
                }
            }
            let v = stmts.entry(f.dialect.clone()).or_default();
            for (s, t) in &h.stmts {
                if !stmt_toks.contains_key(s) {
                    stmt_toks.insert(s.clone(), t.clone());
                    v.push((s.clone(), s.to_lowercase()));
                }
            }
        }
        out.stat(json!({"fixture_statements": stmts.iter().map(|(d, v)| (d.clone(), v.len())).collect::<BTreeMap<_, _>>(),
                        "fixture_fragments": frags.iter().map(|(d, f)| (d.clone(), json!([f.selects.len(), f.from_elems.len(), f.joins.len()]))).collect::<BTreeMap<_, _>>()}));

        // ---- whole files and their perturbations (as before)
        for (k, f) in corpus.iter().enumerate() {
            if f.text.len() > max_len || (k + args.seed as usize) % stride != 0 || !harvests[k].whole_clean {
                continue;
            }
            let toks = &harvests[k].whole_toks;
            let variants: Vec<(&'static str, String)> = vec![
                ("corpus", f.text.clone()),
                ("scrambled", scramble(toks, &mut rng)),
                ("collapsed", collapse(toks)),
                ("recased", recase(toks, rng.below(3))),
            ];
            for (cls, sql) in variants {
                // every input under all and core; corpus files under every group; plus a seeded sample of the other selections
                let mut chosen: Vec<usize> = vec![0, 1];
                if cls == "corpus" {
                    chosen.extend(2..9);
                }
                for _ in 0..sel_per_variant {
                    chosen.push(rng.below(sels.len()));
                }
                chosen.sort();
                chosen.dedup();
                for i in chosen {
                    items.push(Item { cls, dialect: f.dialect.clone(), sel: sels[i].0.clone(), cfg: default_cfg, sql: sql.clone(), templ: None });
                }
            }
        }

        // ---- single statements under the default configuration, and `all` / `core` under layout and combined configurations
        let n_stmt = if thorough { 160 } else { 20 };
        for (d, v) in &stmts {
            for i in pick_relevant(v, &[], n_stmt, &mut rng) {
                let sql = &v[i].0;
                items.push(Item { cls: "statement", dialect: d.clone(), sel: "all".into(), cfg: default_cfg, sql: sql.clone(), templ: None });
                for _ in 0..2 {
                    let s = &sels[rng.below(sels.len())];
                    items.push(Item { cls: "statement", dialect: d.clone(), sel: s.0.clone(), cfg: default_cfg, sql: sql.clone(), templ: None });
                }
                let cfg: &'static LayoutCfg = if rng.chance(1, 2) { combos[rng.below(2)] } else { &LAYOUT_CFGS[1 + rng.below(LAYOUT_CFGS.len() - 1)] };
                items.push(Item { cls: "statement", dialect: d.clone(), sel: if rng.chance(1, 2) { "all".into() } else { "core".into() }, cfg, sql: sql.clone(), templ: None });
            }
        }

        // ---- class `option`: each non-default option value on the statements relevant to the rule
        let (k_any, k_trig) = if thorough { (60usize, 600usize) } else { (8usize, 30usize) };
        for oc in &opt_cfgs {
            for (d, v) in &stmts {
                if !oc.only.is_empty() && !oc.only.contains(&d.as_str()) {
                    continue;
                }
                let k = if oc.triggers.is_empty() { k_any } else { k_trig };
                for (n, i) in pick_relevant(v, oc.triggers, k, &mut rng).into_iter().enumerate() {
                    let sql = &v[i].0;
                    items.push(Item { cls: "option", dialect: d.clone(), sel: oc.code.to_string(), cfg: oc.cfg, sql: sql.clone(), templ: None });
                    let wide = match n % 3 {
                        0 => group_of(oc.code).to_string(),
                        1 => "all".to_string(),
                        _ => continue,
                    };
                    items.push(Item { cls: "option", dialect: d.clone(), sel: wide, cfg: oc.cfg, sql: sql.clone(), templ: None });
                }
            }
        }

        // ---- class `joint-*`
        let lt_sels = ["layout", "core", "all"];
        let mut n_joint = 0usize;
        for (d, sql) in TOUCH_PROBES.iter().chain(FUSION_PROBES.iter()) {
            if !DIALECTS.contains(d) {
                continue;
            }
            // tokens of the probe: lexed by a throwaway linter of the dialect (kept per dialect)
            let toks = match PROBE_LEX.with(|c| {
                let mut c = c.borrow_mut();
                let lt = linter(&mut c, d, "LT01", default_cfg);
                lex_tokens(lt, sql)
            }) {
                Ok(t) => t,
                Err(_) => continue,
            };
            let us = units(&toks);
            for k in 0..us.len().saturating_sub(1) {
                for (style, explode) in [(0usize, true), (1, true), (0, false), (2, true)] {
                    if style == 2 && !us[k].2.is_empty() {
                        continue; // a bare line break is new only where the source has no gap
                    }
                    let text = with_joint(&us, k, JOINT_STYLES[style].1, explode);
                    n_joint += 1;
                    items.push(Item { cls: JOINT_STYLES[style].0, dialect: d.to_string(), sel: "LT01".into(), cfg: default_cfg, sql: text.clone(), templ: None });
                    items.push(Item { cls: JOINT_STYLES[style].0, dialect: d.to_string(), sel: lt_sels[n_joint % 3].into(), cfg: default_cfg, sql: text, templ: None });
                }
            }
        }
        let (n_js, n_jj) = if thorough { (120usize, 12usize) } else { (20usize, 6usize) };
        for (d, v) in &stmts {
            let small: Vec<(String, String)> = v.iter().filter(|s| s.0.len() <= 700).cloned().collect();
            for i in pick_relevant(&small, &["[", "::", ":", ".", "("], n_js, &mut rng) {
                let us = units(&stmt_toks[&small[i].0]);
                if us.len() < 3 {
                    continue;
                }
                for _ in 0..n_jj {
                    // a joint, those at touch tokens three times as likely
                    let weights: Vec<usize> = (0..us.len() - 1).map(|k| if is_touch_token(&us[k].1) || is_touch_token(&us[k + 1].1) { 3 } else { 1 }).collect();
                    let mut r = rng.below(weights.iter().sum());
                    let mut k = 0;
                    while r >= weights[k] {
                        r -= weights[k];
                        k += 1;
                    }
                    let style = [0, 0, 1, 2, 3][rng.below(5)];
                    let text = with_joint(&us, k, JOINT_STYLES[style].1, rng.chance(2, 3));
                    n_joint += 1;
                    let sel = if rng.chance(1, 2) { "LT01" } else { lt_sels[n_joint % 3] };
                    items.push(Item { cls: JOINT_STYLES[style].0, dialect: d.clone(), sel: sel.into(), cfg: default_cfg, sql: text, templ: None });
                }
            }
        }

        // ---- class `synth`: generated per dialect (vocabulary validated against the dialect's parser), in parallel
        let n_synth = if thorough { 1500usize } else { 150usize };
        let dialect_jobs: Vec<(String, u64, Frags)> = DIALECTS.iter().map(|d| (d.to_string(), rng.next(), frags.get(*d).cloned().unwrap_or_default())).collect();
        let synth: Vec<(Vec<String>, Value)> = par_map(&dialect_jobs, |ls, (d, seed, fr)| {
            let lt = linter(ls, d, "LT01", default_cfg);
            let v = vocab(lt, fr);
            let mut rng = Rng::new(*seed);
            let mut got: Vec<String> = vec![];
            let mut tries = 0;
            while got.len() < n_synth && tries < 4 * n_synth {
                tries += 1;
                let q = synth_query(&v, fr, &mut rng);
                if q.len() <= 1500 && parses_cleanly(lt, &q) && !got.contains(&q) {
                    got.push(q);
                }
            }
            let info = json!({"dialect": d, "queries": got.len(), "tries": tries,
                "source_forms": v.src_ok.iter().filter(|b| **b).count(),
                "join_kinds": JOIN_KINDS.iter().zip(v.jk_ok.iter()).filter(|(_, ok)| ok.iter().any(|b| *b)).map(|(k, _)| *k).collect::<Vec<_>>(),
                "set_operators": v.set_ok.iter().filter(|b| **b).count(), "wrappers": v.wrap_ok.iter().filter(|b| **b).count()});
            (got, info)
        });
        out.stat(json!({"synth_vocabulary": synth.iter().map(|s| s.1.clone()).collect::<Vec<_>>()}));
        // selections that rewrite joins / sources / references, under default and non-default options
        let mut synth_sels: Vec<(String, &'static LayoutCfg)> = vec![];
        for g in ["aliasing", "ambiguous", "references", "convention", "structure", "core", "layout"] {
            synth_sels.push((g.to_string(), default_cfg));
        }
        for c in ["AL01", "AL02", "AL05", "AL07", "AM05", "RF03", "ST04", "ST05", "ST06", "ST07", "CV11", "LT09"] {
            if sels.iter().any(|s| s.0 == c) {
                synth_sels.push((c.to_string(), default_cfg));
            }
        }
        for oc in &opt_cfgs {
            if ["AL01", "AL02", "AL07", "AM05", "RF03", "ST05", "LT09", "CV01"].contains(&oc.code) {
                synth_sels.push((oc.code.to_string(), oc.cfg));
                synth_sels.push((group_of(oc.code).to_string(), oc.cfg));
            }
        }
        for c in &combos {
            synth_sels.push(("all".into(), c));
        }
        for ((d, _, _), (qs, _)) in dialect_jobs.iter().zip(synth.iter()) {
            for q in qs {
                items.push(Item { cls: "synth", dialect: d.clone(), sel: "all".into(), cfg: default_cfg, sql: q.clone(), templ: None });
                items.push(Item { cls: "synth", dialect: d.clone(), sel: "structure".into(), cfg: default_cfg, sql: q.clone(), templ: None });
                for _ in 0..3 {
                    let s = &synth_sels[rng.below(synth_sels.len())];
                    items.push(Item { cls: "synth", dialect: d.clone(), sel: s.0.clone(), cfg: s.1, sql: q.clone(), templ: None });
                }
            }
        }

        // tokens of a text in a dialect (fixture statements were lexed by the harvest)
        let toks_of = |d: &str, text: &str| -> Option<Vec<(u8, String)>> {
            if let Some(t) = stmt_toks.get(text) {
                return Some(t.clone());
            }
            PROBE_LEX.with(|c| {
                let mut c = c.borrow_mut();
                let lt = linter(&mut c, d, "LT01", default_cfg);
                lex_tokens(lt, text).ok()
            })
        };
        let kw_of: BTreeMap<String, ahash::AHashSet<&'static str>> = DIALECTS
            .iter()
            .map(|d| {
                (d.to_string(), PROBE_LEX.with(|c| {
                    let mut c = c.borrow_mut();
                    keywords(linter(&mut c, d, "LT01", default_cfg))
                }))
            })
            .collect();
        let snippets: Vec<(String, String)> = {
            let mut seen: HashSet<String> = HashSet::new();
            rule_snippets().into_iter().filter(|(_, s)| s.len() <= 1500 && s.is_ascii() && seen.insert(s.clone())).collect()
        };
        let is_single = |code: &str| sels.iter().any(|s| s.0 == code && s.1 == "single");
        let snip_stride = if thorough { 1usize } else { 2usize };

        // ---- class `snippet`: the repository's own cases of each rule (what the rule is known to act on),
        // under the rule, under `all`, and under every non-default option value of the rule - alone and inside `all`
        for (k, (file, sql)) in snippets.iter().enumerate() {
            if (k + args.seed as usize) % snip_stride != 0 {
                continue;
            }
            let rule = snippet_rule(file);
            let sql = if sql.ends_with('\n') { sql.clone() } else { format!("{}\n", sql) };
            items.push(Item { cls: "snippet", dialect: "ansi".into(), sel: "all".into(), cfg: default_cfg, sql: sql.clone(), templ: None });
            if is_single(&rule) {
                items.push(Item { cls: "snippet", dialect: "ansi".into(), sel: rule.clone(), cfg: default_cfg, sql: sql.clone(), templ: None });
            }
            for oc in opt_cfgs.iter().filter(|o| o.code == rule && (o.only.is_empty() || o.only.contains(&"ansi"))) {
                items.push(Item { cls: "snippet", dialect: "ansi".into(), sel: "all".into(), cfg: oc.cfg, sql: sql.clone(), templ: None });
                items.push(Item { cls: "snippet", dialect: "ansi".into(), sel: if rng.chance(1, 2) { rule.clone() } else { group_of(&rule).to_string() }, cfg: oc.cfg, sql: sql.clone(), templ: None });
            }
        }

        // ---- class `script`: several statements in one file, each ended in one of the ways of TERMINATORS
        // (terminator on the statement's line / on its own line / before or behind a comment / nothing at the
        // end of the file); statements as in the fixtures or one token group per line. Under `all` with the
        // default configuration, with every configuration of the terminator rule and a combined one, and under
        // narrower selections / other rules' options by lot.
        let cv06: Vec<&'static LayoutCfg> = opt_cfgs.iter().filter(|o| o.code == "CV06").map(|o| o.cfg).collect();
        let any_opt: Vec<&'static LayoutCfg> = opt_cfgs.iter().filter(|o| o.only.is_empty()).map(|o| o.cfg).collect();
        let (n_scripts, n_sys) = if thorough { (300usize, 30usize) } else { (20usize, 3usize) };
        for d in DIALECTS.iter() {
            let mut pool: Vec<String> = stmts.get(*d).map(|v| v.iter().filter(|s| s.0.len() <= 300).map(|s| s.0.clone()).collect()).unwrap_or_default();
            if *d == "ansi" {
                pool.extend(snippets.iter().filter(|(_, s)| s.len() <= 300 && !s.contains(';')).map(|(_, s)| s.clone()));
            }
            if pool.len() < 2 {
                continue;
            }
            for n in 0..n_scripts {
                let n_parts = rng.range(2, 3);
                let mut parts: Vec<String> = vec![];
                for _ in 0..n_parts {
                    let p = pool[rng.below(pool.len())].clone();
                    // a statement on one line is no subject of the multi-line options: lay half of those out over lines
                    let lay_out = rng.chance(1, 4) || (!strip_terminator(&p).contains('\n') && rng.chance(1, 2));
                    parts.push(match (lay_out, toks_of(d, &p)) {
                        (true, Some(t)) => exploded(&t),
                        _ => p,
                    });
                }
                let mut ends: Vec<Option<usize>> = (0..n_parts).map(|_| Some(rng.below(TERMINATORS.len()))).collect();
                if rng.chance(1, 3) {
                    ends[n_parts - 1] = None;
                }
                let mut texts: Vec<String> = vec![script(&parts, &ends)];
                if n < n_sys {
                    // every way of ending the first statement
                    for k in 0..TERMINATORS.len() {
                        ends[0] = Some(k);
                        texts.push(script(&parts, &ends));
                    }
                }
                for (i, text) in texts.into_iter().enumerate() {
                    if text.len() > 1500 {
                        continue;
                    }
                    items.push(Item { cls: "script", dialect: d.to_string(), sel: "all".into(), cfg: default_cfg, sql: text.clone(), templ: None });
                    for c in &cv06 {
                        items.push(Item { cls: "script", dialect: d.to_string(), sel: "all".into(), cfg: *c, sql: text.clone(), templ: None });
                    }
                    if i > 0 {
                        continue;
                    }
                    items.push(Item { cls: "script", dialect: d.to_string(), sel: "all".into(), cfg: combos[rng.below(2)], sql: text.clone(), templ: None });
                    items.push(Item { cls: "script", dialect: d.to_string(), sel: "all".into(), cfg: any_opt[rng.below(any_opt.len())], sql: text.clone(), templ: None });
                    let narrow = ["convention", "layout", "core", "CV06"][rng.below(4)];
                    items.push(Item { cls: "script", dialect: d.to_string(), sel: narrow.into(), cfg: if rng.chance(1, 4) { default_cfg } else { cv06[rng.below(cv06.len())] }, sql: text.clone(), templ: None });
                }
            }
        }

        // ---- classes `templated-*`: sources of the placeholder templater whose rendered text parses.
        // token-level twins (`templatise_toks`: the template renders to the text it was made from) of the rule
        // cases, of fixture statements (as is / one token group per line / scrambled gaps) and of generated
        // queries; `c04::templatise` (literals, partial identifiers, padded / multi-token values) over the
        // fixture statements; `c04::gen_shape` (placeholders in chosen syntactic roles, every style).
        let twin = |toks: &[(u8, String)], d: &str, single: bool, rng: &mut Rng| -> Option<(String, Templ)> {
            let kw = &kw_of[d];
            let style = PH_STYLES[rng.below(PH_STYLES.len())];
            let n = templatise_toks(toks, kw, style, &mut Rng::new(1), &mut |_| false).2;
            if n == 0 {
                return None;
            }
            let only = rng.below(n);
            let lots: Vec<bool> = (0..64).map(|_| rng.chance(1, 2)).collect();
            let (sql, t, _) = templatise_toks(toks, kw, style, &mut Rng::new(rng.next()), &mut |k| if single { k == only } else { lots[k % 64] });
            if t.params.is_empty() { None } else { Some((sql, t)) }
        };
        for (k, (file, sql)) in snippets.iter().enumerate() {
            if (k + args.seed as usize) % snip_stride != 0 {
                continue;
            }
            let Some(toks) = toks_of("ansi", sql) else { continue };
            let rule = snippet_rule(file);
            // a random subset of the candidates / exactly one of them (quick: one of the two variants per case)
            for single in [false, true] {
                if !thorough && single != ((k / snip_stride) % 2 == 1) {
                    continue;
                }
                let Some((tsql, t)) = twin(&toks, "ansi", single, &mut rng) else { continue };
                let tsql = if tsql.ends_with('\n') { tsql } else { format!("{}\n", tsql) };
                items.push(Item { cls: "templated-snippet", dialect: "ansi".into(), sel: "all".into(), cfg: default_cfg, sql: tsql.clone(), templ: Some(t.clone()) });
                if is_single(&rule) {
                    items.push(Item { cls: "templated-snippet", dialect: "ansi".into(), sel: if rng.chance(2, 3) { rule.clone() } else { group_of(&rule).to_string() }, cfg: default_cfg, sql: tsql.clone(), templ: Some(t.clone()) });
                }
                if rng.chance(1, 4) {
                    let own: Vec<&OptCfg> = opt_cfgs.iter().filter(|o| o.code == rule && o.only.is_empty()).collect();
                    let cfg = if own.is_empty() { combos[rng.below(2)] } else { own[rng.below(own.len())].cfg };
                    items.push(Item { cls: "templated-snippet", dialect: "ansi".into(), sel: "all".into(), cfg, sql: tsql.clone(), templ: Some(t.clone()) });
                }
            }
        }
        let n_ts = if thorough { 80usize } else { 10usize };
        const C04_STYLES: [&str; 10] = ["colon", "colon_nospaces", "numeric_colon", "pyformat", "dollar", "question_mark", "numeric_dollar", "percent", "ampersand", "flyway_var"];
        for (d, v) in &stmts {
            let small: Vec<(String, String)> = v.iter().filter(|s| s.0.len() <= 400).cloned().collect();
            for i in pick_relevant(&small, &[], n_ts, &mut rng) {
                let text = &small[i].0;
                let Some(toks) = toks_of(d, text) else { continue };
                let layouts: Vec<String> = vec![text.clone(), exploded(&toks), scramble(&toks, &mut rng)];
                for (li, lay) in layouts.iter().enumerate() {
                    let Some(lt) = toks_of(d, lay) else { continue };
                    let mut made: Vec<(String, Templ)> = vec![];
                    made.extend(twin(&lt, d, false, &mut rng));
                    if li < 2 {
                        let wide = rng.chance(1, 2);
                        let style = C04_STYLES[rng.below(C04_STYLES.len())];
                        made.extend(templatise(&mut rng, lay, style, wide));
                    }
                    for (tsql, t) in made {
                        items.push(Item { cls: "templated-statement", dialect: d.clone(), sel: "all".into(), cfg: default_cfg, sql: tsql.clone(), templ: Some(t.clone()) });
                        let s = &sels[rng.below(sels.len())];
                        let cfg = if rng.chance(1, 4) { any_opt[rng.below(any_opt.len())] } else { default_cfg };
                        items.push(Item { cls: "templated-statement", dialect: d.clone(), sel: if cfg.body.is_empty() { s.0.clone() } else { "all".into() }, cfg, sql: tsql, templ: Some(t) });
                    }
                }
            }
        }
        let n_tq = if thorough { 200usize } else { 20usize };
        for ((d, _, _), (qs, _)) in dialect_jobs.iter().zip(synth.iter()) {
            for q in qs.iter().take(n_tq) {
                let Some(toks) = toks_of(d, q) else { continue };
                let Some((tsql, t)) = twin(&toks, d, rng.chance(1, 3), &mut rng) else { continue };
                items.push(Item { cls: "templated-synth", dialect: d.clone(), sel: "all".into(), cfg: default_cfg, sql: tsql.clone(), templ: Some(t.clone()) });
                let s = ["layout", "structure", "core", "aliasing", "convention", "references", "ambiguous"][rng.below(7)];
                items.push(Item { cls: "templated-synth", dialect: d.clone(), sel: s.into(), cfg: default_cfg, sql: tsql, templ: Some(t) });
            }
        }
        let known = sqruff_lib::templaters::placeholder::get_known_styles();
        let matches = |style: &str, sql: &str| known.get(style).map(|re| re.find_iter(sql).filter(|m| m.is_ok()).count());
        let n_shapes = if thorough { 3000usize } else { 300usize };
        let (mut made, mut tries) = (0, 0);
        while made < n_shapes && tries < n_shapes * 5 {
            tries += 1;
            if let Some(it) = gen_shape(&mut rng, &matches) {
                made += 1;
                let sel = if rng.chance(1, 2) { "all".to_string() } else { sels[rng.below(sels.len())].0.clone() };
                items.push(Item { cls: "templated-shapes", dialect: it.dialect, sel, cfg: default_cfg, sql: it.sql, templ: it.templ });
            }
        }
    }
    // one Linter (an expanded grammar, tens of MB) per (dialect, selection, configuration): a work unit is a
    // run of items with the same key (at most 48), so that few threads build the same linter; order is
    // deterministic (probes stay first within their key)
    let mut seen: HashSet<(String, String, &'static str, String)> = HashSet::new();
    items.retain(|i| seen.insert((i.dialect.clone(), i.sel.clone(), i.cfg.name, i.sql.clone())));
    items.sort_by(|a, b| (a.dialect.as_str(), a.sel.as_str(), a.cfg.name).cmp(&(b.dialect.as_str(), b.sel.as_str(), b.cfg.name)));
    let mut units_of_work: Vec<Vec<Item>> = vec![];
    for it in items {
        match units_of_work.last_mut() {
            Some(u) if u.len() < 48 && u[0].dialect == it.dialect && u[0].sel == it.sel && u[0].cfg.name == it.cfg.name => u.push(it),
            _ => units_of_work.push(vec![it]),
        }
    }
    let n_items: usize = units_of_work.iter().map(|u| u.len()).sum();
    out.stat(json!({"items": n_items, "work_units": units_of_work.len(), "selections": sels.iter().map(|s| s.0.clone()).collect::<Vec<_>>(),
                    "option_configurations": RULE_OPTS.iter().map(|(c, o, _, _)| format!("{}: {}", c, o.replace('\n', ", "))).collect::<Vec<_>>()}));
    // `lint_string` does not give back all the memory it takes (about 0.2 MB per call with LT01 / LT02 / LT05
    // selected, 0.06 MB with AL05 / RF03 / ST05, measured with --leak-test): a long run is therefore cut into
    // child processes of at most SHARD_ITEMS observations each, run one after the other
    const SHARD_ITEMS: usize = 7000;
    if n_items <= SHARD_ITEMS + SHARD_ITEMS / 2 {
        run_units(&mut out, &units_of_work);
        out.finish();
        return;
    }
    let scratch = std::env::var("SQV_SCRATCH").map(std::path::PathBuf::from).unwrap_or_else(|_| std::env::temp_dir());
    let exe = std::env::current_exe().expect("current_exe");
    let mut shards: Vec<Vec<Vec<Item>>> = vec![vec![]];
    let mut in_shard = 0usize;
    for u in units_of_work {
        if in_shard + u.len() > SHARD_ITEMS && in_shard > 0 {
            shards.push(vec![]);
            in_shard = 0;
        }
        in_shard += u.len();
        shards.last_mut().unwrap().push(u);
    }
    let mut counts: BTreeMap<String, u64> = BTreeMap::new();
    let mut by_class: BTreeMap<String, u64> = BTreeMap::new();
    let mut hyps: BTreeMap<String, (String, u64, u64, Value)> = BTreeMap::new();
    let (mut n_direct, mut n_fail) = (0u64, 0u64);
    for (k, shard) in shards.iter().enumerate() {
        let items_path = scratch.join(format!("sqv-c05-{}-{}.items.json", std::process::id(), k));
        let out_path = scratch.join(format!("sqv-c05-{}-{}.out.jsonl", std::process::id(), k));
        let js: Vec<Vec<Value>> = shard
            .iter()
            .map(|u| u.iter().map(item_json).collect())
            .collect();
        std::fs::write(&items_path, serde_json::to_vec(&js).unwrap()).expect("write shard");
        let st = std::process::Command::new(&exe)
            .args(["c05", "--tier", &args.tier, "--seed", &args.seed.to_string(), "--out"])
            .arg(&out_path)
            .arg("--items-file")
            .arg(&items_path)
            .status();
        let _ = std::fs::remove_file(&items_path);
        let text = std::fs::read_to_string(&out_path).unwrap_or_default();
        let _ = std::fs::remove_file(&out_path);
        let mut done = false;
        for l in text.lines() {
            let Ok(v) = serde_json::from_str::<Value>(l) else { continue };
            match v["t"].as_str().unwrap_or("") {
                "direct_fail" => out.line(v),
                "counts" => {
                    for (dst, src) in [(&mut counts, &v["v"]), (&mut by_class, &v["direct_by_class"])] {
                        if let Some(m) = src.as_object() {
                            for (name, n) in m {
                                *dst.entry(name.clone()).or_default() += n.as_u64().unwrap_or(0);
                            }
                        }
                    }
                }
                "hyp" => {
                    let e = hyps.entry(v["name"].as_str().unwrap_or("").to_string()).or_insert((v["class"].as_str().unwrap_or("").to_string(), 0, 0, Value::Null));
                    e.1 += v["checks"].as_u64().unwrap_or(0);
                    e.2 += v["failures"].as_u64().unwrap_or(0);
                    if e.3.is_null() {
                        e.3 = v["example"].clone();
                    }
                }
                "done" => {
                    done = true;
                    n_direct += v["direct"].as_u64().unwrap_or(0);
                    n_fail += v["direct_fail"].as_u64().unwrap_or(0);
                }
                _ => {}
            }
        }
        if !matches!(st, Ok(s) if s.success()) || !done {
            eprintln!("c05: shard {} of {} failed: {:?}", k, shards.len(), st);
            std::process::exit(3);
        }
    }
    counts.insert("shards".into(), shards.len() as u64);
    for (name, (class, checks, failures, example)) in hyps {
        out.line(json!({"t":"hyp","name":name,"class":class,"checks":checks,"failures":failures,"example":example}));
    }
    out.line(json!({"t":"counts","v":counts,"direct_by_class":by_class}));
    out.line(json!({"t":"done","cases":0,"direct":n_direct,"direct_fail":n_fail}));
}

fn run_units(out: &mut Out, units: &[Vec<Item>]) {
    par_run(out, units, Linters::new, |ls, unit, buf| {
        for it in unit {
            run_one(ls, it, buf);
        }
    });
}

/// a child process of a sharded run: the observations listed in the file, nothing else
fn run_items_file(args: &Args, path: &str) {
    let mut out = Out::new(&args.out);
    let v: Vec<Vec<Value>> = serde_json::from_str(&std::fs::read_to_string(path).expect("read shard")).expect("parse shard");
    let mut cfgs: HashMap<String, &'static LayoutCfg> = HashMap::new();
    let mut classes: HashMap<String, &'static str> = HashMap::new();
    let units: Vec<Vec<Item>> = v
        .iter()
        .map(|u| {
            u.iter()
                .map(|j| {
                    let name = j["cfg"].as_str().unwrap_or("default").to_string();
                    let body = j["cfg_body"].as_str().unwrap_or("").to_string();
                    let cls = j["cls"].as_str().unwrap_or("replay").to_string();
                    item_from_json(j, *classes.entry(cls.clone()).or_insert_with(|| Box::leak(cls.into_boxed_str())), *cfgs.entry(name.clone()).or_insert_with(|| leak_cfg(name, body)))
                })
                .collect()
        })
        .collect();
    run_units(&mut out, &units);
    out.finish();
}

thread_local! {
    static PROBE_LEX: std::cell::RefCell<Linters> = std::cell::RefCell::new(Linters::new());
}
