//! C05 — fix never turns SQL that parsed into SQL that does not.
//!
//! Direct observation (the deciding part; the Coq side is only the decomposition theorem):
//! for every dialect x rule selection {all, core, each group, each single fix-compatible rule} x
//! fully parsable input (dialect fixtures and their whitespace-scrambled / collapsed / keyword-case
//! perturbations): `parse(fix(source))` has no Unparsable node and no parse error.
//! Also measures the antecedents of `C05_decomposition` on layout / capitalisation selections
//! (diagnostic): code tokens preserved (C06), preserved up to ASCII case (C16), gap pattern unchanged.
use serde_json::{Value, json};
use sqruff_lib::core::linter::core::Linter;
use sqruff_lib::core::rules::base::RuleGroups;
use sqruff_lib_core::dialects::syntax::{SyntaxKind, SyntaxSet};
use sqruff_lib_core::parser::segments::base::Tables;

use crate::c06::{FUSION_PROBES, LAYOUT_CFGS, Linters, code_of, collapse, fnv, lex_tokens, linter, mk_linter, scramble};
use crate::common::*;

/// (number of Unparsable nodes, number of parse violations, tree present)
fn parse_status(lt: &Linter, sql: &str) -> Result<(usize, usize, bool), String> {
    let tables = Tables::default();
    let r = catch(|| lt.parse_string(&tables, sql, None));
    match r {
        Ok(Ok(p)) => {
            let unp = match &p.tree {
                Some(t) => t.recursive_crawl(&SyntaxSet::single(SyntaxKind::Unparsable), true, &SyntaxSet::EMPTY, true).len(),
                None => 0,
            };
            Ok((unp, p.violations.len(), p.tree.is_some()))
        }
        Ok(Err(e)) => Err(format!("{:?}", e)),
        Err(p) => Err(format!("panic: {}", p)),
    }
}

pub fn selections() -> Vec<(String, &'static str)> {
    let mut v: Vec<(String, &'static str)> = vec![("all".into(), "all"), ("core".into(), "core")];
    for g in ["aliasing", "ambiguous", "capitalisation", "convention", "layout", "references", "structure"] {
        v.push((g.to_string(), "group"));
    }
    for r in sqruff_lib::rules::rules() {
        if r.is_fix_compatible() {
            v.push((r.code().to_string(), "single"));
        }
    }
    v
}
fn is_layout_or_caps(sel: &str) -> bool {
    sel == "layout" || sel == "capitalisation" || sel.starts_with("LT") || sel.starts_with("CP")
}
fn _groups_exist() {
    // the group names above are the lower-cased RuleGroups variants
    let _ = [RuleGroups::Aliasing, RuleGroups::Ambiguous, RuleGroups::Capitalisation, RuleGroups::Convention, RuleGroups::Layout, RuleGroups::References, RuleGroups::Structure];
}

/// flip the case of every keyword-like code token (letters only) by `mode`: 0 upper, 1 lower, 2 alternate
fn recase(toks: &[(u8, String)], mode: usize) -> String {
    let mut out = String::new();
    for (k, (cls, raw)) in toks.iter().enumerate() {
        if *cls == 0 && raw.chars().all(|c| c.is_ascii_alphabetic() || c == '_') && raw.len() > 1 {
            match mode {
                0 => out.push_str(&raw.to_ascii_uppercase()),
                1 => out.push_str(&raw.to_ascii_lowercase()),
                _ => {
                    if k % 2 == 0 {
                        out.push_str(&raw.to_ascii_uppercase())
                    } else {
                        out.push_str(&raw.to_ascii_lowercase())
                    }
                }
            }
        } else {
            out.push_str(raw);
        }
    }
    out
}

fn gap_pattern(toks: &[(u8, String)]) -> Vec<bool> {
    let mut v = vec![];
    let mut seen = false;
    let mut pending = false;
    for (c, _) in toks {
        if *c == 0 {
            if seen {
                v.push(pending);
            }
            seen = true;
            pending = false;
        } else {
            pending = true;
        }
    }
    v
}

struct Item {
    cls: &'static str,
    dialect: String,
    sel: String,
    sel_kind: &'static str,
    sql: String,
}

fn run_one(ls: &mut Linters, it: &Item, out: &mut Buf) {
    let lt = linter(ls, &it.dialect, &it.sel, &LAYOUT_CFGS[0]);
    let input = json!({"dialect": it.dialect, "rules": it.sel, "sql": it.sql});
    out.count("runs", 1);
    out.count(&format!("runs_{}", it.sel_kind), 1);
    // the quantifier: fully parsable inputs only
    match parse_status(lt, &it.sql) {
        Ok((0, 0, true)) => {}
        _ => {
            out.count("skipped_source_not_fully_parsable", 1);
            return;
        }
    }
    let r = catch(|| {
        let lf = lt.lint_string(&it.sql, None, true);
        lf.fix_string()
    });
    let fixed = match r {
        Ok(s) => s,
        Err(_) => {
            out.count("skipped_fix_panicked", 1); // C03's subject
            return;
        }
    };
    if fixed == it.sql {
        out.count("unchanged_by_fix", 1);
        out.direct(it.cls, true, "", "", Value::Null);
        return;
    }
    out.count("changed_by_fix", 1);
    let key = format!("c05:{}:{}:{}", it.dialect, it.sel, fnv(&it.sql));
    match parse_status(lt, &fixed) {
        Ok((0, 0, true)) => out.direct(it.cls, true, "", "", Value::Null),
        Ok((unp, pv, tree)) => {
            let msg = format!("source parses cleanly, fix output does not: {} unparsable section(s), {} parse violation(s), tree={}; output: {:?}", unp, pv, tree, trunc(&fixed, 300));
            out.direct(it.cls, false, &key, &msg, input.clone());
        }
        Err(e) => {
            out.direct(it.cls, false, &key, &format!("source parses cleanly, parsing the fix output fails: {}", e), input.clone());
        }
    }
    // antecedents of the decomposition (diagnostic)
    if is_layout_or_caps(&it.sel) {
        if let (Ok(a), Ok(b)) = (lex_tokens(lt, &it.sql), lex_tokens(lt, &fixed)) {
            let (ca, cb) = (code_of(&a), code_of(&b));
            let fold = |v: &[String]| v.iter().map(|s| s.to_ascii_uppercase()).collect::<Vec<_>>();
            if it.sel == "layout" || it.sel.starts_with("LT") {
                out.hyp("H_C06_code_tokens_preserved", "diagnostic", ca == cb, json!({"input": input}));
            } else {
                out.hyp("H_C16_code_tokens_preserved_up_to_case", "diagnostic", fold(&ca) == fold(&cb), json!({"input": input}));
            }
            out.hyp("gap_pattern_unchanged", "diagnostic", gap_pattern(&a) == gap_pattern(&b), json!({"input": input}));
        }
    }
}

pub fn main(args: &Args) {
    silence_panics();
    let mut out = Out::new(&args.out);
    let mut rng = Rng::new(args.seed);
    let mut items: Vec<Item> = vec![];
    let sels = selections();
    if let Some(path) = args.flag("--replay-input") {
        let v: Value = serde_json::from_str(&std::fs::read_to_string(path).unwrap()).unwrap();
        let v = if v.get("input").is_some() { v["input"].clone() } else { v };
        items.push(Item {
            cls: "replay",
            dialect: v["dialect"].as_str().unwrap_or("ansi").to_string(),
            sel: v["rules"].as_str().unwrap_or("all").to_string(),
            sel_kind: "replay",
            sql: v["sql"].as_str().unwrap_or("").to_string(),
        });
    } else {
        // regression corpus first: the token-adjacency probes of C06 and minimised earlier failures
        let extra: &[(&str, &str)] = &[
            ("postgres", "drop procedure delete_actor, update_actor CASCADE;\n"),
            ("postgres", "CREATE STATISTICS s3 (ndistinct) ON a, b FROM t3;\n"),
            ("snowflake", "select\n    a,\n    coalesce(first_value(case when a then b else null end) ignore nulls over (order by e), false) as c\nfrom d\n"),
            ("ansi", "UPDATE table1 SET a = CASE WHEN t2.col = 'T' THEN TRUE WHEN t2.col = 'F' THEN FALSE ELSE NULL END FROM table2 t2;\n"),
            ("snowflake", "CREATE OR REPLACE EXTERNAL FUNCTION f(a VARCHAR) RETURNS VARIANT API_INTEGRATION = x REQUEST_TRANSLATOR = db.s.fn RESPONSE_TRANSLATOR = db.s.fn2 AS 'https://x/y';\n"),
        ];
        for (d, sql) in FUSION_PROBES.iter().chain(extra.iter()) {
            if !DIALECTS.contains(d) {
                continue;
            }
            for (i, sel) in sels.iter().enumerate() {
                if i < 2 || ["layout", "convention", "structure", "LT01", "CV07", "ST04"].contains(&sel.0.as_str()) {
                    items.push(Item { cls: "probe", dialect: d.to_string(), sel: sel.0.clone(), sel_kind: sel.1, sql: sql.to_string() });
                }
            }
        }
        let corpus = corpus();
        let (stride, max_len, sel_per_variant) = if args.thorough() { (2usize, 6000usize, 12usize) } else { (14usize, 1800usize, 6usize) };
        let mut gen_linters: std::collections::HashMap<String, Linter> = Default::default();
        for (k, f) in corpus.iter().enumerate() {
            if !DIALECTS.contains(&f.dialect.as_str()) || f.text.len() > max_len {
                continue;
            }
            if (k + args.seed as usize) % stride != 0 {
                continue;
            }
            let gl = gen_linters.entry(f.dialect.clone()).or_insert_with(|| mk_linter(&f.dialect, "all", &LAYOUT_CFGS[0]));
            match parse_status(gl, &f.text) {
                Ok((0, 0, true)) => {}
                _ => continue,
            }
            let Ok(toks) = lex_tokens(gl, &f.text) else { continue };
            let variants: Vec<(&'static str, String)> = vec![
                ("corpus", f.text.clone()),
                ("scrambled", scramble(&toks, &mut rng)),
                ("collapsed", collapse(&toks)),
                ("recased", recase(&toks, rng.below(3))),
            ];
            for (cls, sql) in variants {
                // every input under all and core; corpus files under every group; plus a seeded sample of the other selections
                let mut chosen: Vec<usize> = vec![0, 1];
                if cls == "corpus" {
                    chosen.extend(2..9);
                }
                for _ in 0..sel_per_variant {
                    chosen.push(rng.below(sels.len()));
                }
                chosen.sort();
                chosen.dedup();
                for i in chosen {
                    items.push(Item { cls, dialect: f.dialect.clone(), sel: sels[i].0.clone(), sel_kind: sels[i].1, sql: sql.clone() });
                }
            }
        }
    }
    // one Linter (an expanded grammar, tens of MB) per (dialect, selection): keep equal keys adjacent so
    // that the small per-thread cache of `linter()` is enough (probes stay first within their key)
    items.sort_by(|a, b| (a.dialect.as_str(), a.sel.as_str()).cmp(&(b.dialect.as_str(), b.sel.as_str())));
    out.stat(json!({"items": items.len(), "selections": sels.iter().map(|s| s.0.clone()).collect::<Vec<_>>()}));
    par_run(&mut out, &items, Linters::new, run_one);
    out.finish();
}
