//! C13 — not built yet.
use crate::common::*;

pub fn main(_args: &Args) {
    eprintln!("c13: not built yet");
    std::process::exit(2);
}
