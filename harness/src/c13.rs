//! C13 — parser shortcuts do not change the result.
//!
//! Direct observation: every input is parsed with the shortcuts on (baseline, dialect instance shared by
//! all worker threads) and again with the parse cache off, pruning off, both off (thread-local
//! `cfg(sqruff_verif)` switches), on a fresh dialect instance, and a second time on the shared instance;
//! the serialised trees must be identical.  A separate phase parses the same inputs concurrently on
//! several threads that share one dialect instance.  Every fixture is also parsed under every other
//! dialect (cache off / pruning off).  Big inputs (generated shapes beyond 2^16 tokens and memo
//! locations; slice-length straddles: inputs in which two slices that one matcher answers differently
//! on are exactly 2^16 tokens apart) are parsed cache on vs off, each parse on its own thread.
//! Monitors: every cache hit against a recomputation; every location key against the
//! (token, slice length) it stands for.
//! Correspondence: `longest_match` calls recorded through the `verif_lm` recorder are replayed on the
//! Gallina model (Cache/Model.v): evaluated options, cache hits, chosen option.
//! c13x.rs (module `ext`): the pruning decision on generated `prune_options` calls (group `prune`), the audit
//! of first-token hints, grammar-directed sentences into every option of K, placeholder-templated inputs.
//! Static part: the cache keys of all nodes that can be options of `longest_match` (set K) are written
//! to coq/gen/Keys_<d>.v where `keys_inj_b` is evaluated by vm_compute.
use std::collections::{BTreeMap, BTreeSet, HashMap};
use std::fmt::Write as _;
use std::hash::{Hash, Hasher};
use std::sync::Arc;

use serde_json::{Value, json};
use sqruff_lib_core::dialects::base::Dialect;
use sqruff_lib_core::parser::match_algorithms::verif_switches::{self, LmFrame};

use crate::c14::{Graph, Node, dialect_of, parse_with};
use crate::common::*;

#[path = "c13x.rs"]
mod ext;

#[derive(Clone)]
struct Item {
    dialect: String,
    cls: &'static str,
    name: String,
    sql: String,
}

fn h64(s: &str) -> u64 {
    let mut h = std::collections::hash_map::DefaultHasher::new();
    s.hash(&mut h);
    h.finish()
}

/// class of a parse outcome: tree hash, or the abort class
fn outcome(r: &Result<String, String>) -> String {
    match r {
        Ok(t) => format!("tree:{:016x}", h64(t)),
        Err(m) => {
            if let Some(i) = m.find("Grammar refers to") {
                let rest = &m[i..];
                let name = rest.split('\'').nth(1).unwrap_or("?");
                format!("abort-dangling:{}", name)
            } else {
                format!("abort:{}", trunc(m, 80))
            }
        }
    }
}

fn words(sql: &str) -> Vec<String> {
    // split into alternating runs of whitespace / non-whitespace, keeping everything
    let mut out = vec![];
    let mut cur = String::new();
    let mut ws: Option<bool> = None;
    for ch in sql.chars() {
        let w = ch.is_whitespace();
        if ws.is_some() && ws != Some(w) {
            out.push(std::mem::take(&mut cur));
        }
        ws = Some(w);
        cur.push(ch);
    }
    if !cur.is_empty() {
        out.push(cur);
    }
    out
}

const KEYWORDS: &[&str] = &["SELECT", "FROM", "WHERE", "(", ")", ",", "AND", "JOIN", "ON", "AS", "BY", "GROUP", "ORDER", ";", "CASE", "END", "NOT", "NULL", "UNION", "WITH", "INSERT", "INTO", "VALUES", "CREATE", "TABLE", "x", "1", "'s'", "*", "."];

fn corrupt(rng: &mut Rng, sql: &str) -> String {
    let mut w = words(sql);
    let code: Vec<usize> = (0..w.len()).filter(|&i| !w[i].trim().is_empty()).collect();
    if code.is_empty() {
        return sql.to_string();
    }
    let n = rng.range(1, 3);
    for _ in 0..n {
        let code: Vec<usize> = (0..w.len()).filter(|&i| !w[i].trim().is_empty()).collect();
        if code.is_empty() {
            break;
        }
        let i = *rng.pick(&code);
        match rng.below(6) {
            0 => {
                w.remove(i);
            }
            1 => {
                let x = w[i].clone();
                w.insert(i, " ".into());
                w.insert(i, x);
            }
            2 => {
                let j = *rng.pick(&code);
                w.swap(i, j);
            }
            3 => {
                w.insert(i, " ".into());
                w.insert(i, rng.pick(KEYWORDS).to_string());
            }
            4 => {
                w.truncate(i + 1);
            }
            _ => {
                // split a word in the middle / drop a character
                let s = w[i].clone();
                if s.len() > 1 && s.is_ascii() {
                    let k = rng.range(1, s.len() - 1);
                    w[i] = format!("{} {}", &s[..k], &s[k..]);
                }
            }
        }
    }
    w.concat()
}

fn gen_items(args: &Args) -> Vec<Item> {
    let mut rng = Rng::new(args.seed);
    let files = corpus();
    let snippets = rule_snippets();
    let max_len = if args.thorough() { 6000 } else { 2500 };
    let mut items = vec![];
    // corpus under its own dialect
    for f in &files {
        if f.text.len() <= max_len && DIALECTS.contains(&f.dialect.as_str()) {
            items.push(Item { dialect: f.dialect.clone(), cls: "corpus", name: f.name.clone(), sql: f.text.clone() });
        }
    }
    // cross-dialect: every file under k other dialects
    let k_cross = if args.thorough() { 12 } else { 1 };
    for f in &files {
        if f.text.len() > max_len {
            continue;
        }
        let mut others: Vec<&str> = DIALECTS.iter().copied().filter(|d| *d != f.dialect).collect();
        rng.shuffle(&mut others);
        for d in others.into_iter().take(k_cross) {
            items.push(Item { dialect: d.to_string(), cls: "cross-dialect", name: f.name.clone(), sql: f.text.clone() });
        }
    }
    // rule snippets under a random dialect
    let n_snip = if args.thorough() { snippets.len() } else { snippets.len().min(400) };
    for (name, s) in snippets.iter().take(n_snip) {
        if s.len() <= max_len {
            let d = DIALECTS[rng.below(DIALECTS.len())];
            items.push(Item { dialect: d.to_string(), cls: "rule-snippet", name: name.clone(), sql: s.clone() });
        }
    }
    // corrupted corpus files
    let n_corrupt = if args.thorough() { 6000 } else { 1200 };
    let small: Vec<&CorpusFile> = files.iter().filter(|f| f.text.len() <= 1500 && DIALECTS.contains(&f.dialect.as_str())).collect();
    for i in 0..n_corrupt {
        let f = small[rng.below(small.len())];
        let d = if rng.chance(3, 4) { f.dialect.clone() } else { DIALECTS[rng.below(DIALECTS.len())].to_string() };
        let sql = corrupt(&mut rng, &f.text);
        items.push(Item { dialect: d, cls: "corrupted", name: format!("{}#{}", f.name, i), sql });
    }
    // comment gaps: white space between code words replaced by a block comment, sometimes with the word behind it
    // dropped, so that matchers are asked at a comment and a terminator can follow a keyword directly (a matcher
    // that skips a leading gap starts on the code behind the comment: first-token pruning must not judge it by the
    // comment - the class that shows `SELECT/*c*/ORDER BY a`, fixed by "fix: first-token pruning looks only at ...")
    let n_gap = if args.thorough() { 3000 } else { 600 };
    for i in 0..n_gap {
        let f = small[rng.below(small.len())];
        let d = if rng.chance(3, 4) { f.dialect.clone() } else { DIALECTS[rng.below(DIALECTS.len())].to_string() };
        let mut w = words(&f.text);
        let gaps: Vec<usize> = (1..w.len().saturating_sub(1)).filter(|&i| w[i].trim().is_empty()).collect();
        if gaps.is_empty() {
            continue;
        }
        let all = rng.chance(1, 6);
        let n = rng.range(1, 3);
        let chosen: Vec<usize> = if all { gaps.clone() } else { (0..n).map(|_| *rng.pick(&gaps)).collect() };
        let mut drop = vec![];
        for &j in &chosen {
            w[j] = if rng.chance(1, 4) { "--c\n".to_string() } else { "/*c*/".to_string() };
            if !all && rng.chance(1, 2) && j + 2 < w.len() {
                drop.push(j + 1);
            }
        }
        drop.sort();
        drop.dedup();
        for &j in drop.iter().rev() {
            w.remove(j);
            if j < w.len() && w[j].trim().is_empty() {
                w.remove(j);
            }
        }
        items.push(Item { dialect: d, cls: "comment-gap", name: format!("{}#g{}", f.name, i), sql: w.concat() });
    }
    // hand-written stress inputs for the shortcut mechanisms
    for d in DIALECTS {
        for (i, s) in [
            "SELECT/*c*/ORDER BY a\n",
            "SELECT/*c*/UNION ALL SELECT 1\n",
            "SELECT/*c*/ORDER BY a FROM t\n",
            "SELECT a FROM t WHERE/*c*/GROUP BY a\n",
            "SELECT a, b, c FROM t WHERE a IN (1, 2, 3) AND b = (SELECT max(b) FROM u WHERE u.a = t.a)\n",
            "SELECT a FROM (SELECT a FROM (SELECT a FROM t) x) y ORDER BY a, a, a\n",
            "SELECT CASE WHEN a THEN b WHEN c THEN d ELSE e END, CASE WHEN a THEN b END FROM t\n",
            "SELECT f(a, g(b, h(c))), f(a, g(b, h(c))) FROM t JOIN u ON t.a = u.a JOIN v ON u.a = v.a\n",
            "SELECT 1;\nSELECT 1;\nSELECT 1;\n",
            "select a from t where a = 1 or a = 1 or a = 1 or (a = 1 and (a = 1 or a = 1))\n",
            "",
            ";;\n",
            "SELECT\n",
            ")(\n",
        ]
        .iter()
        .enumerate()
        {
            items.push(Item { dialect: d.to_string(), cls: "stress", name: format!("stress{}", i), sql: s.to_string() });
        }
    }
    items
}

struct Shared {
    dialects: HashMap<String, Arc<Dialect>>,
}

// ---- watchdog: a parse that does not come back is itself a difference (the baseline did).
// The limit is CPU time of the parsing thread (the machine may be shared: a big input that needs
// 40 s of CPU can take minutes of wall time), with "asleep and no CPU for a minute" (blocked for
// good) and 10 x the limit of wall time as the other two ways to give up.
struct Watch {
    start: std::time::Instant,
    task: Option<String>,
    start_ticks: u64,
    last_ticks: u64,
    last_progress: std::time::Instant,
    v: Value,
}
static WATCH: std::sync::Mutex<Option<HashMap<std::thread::ThreadId, Watch>>> = std::sync::Mutex::new(None);
thread_local! {
    static TASK_DIR: Option<String> = std::fs::read_link("/proc/thread-self").ok().map(|p| format!("/proc/{}", p.display()));
}
/// (state, utime + stime in clock ticks) of a thread of this process
fn task_stat(dir: &str) -> Option<(char, u64)> {
    let s = std::fs::read_to_string(format!("{}/stat", dir)).ok()?;
    let rest = &s[s.rfind(')')? + 1..];
    let f: Vec<&str> = rest.split_whitespace().collect();
    let state = f.first()?.chars().next()?;
    let ut: u64 = f.get(11)?.parse().ok()?;
    let st: u64 = f.get(12)?.parse().ok()?;
    Some((state, ut + st))
}
const TICKS_PER_S: u64 = 100;
fn watch_set(v: Value) {
    if WATCH.lock().unwrap().is_none() {
        return;
    }
    let task = TASK_DIR.with(|t| t.clone());
    let ticks = task.as_deref().and_then(task_stat).map(|x| x.1).unwrap_or(0);
    let now = std::time::Instant::now();
    if let Some(m) = WATCH.lock().unwrap().as_mut() {
        m.insert(std::thread::current().id(), Watch { start: now, task, start_ticks: ticks, last_ticks: ticks, last_progress: now, v });
    }
}
fn watch_clear() {
    if let Some(m) = WATCH.lock().unwrap().as_mut() {
        m.remove(&std::thread::current().id());
    }
}
fn watchdog(out_path: std::path::PathBuf, limit_s: u64) {
    *WATCH.lock().unwrap() = Some(HashMap::new());
    std::thread::spawn(move || {
        loop {
            std::thread::sleep(std::time::Duration::from_secs(2));
            let mut stuck: Option<(u64, Value, String)> = None;
            if let Some(m) = WATCH.lock().unwrap().as_mut() {
                let now = std::time::Instant::now();
                for w in m.values_mut() {
                    let mut asleep = false;
                    match w.task.as_deref().and_then(task_stat) {
                        Some((st, ticks)) => {
                            if ticks != w.last_ticks || st != 'S' {
                                w.last_ticks = ticks;
                                w.last_progress = now;
                            }
                            asleep = st == 'S';
                        }
                        None => w.last_progress = now,
                    }
                    let cpu_s = (w.last_ticks - w.start_ticks) / TICKS_PER_S;
                    // small inputs (templated ones) carry their own, shorter limit
                    let limit_s = w.v["cpu_limit_s"].as_u64().unwrap_or(limit_s);
                    let why = if cpu_s > limit_s {
                        Some(format!("parse did not finish within {} s of CPU time", limit_s))
                    } else if asleep && now.duration_since(w.last_progress).as_secs() > 60 {
                        Some("the parsing thread sleeps and has used no CPU for 60 s (blocked for good)".to_string())
                    } else if w.start.elapsed().as_secs() > 10 * limit_s {
                        Some(format!("parse did not finish within {} s of wall time ({} s of CPU)", 10 * limit_s, cpu_s))
                    } else {
                        None
                    };
                    if let Some(why) = why {
                        if stuck.as_ref().map(|s| cpu_s > s.0).unwrap_or(true) {
                            stuck = Some((cpu_s, w.v.clone(), why));
                        }
                    }
                }
            }
            if let Some((_, v, why)) = stuck {
                use std::io::Write;
                let key = format!("hang:{}:{}:{:016x}", v["variant"].as_str().unwrap_or("?"), v["dialect"].as_str().unwrap_or("?"), h64(v["sql"].as_str().unwrap_or("")));
                let mut f = std::fs::OpenOptions::new().create(true).write(true).truncate(true).open(&out_path).unwrap();
                let _ = writeln!(f, "{}", json!({"t":"direct_fail","cls":"watchdog","key":key,"msg":format!("{} (the harness stopped here; other inputs were not run)", why),"input":v}));
                let _ = writeln!(f, "{}", json!({"t":"counts","v":{},"direct_by_class":{"watchdog":1}}));
                let _ = writeln!(f, "{}", json!({"t":"done","cases":0,"direct":1,"direct_fail":1}));
                let _ = f.flush();
                std::process::exit(0);
            }
        }
    });
}

fn watched_parse(d: &Dialect, it: &Item, variant: &str) -> String {
    watch_set(json!({"dialect": it.dialect, "sql": it.sql, "name": it.name, "variant": variant}));
    let o = outcome(&parse_with(d, &it.sql));
    watch_clear();
    o
}

fn run_item(sh: &Shared, it: &Item, buf: &mut Buf) {
    let shared = &sh.dialects[&it.dialect];
    let input = json!({"dialect": it.dialect, "sql": it.sql, "name": it.name});
    verif_switches::set(false, false);
    let base = watched_parse(shared, it, "baseline");
    let mut variants: Vec<(&str, String)> = vec![];
    verif_switches::set(true, false);
    variants.push(("cache-off", watched_parse(shared, it, "cache-off")));
    verif_switches::set(false, true);
    variants.push(("prune-off", watched_parse(shared, it, "prune-off")));
    verif_switches::set(true, true);
    variants.push(("both-off", watched_parse(shared, it, "both-off")));
    verif_switches::set(false, false);
    variants.push(("repeat", watched_parse(shared, it, "repeat")));
    let fresh = dialect_of(&it.dialect);
    variants.push(("fresh-dialect", watched_parse(&fresh, it, "fresh-dialect")));
    let nontrivial = base.starts_with("tree:") && it.sql.split_whitespace().count() >= 4;
    if nontrivial {
        buf.count("nontrivial_inputs", 1);
    }
    buf.count(&format!("inputs_{}", it.cls), 1);
    if base.starts_with("abort") {
        buf.count("baseline_aborts", 1);
    }
    for (v, o) in variants {
        let same = o == base;
        // an abort in Dialect::ref is the C14 defect (dangling keyword reference), not a shortcut
        // difference: with a shortcut off the parser may enter an alternative it otherwise skips
        let masked = !same && (o.starts_with("abort-dangling:") || base.starts_with("abort-dangling:"));
        if masked {
            buf.count("differences_masked_by_C14_dangling_abort", 1);
            buf.direct(&format!("{}:{}", it.cls, v), true, "", "", Value::Null);
            continue;
        }
        let key = format!("{}:{}:{:016x}", v, it.dialect, h64(&it.sql));
        let mut inp = input.clone();
        inp["variant"] = json!(v);
        inp["baseline"] = json!(base);
        inp["observed"] = json!(o);
        buf.direct(&format!("{}:{}", it.cls, v), same, &key, &format!("parse result with {} differs from the baseline (shortcuts on, shared dialect)", v), inp);
    }
}

/// Cache on vs cache off vs pruning off on the shared dialect (no fresh dialect instance: cheap
/// enough for every fixture under every dialect).
fn run_item_light(sh: &Shared, it: &Item, buf: &mut Buf) {
    let shared = &sh.dialects[&it.dialect];
    verif_switches::set(false, false);
    let base = watched_parse(shared, it, "baseline");
    verif_switches::set(true, false);
    let off = watched_parse(shared, it, "cache-off");
    verif_switches::set(false, true);
    let noprune = watched_parse(shared, it, "prune-off");
    verif_switches::set(false, false);
    buf.count(&format!("inputs_{}", it.cls), 1);
    if base.starts_with("tree:") && it.sql.split_whitespace().count() >= 4 {
        buf.count("nontrivial_inputs", 1);
    }
    for (v, o) in [("cache-off", off), ("prune-off", noprune)] {
        let same = o == base;
        if !same && (o.starts_with("abort-dangling:") || base.starts_with("abort-dangling:")) {
            buf.count("differences_masked_by_C14_dangling_abort", 1);
            buf.direct(&format!("{}:{}", it.cls, v), true, "", "", Value::Null);
            continue;
        }
        let key = format!("{}:{}:{:016x}", v, it.dialect, h64(&it.sql));
        let inp = if same { Value::Null } else { json!({"dialect": it.dialect, "sql": it.sql, "name": it.name, "variant": v, "baseline": base, "observed": o}) };
        buf.direct(&format!("{}:{}", it.cls, v), same, &key, &format!("parse result with {} differs from the baseline (shortcuts on, shared dialect)", v), inp);
    }
}

// ------------------------------------------------------------------------------------ large inputs
/// A big input (tens of thousands of tokens): parsed with the cache on and off only, each parse on
/// its own thread.  `recipe` rebuilds `sql` in a replay (the text itself is too big for the reports).
#[derive(Clone)]
struct Big {
    dialect: String,
    cls: String,
    name: String,
    recipe: Value,
    sql: String,
}

/// The large shapes.  `n` is the number of repeated units (statements, rows, list elements, nesting levels).
fn large_sql(shape: &str, n: usize) -> String {
    let mut s = String::new();
    match shape {
        // many short independent statements: every statement adds fresh memo locations
        "many-statements" => {
            for i in 0..n {
                let _ = writeln!(s, "SELECT a{}, b FROM t{} WHERE x = {};", i % 7, i % 5, i);
            }
        }
        // one INSERT with a very long VALUES list
        "values-list" => {
            s.push_str("INSERT INTO t (a, b) VALUES ");
            for i in 0..n {
                if i > 0 {
                    s.push_str(", ");
                }
                let _ = write!(s, "({}, 'v{}')", i, i % 9);
            }
            s.push_str(";\n");
        }
        // one SELECT whose FROM clause is a VALUES list inside a scalar sub-query (bracketed slice + terminator-trimmed slice)
        "values-subquery" => {
            s.push_str("SELECT a FROM t WHERE a = (SELECT max(c1) FROM (VALUES ");
            for i in 0..n {
                if i > 0 {
                    s.push_str(", ");
                }
                let _ = write!(s, "({})", i);
            }
            s.push_str(") AS v (c1));\n");
        }
        // one very long IN list
        "in-list" => {
            s.push_str("SELECT a FROM t WHERE b IN (");
            for i in 0..n {
                if i > 0 {
                    s.push_str(", ");
                }
                let _ = write!(s, "{}", i);
            }
            s.push_str(") AND c = 1;\n");
        }
        // one very long select list
        "select-list" => {
            s.push_str("SELECT ");
            for i in 0..n {
                if i > 0 {
                    s.push_str(", ");
                }
                let _ = write!(s, "c{} AS d{}", i, i);
            }
            s.push_str(" FROM t;\n");
        }
        // statements spread over more than 2^16 lines (line numbers are part of the memo location)
        "many-lines" => {
            for i in 0..n {
                let _ = writeln!(s, "SELECT\n\na{}\n,\n\nb\nFROM\n\nt{}\n;", i % 7, i % 5);
            }
        }
        // one select list spread over more than 2^16 lines
        "select-list-lines" => {
            s.push_str("SELECT\n");
            for i in 0..n {
                if i > 0 {
                    s.push_str(",\n\n");
                }
                let _ = write!(s, "c{}", i % 100);
            }
            s.push_str("\nFROM t;\n");
        }
        // many statements, each with narrow nesting (brackets, sub-queries, CASE)
        "nested-statements" => {
            for i in 0..n {
                let _ = writeln!(s, "SELECT (((a + {})) * (SELECT max(b) FROM (SELECT b FROM u WHERE u.k = {}) AS w)), CASE WHEN a > {} THEN (1) ELSE ((2)) END FROM t;", i, i, i);
            }
        }
        _ => {}
    }
    s
}
fn lex_count(d: &Dialect, sql: &str) -> usize {
    use sqruff_lib_core::parser::lexer::StringOrTemplate;
    use sqruff_lib_core::parser::segments::base::Tables;
    let tables = Tables::default();
    catch(|| d.lexer().lex(&tables, StringOrTemplate::String(sql)).map(|(t, _)| t.len()).unwrap_or(0)).unwrap_or(0)
}

/// Tokens of `sql` as the parser sees them: (raw, is_code).
fn lex_raws(d: &Dialect, sql: &str) -> Vec<(String, bool)> {
    use sqruff_lib_core::parser::lexer::StringOrTemplate;
    use sqruff_lib_core::parser::segments::base::Tables;
    let tables = Tables::default();
    catch(|| d.lexer().lex(&tables, StringOrTemplate::String(sql)).map(|(t, _)| t.iter().map(|s| (s.raw().to_string(), s.is_code())).collect::<Vec<_>>()).unwrap_or_default()).unwrap_or_default()
}

/// A place where the answer of one matcher at one token depends on the length of the slice it is
/// matched against (`short` < `long` are the two slice lengths): the component of the memo location
/// that tells them apart is the slice length alone.
#[derive(Clone, Debug)]
struct Site {
    idx: u32,
    short: u32,
    long: u32,
    key: u32,
    res_short: (u32, bool, u32),
    res_long: (u32, bool, u32),
}

fn slice_sites(d: &Dialect, sql: &str) -> Vec<Site> {
    verif_switches::set(false, false);
    verif_switches::rec_start(30000);
    let _ = parse_with(d, sql);
    let frames = verif_switches::rec_take();
    let mut by: BTreeMap<(u32, u32), BTreeMap<u32, (u32, bool, u32)>> = BTreeMap::new();
    for f in &frames {
        for (k, _, r) in &f.evals {
            by.entry((f.idx, *k)).or_default().insert(f.max_idx, *r);
        }
    }
    let mut out = vec![];
    for ((idx, key), m) in by {
        let v: Vec<(u32, (u32, bool, u32))> = m.into_iter().collect();
        for w in v.windows(2) {
            if w[0].1 != w[1].1 {
                out.push(Site { idx, short: w[0].0, long: w[1].0, key, res_short: w[0].1, res_long: w[1].1 });
            }
        }
    }
    out
}

/// `sql` with padding tokens (block comments) inserted between the two slice ends of `site` so that
/// they are exactly `dist` tokens apart.  None when they are already further apart or there is no
/// place for the padding.
fn straddle(d: &Dialect, sql: &str, site: &Site, dist: u32) -> Option<String> {
    let toks = lex_raws(d, sql);
    if toks.iter().map(|t| t.0.len()).sum::<usize>() != sql.len() || site.long as usize > toks.len() {
        return None;
    }
    let gap = site.long - site.short;
    if gap >= dist {
        return None;
    }
    let at = ((site.short as usize + 1)..=(site.long as usize).min(toks.len() - 1)).find(|&i| toks[i].1)?;
    let off: usize = toks[..at].iter().map(|t| t.0.len()).sum();
    let mut s = String::with_capacity(sql.len() + 4 * (dist - gap) as usize);
    s.push_str(&sql[..off]);
    for _ in 0..(dist - gap) {
        s.push_str("/**/");
    }
    s.push_str(&sql[off..]);
    Some(s)
}

/// `sql` followed by trailing line breaks so that it has exactly `tokens` tokens (each line break
/// is one token, the end-of-file marker is counted).
fn pad_to_tokens(d: &Dialect, mut sql: String, tokens: usize) -> String {
    let have = lex_count(d, &sql);
    for _ in have..tokens {
        sql.push('\n');
    }
    sql
}

fn build_recipe(d: &Dialect, r: &Value) -> Option<String> {
    match r["kind"].as_str()? {
        "shape" => {
            let sql = large_sql(r["shape"].as_str()?, r["n"].as_u64()? as usize);
            Some(match r["pad_to_tokens"].as_u64() {
                Some(t) => pad_to_tokens(d, sql, t as usize),
                None => sql,
            })
        }
        "straddle" => {
            let g = |k: &str| r[k].as_u64().map(|x| x as u32);
            let site = Site { idx: g("idx")?, short: g("short")?, long: g("long")?, key: g("key").unwrap_or(0), res_short: (0, false, 0), res_long: (0, false, 0) };
            straddle(d, r["base_sql"].as_str()?, &site, g("dist")?)
        }
        _ => None,
    }
}

fn shape_big(sh: &Shared, dialect: &str, shape: &str, n: usize, pad_to: Option<usize>) -> Big {
    let mut recipe = json!({"kind": "shape", "shape": shape, "n": n});
    if let Some(t) = pad_to {
        recipe["pad_to_tokens"] = json!(t);
    }
    let sql = build_recipe(&sh.dialects[dialect], &recipe).unwrap_or_default();
    let name = match pad_to {
        Some(t) => format!("{}x{}@{}tokens", shape, n, t),
        None => format!("{}x{}", shape, n),
    };
    Big { dialect: dialect.to_string(), cls: format!("large:{}", shape), name, recipe, sql }
}

/// The generated large inputs: every shape beyond 2^16 tokens and (for the statement lists) beyond
/// 2^16 memo locations; thorough adds sizes that sit exactly on / next to 2^16 tokens and twice that.
fn big_shapes(sh: &Shared, args: &Args) -> Vec<Big> {
    let mut v = vec![
        shape_big(sh, "ansi", "many-statements", 7000, None),
        shape_big(sh, "postgres", "values-list", 9000, None),
        shape_big(sh, "bigquery", "select-list", 10000, None),
        shape_big(sh, "snowflake", "nested-statements", 1700, None),
        shape_big(sh, "mysql", "in-list", 22000, None),
        shape_big(sh, "sparksql", "values-subquery", 13200, None),
        shape_big(sh, "duckdb", "many-lines", 6700, None),
    ];
    if args.thorough() {
        for (i, (shape, unit)) in [("many-statements", 20usize), ("values-list", 8), ("select-list", 7), ("nested-statements", 83), ("in-list", 3), ("values-subquery", 5), ("many-lines", 17), ("select-list-lines", 4)].iter().enumerate() {
            for (j, t) in [65535usize, 65536, 65537, 131072].iter().enumerate() {
                let d = DIALECTS[(i * 4 + j) % DIALECTS.len()];
                let n = (t - 40) / unit;
                v.push(shape_big(sh, d, shape, n, Some(*t)));
            }
            // well beyond 2^17 tokens
            let d = DIALECTS[(i * 5 + 3) % DIALECTS.len()];
            v.push(shape_big(sh, d, shape, 200_000 / unit, None));
        }
    }
    v
}

/// position and surroundings of the first difference between two serialised trees
fn first_diff(a: &str, b: &str) -> Value {
    let n = a.bytes().zip(b.bytes()).take_while(|(x, y)| x == y).count();
    let cut = |s: &str| {
        let mut lo = n.saturating_sub(120);
        while !s.is_char_boundary(lo) {
            lo -= 1;
        }
        let mut hi = (n + 200).min(s.len());
        while !s.is_char_boundary(hi) {
            hi -= 1;
        }
        s[lo..hi].to_string()
    };
    json!({"offset_in_serialised_tree": n, "baseline_tree_there": cut(a), "observed_tree_there": cut(b), "baseline_tree_bytes": a.len(), "observed_tree_bytes": b.len()})
}

fn big_input_json(b: &Big, tokens: usize) -> Value {
    json!({"dialect": b.dialect, "name": b.name, "recipe": b.recipe, "tokens": tokens, "bytes": b.sql.len(), "sql_head": trunc(&b.sql, 300),
        "sql_tail": b.sql[b.sql.len().saturating_sub(120)..].to_string(),
        "how_to_rebuild": "sqv c13 --replay-input <this input object> rebuilds the text from `recipe` (or: bin/check C13 --replay <this file>)"})
}

/// One big input: baseline (cache on, with the audit of location keys) and cache-off, in parallel.
fn run_big(sh: &Shared, b: &Big, buf: &mut Buf) {
    let d = &sh.dialects[&b.dialect];
    let tokens = lex_count(d, &b.sql);
    let input = big_input_json(b, tokens);
    let watch = |variant: &str| json!({"dialect": b.dialect, "name": b.name, "variant": variant, "recipe": b.recipe, "tokens": tokens, "sql": trunc(&b.sql, 300)});
    let (base, audit, off) = std::thread::scope(|sc| {
        let h1 = std::thread::Builder::new()
            .stack_size(512 << 20)
            .spawn_scoped(sc, || {
                verif_switches::set(false, false);
                verif_switches::loc_audit_start();
                watch_set(watch("baseline"));
                let r = parse_with(d, &b.sql);
                watch_clear();
                (r, verif_switches::loc_audit_take())
            })
            .unwrap();
        let h2 = std::thread::Builder::new()
            .stack_size(512 << 20)
            .spawn_scoped(sc, || {
                verif_switches::set(true, false);
                watch_set(watch("cache-off"));
                let r = parse_with(d, &b.sql);
                watch_clear();
                verif_switches::set(false, false);
                r
            })
            .unwrap();
        let (r1, a) = h1.join().unwrap();
        (r1, a, h2.join().unwrap())
    });
    let (ob, oo) = (outcome(&base), outcome(&off));
    buf.count("inputs_big", 1);
    buf.count(&format!("inputs_{}", b.cls.split(':').next().unwrap_or("big")), 1);
    if ob.starts_with("tree:") {
        buf.count("nontrivial_inputs", 1);
    }
    if tokens >= 65536 {
        buf.count("big_inputs_with_at_least_65536_tokens", 1);
    }
    if audit.max_locations >= 65536 {
        buf.count("big_inputs_with_at_least_65536_memo_locations", 1);
    }
    if audit.max_cache_entries >= 65536 {
        buf.count("big_inputs_with_at_least_65536_memo_entries", 1);
    }
    buf.lines.push(json!({"t": "stat", "v": {"big_input": b.name, "class": b.cls, "dialect": b.dialect, "tokens": tokens, "longest_match_calls": audit.calls, "memo_locations": audit.max_locations, "memo_entries": audit.max_cache_entries, "longest_slice": audit.max_slice_len, "baseline": trunc(&ob, 40)}}));
    loc_hyp(buf, &audit, json!({"dialect": b.dialect, "input": b.name, "recipe": b.recipe}));
    let same = ob == oo;
    let masked = !same && (ob.starts_with("abort-dangling:") || oo.starts_with("abort-dangling:"));
    if masked {
        buf.count("differences_masked_by_C14_dangling_abort", 1);
        buf.direct(&format!("{}:cache-off", b.cls), true, "", "", Value::Null);
        return;
    }
    let mut inp = input;
    if !same {
        inp["variant"] = json!("cache-off");
        inp["baseline"] = json!(ob);
        inp["observed"] = json!(oo);
        inp["first_difference"] = match (&base, &off) {
            (Ok(a), Ok(b)) => first_diff(a, b),
            (Err(a), _) => json!({"baseline_parse_did_not_return_a_tree": trunc(a, 400)}),
            (_, Err(b)) => json!({"cache_off_parse_did_not_return_a_tree": trunc(b, 400)}),
        };
        inp["location_key_audit_of_baseline"] = json!({"memo_locations": audit.max_locations, "memo_entries": audit.max_cache_entries, "keys_reused_for_another_location": audit.reused_for_other_location, "keys_not_leading_back_to_their_location": audit.unfaithful, "first": audit.first});
    }
    let key = format!("cache-off:{}:{}", b.dialect, b.name);
    buf.direct(&format!("{}:cache-off", b.cls), same, &key, "parse result with the parse cache off differs from the baseline (shortcuts on) on a big input", inp);
}

/// Monitor of the hypothesis that a location key identifies (token, slice length) within one parse
/// (H_mfn reads the memo at (loc_key, cache_key): two locations under one key void it).
fn loc_hyp(buf: &mut Buf, a: &verif_switches::LocAudit, whereabouts: Value) {
    let ok = a.reused_for_other_location == 0 && a.unfaithful == 0;
    let mut ex = whereabouts;
    ex["longest_match_calls"] = json!(a.calls);
    ex["keys_reused_for_another_location"] = json!(a.reused_for_other_location);
    ex["keys_not_leading_back_to_their_location"] = json!(a.unfaithful);
    ex["first"] = json!(a.first);
    buf.count("location_keys_audited", a.calls);
    buf.hyp("H_loc_key_identifies_token_and_slice_length", "blocking", ok, ex);
}

/// The big inputs, `conc` at a time, every parse on its own thread (they run beside the worker pool).
fn run_bigs(sh: &Shared, bigs: &[Big], conc: usize) -> Vec<Buf> {
    let next = std::sync::atomic::AtomicUsize::new(0);
    let res: std::sync::Mutex<Vec<Option<Buf>>> = std::sync::Mutex::new(bigs.iter().map(|_| None).collect());
    std::thread::scope(|sc| {
        for _ in 0..conc.min(bigs.len()) {
            sc.spawn(|| {
                loop {
                    let i = next.fetch_add(1, std::sync::atomic::Ordering::SeqCst);
                    if i >= bigs.len() {
                        break;
                    }
                    let mut buf = Buf::default();
                    run_big(sh, &bigs[i], &mut buf);
                    res.lock().unwrap()[i] = Some(buf);
                }
            });
        }
    });
    res.into_inner().unwrap().into_iter().flatten().collect()
}

/// Slice-length straddles: for every place of every input where a matcher's answer depends on the
/// slice length alone (see `Site`), variants of the input in which the two slice lengths are exactly
/// 2^8 / 2^16 tokens apart.  Returns (small variants for the ordinary 6-way comparison, big ones).
fn straddles(sh: &Shared, items: &[Item], args: &Args, out: &mut Out) -> (Vec<Item>, Vec<Big>) {
    let found: std::sync::Mutex<Vec<(usize, Vec<Site>)>> = std::sync::Mutex::new(vec![]);
    let idx: Vec<usize> = (0..items.len()).collect();
    par_run(out, &idx, || (), |_, &i, buf| {
        let it = &items[i];
        watch_set(json!({"dialect": it.dialect, "sql": it.sql, "name": it.name, "variant": "site-scan"}));
        let s = slice_sites(&sh.dialects[&it.dialect], &it.sql);
        watch_clear();
        buf.count("inputs_scanned_for_slice_length_sites", 1);
        if !s.is_empty() {
            buf.count("inputs_with_slice_length_sites", 1);
            found.lock().unwrap().push((i, s));
        }
    });
    let mut found = found.into_inner().unwrap();
    found.sort_by_key(|f| (items[f.0].sql.len(), f.0));
    let (mut small, mut big) = (vec![], vec![]);
    let mut seen: BTreeSet<(String, u64, u32, u32, u32)> = BTreeSet::new();
    let max_big = if args.thorough() { 24 } else { 8 };
    let max_small = if args.thorough() { 400 } else { 60 };
    let mut buf = Buf::default();
    for (i, sites) in found {
        let it = &items[i];
        for st in sites {
            // one variant per (input, token, pair of slice lengths): the matcher does not matter
            if !seen.insert((it.dialect.clone(), h64(&it.sql), st.idx, st.short, st.long)) {
                continue;
            }
            buf.count("slice_length_sites", 1);
            let d = &sh.dialects[&it.dialect];
            let recipe = |dist: u32| json!({"kind": "straddle", "base_sql": it.sql, "base_name": it.name, "idx": st.idx, "short": st.short, "long": st.long, "key": st.key, "dist": dist,
                "meaning": format!("matcher {} at token {} answers {:?} on the slice of {} tokens and {:?} on the slice of {} tokens; block comments are inserted so that the two slices are {} tokens apart", st.key, st.idx, st.res_short, st.short, st.res_long, st.long, dist)});
            if small.len() < max_small {
                for dist in [255u32, 256, 257] {
                    if let Some(sql) = straddle(d, &it.sql, &st, dist) {
                        small.push(Item { dialect: it.dialect.clone(), cls: "straddle-256", name: format!("{}@{}:{}-{}+{}", it.name, st.idx, st.short, st.long, dist), sql });
                    }
                }
            }
            if big.len() < max_big {
                if let Some(sql) = straddle(d, &it.sql, &st, 65536) {
                    big.push(Big { dialect: it.dialect.clone(), cls: "straddle-65536".into(), name: format!("{}@{}:{}-{}+65536", it.name, st.idx, st.short, st.long), recipe: recipe(65536), sql });
                }
            } else {
                buf.count("slice_length_sites_without_65536_variant(cap)", 1);
            }
        }
    }
    out.absorb(buf);
    (small, big)
}

// ------------------------------------------------------------------------------------ correspondence: recorded longest_match calls
fn g_res(r: &(u32, bool, u32)) -> String {
    format!("({},{},{})", r.0, g_bool(r.1), r.2)
}

fn frame_case(f: &LmFrame, it: &Item, buf: &mut Buf) {
    // intern the raw strings of this frame
    let mut ids: HashMap<String, usize> = HashMap::new();
    let mut intern = |s: &str| -> usize {
        let n = ids.len();
        *ids.entry(s.to_string()).or_insert(n)
    };
    let tok = match &f.tok {
        Some((raw, types)) => format!("(Some ({},{}))", intern(raw), g_list(types.iter().map(|t| t.to_string()))),
        None => "None".to_string(),
    };
    let options = g_list(f.options.iter().map(|(k, h)| {
        let hs = match h {
            Some((raws, types)) => format!("(Some ({},{}))", g_list(raws.iter().map(|r| intern(r).to_string())), g_list(types.iter().map(|t| t.to_string()))),
            None => "None".to_string(),
        };
        format!("({},{})", k, hs)
    }));
    let results = g_list(f.evals.iter().map(|(k, _, r)| format!("({},{})", k, g_res(r))));
    let cached = g_list(f.evals.iter().filter(|e| e.1).map(|e| e.0.to_string()));
    let probes = g_list(f.probes.iter().map(|(k, b)| format!("({},{})", k, g_bool(*b))));
    let args = format!(
        "({},{},{},{},{},{},{},{},{},{},{})",
        f.idx,
        f.max_idx,
        f.loc,
        g_bool(f.has_terms),
        g_bool(!f.cache_off),
        g_bool(!f.prune_off),
        tok,
        options,
        results,
        cached,
        probes
    );
    let fresh = g_list(f.evals.iter().filter(|e| !e.1).map(|e| e.0.to_string()));
    let exp = format!("({},{},{})", g_opt(f.chosen.map(|k| k.to_string())), g_res(&f.result), fresh);
    let hits = f.evals.iter().filter(|e| e.1).count();
    let pruned = f.options.len() - f.avail.len();
    let nontrivial = f.options.len() >= 2 && (hits > 0 || pruned > 0 || !f.probes.is_empty());
    let cls = format!(
        "{}{}{}{}",
        if f.cache_off { "cache-off" } else { "cache-on" },
        if f.prune_off { "/prune-off" } else { "/prune-on" },
        if hits > 0 { "/hit" } else { "" },
        if pruned > 0 { "/pruned" } else { "" }
    );
    let sample = json!({"input": {"dialect": it.dialect, "sql": it.sql, "name": it.name},
        "call": {"idx": f.idx, "max_idx": f.max_idx, "loc": f.loc, "options": f.options.len(), "available": f.avail.len(), "evaluated": f.evals.len(), "hits": hits, "probes": f.probes.len(), "chosen": f.chosen, "result": [f.result.0, f.result.1, f.result.2]}});
    buf.case("lm", &cls, nontrivial, args, exp, sample);
}

fn record_item(sh: &Shared, it: &Item, per_parse: usize, buf: &mut Buf) {
    let shared = &sh.dialects[&it.dialect];
    let mut rng = Rng::new(h64(&it.sql));
    // monitor of the cache invariant (H_mfn / H_ctx): every cache hit of one ordinary parse is
    // compared with what matching the same option at the same place returns now
    verif_switches::set(false, false);
    verif_switches::audit_start();
    verif_switches::loc_audit_start();
    watch_set(json!({"dialect": it.dialect, "sql": it.sql, "name": it.name, "variant": "audit"}));
    let _ = parse_with(shared, &it.sql);
    watch_clear();
    let (hits, bad, ex) = verif_switches::audit_take();
    let la = verif_switches::loc_audit_take();
    loc_hyp(buf, &la, json!({"dialect": it.dialect, "sql": trunc(&it.sql, 400)}));
    buf.count("cache_hits_audited", hits);
    buf.count("cache_hits_differing_from_recomputation", bad);
    buf.hyp("H_mfn_cache_hit_equals_recomputation(Inv)", "diagnostic", bad == 0, json!({"dialect": it.dialect, "sql": trunc(&it.sql, 400), "hits": hits, "differing": bad, "first": ex}));
    for (co, po) in [(false, false), (true, true), (false, true)] {
        verif_switches::set(co, po);
        verif_switches::rec_start(4000);
        watch_set(json!({"dialect": it.dialect, "sql": it.sql, "name": it.name, "variant": "recording"}));
        let _ = parse_with(shared, &it.sql);
        watch_clear();
        let frames = verif_switches::rec_take();
        verif_switches::set(false, false);
        buf.count("lm_calls_recorded", frames.len());
        let interesting: Vec<&LmFrame> = frames.iter().filter(|f| f.options.len() >= 2 && (f.evals.iter().any(|e| e.1) || f.avail.len() < f.options.len() || !f.probes.is_empty())).collect();
        let mut chosen: Vec<&LmFrame> = vec![];
        for _ in 0..per_parse.min(interesting.len()) {
            chosen.push(interesting[rng.below(interesting.len())]);
        }
        for _ in 0..(per_parse / 3).min(frames.len()) {
            chosen.push(&frames[rng.below(frames.len())]);
        }
        for f in chosen {
            frame_case(f, it, buf);
        }
    }
}

// ------------------------------------------------------------------------------------ static: key injectivity on K
/// K: the nodes that can be direct options of `longest_match` (elements of AnyNumberOf/Delimited,
/// delimiters, every terminator, the NonCodeMatcher pushed by Delimited).
pub fn option_set(g: &Graph, reach: &[usize]) -> BTreeSet<usize> {
    let mut k = BTreeSet::new();
    for &n in reach {
        match &g.nodes[n] {
            Node::AnyOf { elems, terms, .. } => {
                k.extend(elems.iter().copied());
                k.extend(terms.iter().copied());
            }
            Node::Delim { delim, elems, terms } => {
                k.insert(*delim);
                k.extend(elems.iter().copied());
                k.extend(terms.iter().copied());
            }
            Node::Ref { terms, .. } | Node::Seq { terms, .. } | Node::Brack { terms, .. } | Node::Anything { terms } => k.extend(terms.iter().copied()),
            _ => {}
        }
        // Bracketed pushes its end bracket as a terminator
        if let Node::Brack { .. } = &g.nodes[n] {
            let (refs, _) = g.node_refs(n);
            if refs.len() >= 2 {
                if let Some(e) = g.deref(refs[1]) {
                    k.insert(e);
                }
            }
        }
    }
    k
}

/// behaviour class of a node: the smallest node id among the nodes that share its cache key and
/// have the same `Debug` rendering (a struct `clone()` keeps the key and every field; `copy()`
/// keeps the key but changes elements/terminators).
pub fn behaviour_classes(g: &Graph, nodes: &BTreeSet<usize>) -> HashMap<usize, usize> {
    let mut by_key: BTreeMap<u32, Vec<usize>> = BTreeMap::new();
    for &n in nodes {
        if let Some(key) = g.keys[n] {
            by_key.entry(key).or_default().push(n);
        }
    }
    let mut cls = HashMap::new();
    for (_, ns) in by_key {
        if ns.len() == 1 {
            cls.insert(ns[0], ns[0]);
            continue;
        }
        let mut seen: Vec<(String, usize)> = vec![];
        for n in ns {
            let d = format!("{:?}", g.handles[n]);
            match seen.iter().find(|(s, _)| *s == d) {
                Some((_, rep)) => {
                    cls.insert(n, *rep);
                }
                None => {
                    seen.push((d, n));
                    cls.insert(n, n);
                }
            }
        }
    }
    cls
}

fn static_keys(out: &mut Out, gen_dir: &str) {
    let mut buf = Buf::default();
    for d in DIALECTS {
        let dialect = dialect_of(d);
        let g = Graph::build(d, &dialect);
        let (order, _) = g.reach();
        let k = option_set(&g, &order);
        let mut by_key: BTreeMap<u32, Vec<usize>> = BTreeMap::new();
        let mut nokey = vec![];
        for &n in &k {
            match g.keys[n] {
                Some(key) => by_key.entry(key).or_default().push(n),
                None => nokey.push(n),
            }
        }
        let cls = behaviour_classes(&g, &k);
        let clashes: Vec<(u32, Vec<String>)> = by_key
            .iter()
            .filter(|(_, v)| v.iter().map(|n| cls[n]).collect::<BTreeSet<_>>().len() > 1)
            .map(|(k, v)| (*k, v.iter().map(|n| format!("{}#{}(class {})", g.describe(*n), n, cls[n])).collect()))
            .collect();
        let cloned_groups = by_key.values().filter(|v| v.len() > 1).count();
        buf.count("K_key_groups_with_identical_clones", cloned_groups - clashes.len());
        // all reachable nodes sharing a key (copy() clones the key) - informational
        let mut all_by_key: BTreeMap<u32, Vec<usize>> = BTreeMap::new();
        for &n in &order {
            if let Some(key) = g.keys[n] {
                all_by_key.entry(key).or_default().push(n);
            }
        }
        let shared_any = all_by_key.values().filter(|v| v.len() > 1).count();
        buf.hyp("H_key_inj_on_option_set_K(static)", "diagnostic", clashes.is_empty(), json!({"dialect": d, "clashes": clashes}));
        buf.count("option_set_K_nodes", k.len());
        buf.count("K_nodes_without_cache_key", nokey.len());
        buf.count("reachable_key_groups_shared_by_several_nodes(copy)", shared_any);
        let mut t = String::new();
        t.push_str("(* generated by `sqv c13`: (behaviour class, cache key) of the nodes that can be options of longest_match;\n   class = representative of the nodes with the same key and the same Debug rendering (struct clones) *)\n");
        t.push_str("From Sq Require Import Base.Bytes Cache.Model Cache.Proofs.\nOpen Scope N_scope.\n");
        t.push_str(&format!(
            "Definition option_keys : list (N * N) := {}.\n",
            g_list(k.iter().filter_map(|&n| g.keys[n].map(|key| format!("({},{})", cls[&n], key))))
        ));
        t.push_str(&format!("Theorem keys_injective_{d} : keys_inj_b option_keys = true.\nProof. vm_compute. reflexivity. Qed.\n"));
        t.push_str(&format!(
            "Theorem {d}_key_determines_option : forall c1 c2 k, In (c1, k) option_keys -> In (c2, k) option_keys -> c1 = c2.\nProof. exact (keys_inj_sound option_keys keys_injective_{d}). Qed.\nPrint Assumptions {d}_key_determines_option.\n"
        ));
        std::fs::write(format!("{}/Keys_{}.v", gen_dir, d), t).unwrap();
        out.stat(json!({"dialect": d, "option_set_K": k.len(), "K_without_key": nokey.len(), "K_key_clashes": clashes.len(), "reachable_shared_key_groups": shared_any}));
    }
    out.absorb(buf);
}

fn deep(g: &Graph, n: usize, depth: usize) -> String {
    let kids = |v: &Vec<usize>| v.iter().map(|&c| deep(g, c, depth.saturating_sub(1))).collect::<Vec<_>>().join(", ");
    if depth == 0 {
        return format!("{}#{}", g.describe(n), n);
    }
    match &g.nodes[n] {
        Node::Seq { elems, terms, .. } => format!("Seq#{}[{}]{{T:{}}}", n, kids(elems), kids(terms)),
        Node::AnyOf { elems, terms, .. } => format!("AnyOf#{}[{}]{{T:{}}}", n, kids(elems), kids(terms)),
        Node::Delim { elems, .. } => format!("Delim#{}[{}]", n, kids(elems)),
        Node::Brack { elems, .. } => format!("Brack#{}[{}]", n, kids(elems)),
        Node::NodeM { g: gr, .. } => format!("{}#{} -> {}", g.describe(n), n, deep(g, *gr, depth - 1)),
        _ => format!("{}#{}", g.describe(n), n),
    }
}

fn explain_clashes(d: &str) {
    let dialect = dialect_of(d);
    let g = Graph::build(d, &dialect);
    let (order, parent) = g.reach();
    let k = option_set(&g, &order);
    let mut by_key: BTreeMap<u32, Vec<usize>> = BTreeMap::new();
    for &n in &k {
        if let Some(key) = g.keys[n] {
            by_key.entry(key).or_default().push(n);
        }
    }
    let cls = behaviour_classes(&g, &k);
    for (key, ns) in by_key.iter().filter(|(_, v)| v.iter().map(|n| cls[n]).collect::<BTreeSet<_>>().len() > 1) {
        println!("== key {}", key);
        for &n in ns {
            let path: Vec<String> = g.path_to(&parent, n).iter().map(|&p| format!("{}#{}", g.describe(p), p)).collect();
            println!("  node {}: {}", n, deep(&g, n, 2));
            println!("     path: {}", path.join(" > "));
            // who holds it as an option
            for &m in &order {
                let holds = match &g.nodes[m] {
                    Node::AnyOf { elems, terms, .. } => elems.contains(&n) || terms.contains(&n),
                    Node::Delim { delim, elems, terms } => *delim == n || elems.contains(&n) || terms.contains(&n),
                    Node::Ref { terms, .. } | Node::Seq { terms, .. } | Node::Brack { terms, .. } | Node::Anything { terms } => terms.contains(&n),
                    _ => false,
                };
                if holds {
                    println!("     option/terminator of {}#{}", g.describe(m), m);
                }
            }
        }
    }
}

pub fn main(args: &Args) {
    silence_panics();
    let mut out = Out::new(&args.out);
    let gen_dir = args.flag("--gen-dir").unwrap_or_else(|| "/tmp/sqv-c13-gen".into());
    std::fs::create_dir_all(&gen_dir).unwrap();
    let mut dialects = HashMap::new();
    for d in DIALECTS {
        dialects.insert(d.to_string(), Arc::new(dialect_of(d)));
    }
    let sh = Shared { dialects };

    if let Some(path) = args.flag("--replay-input") {
        let v: Value = serde_json::from_str(&std::fs::read_to_string(path).unwrap()).unwrap();
        let dname = v["dialect"].as_str().unwrap_or("ansi").to_string();
        let mut buf = Buf::default();
        if v["kind"] == "prune" || v["kind"] == "templated" || v["kind"] == "config-history" {
            watchdog(args.out.clone(), 240);
            if v["kind"] == "prune" {
                ext::replay_prune(&sh, &v, &mut buf);
            } else if v["kind"] == "config-history" {
                ext::replay_history(&v, &mut buf);
            } else {
                ext::run_templated(&mut ext::Linters::new(), &ext::titem_from_json(&v), &mut buf);
            }
            out.absorb(buf);
            out.finish();
            return;
        }
        if v["recipe"].is_object() {
            // a big input: rebuilt from its recipe
            watchdog(args.out.clone(), 600);
            let sql = build_recipe(&sh.dialects[&dname], &v["recipe"]).unwrap_or_default();
            let b = Big { dialect: dname, cls: "replay".into(), name: v["name"].as_str().unwrap_or("replay").to_string(), recipe: v["recipe"].clone(), sql };
            run_big(&sh, &b, &mut buf);
            out.absorb(buf);
            out.finish();
            return;
        }
        let it = Item { dialect: dname, cls: "replay", name: "replay".into(), sql: v["sql"].as_str().unwrap_or("").to_string() };
        run_item(&sh, &it, &mut buf);
        record_item(&sh, &it, 40, &mut buf);
        out.absorb(buf);
        out.finish();
        return;
    }

    if let Some(d) = args.flag("--explain-clashes") {
        explain_clashes(&d);
        return;
    }
    static_keys(&mut out, &gen_dir);
    watchdog(args.out.clone(), if args.thorough() { 600 } else { 240 });

    // the pruning decision on generated calls, hint audit; grammar-directed sentences; templated inputs (c13x.rs)
    let aimed = ext::grammar_stage(&sh, args, &mut out);
    let templated = ext::gen_templated(args);
    // reused dialect / linter under changing indentation switches vs instances that never saw another configuration
    let histories = ext::gen_histories(args);
    if let Some(only) = args.flag("--only") {
        // development aid: one of the c13x.rs parts alone
        if let Some(f) = args.flag("--dump-sentences") {
            let _ = std::fs::write(f, aimed.iter().map(|i| format!("{}\t{}\t{}\t{}", i.dialect, i.cls, i.name, i.sql)).collect::<String>());
        }
        if only == "grammar" {
            par_run(&mut out, &aimed, || (), |_, it, buf| run_item_light(&sh, it, buf));
        } else if only == "history" {
            par_run(&mut out, &histories, || (), |_, t, buf| ext::run_history(t, buf));
        } else {
            par_run(&mut out, &templated, ext::Linters::new, |st, it, buf| ext::run_templated(st, it, buf));
        }
        out.finish();
        return;
    }

    let mut items = gen_items(args);
    // slice-length straddles derived from the inputs; big inputs (generated shapes + 2^16 straddles)
    let (small, big_straddles) = straddles(&sh, &items, args, &mut out);
    items.extend(small);
    let mut bigs = big_shapes(&sh, args);
    bigs.extend(big_straddles);
    // every fixture under every other dialect, light comparison
    let max_len = if args.thorough() { 20000 } else { 6000 };
    let mut cross_all: Vec<Item> = vec![];
    for f in corpus() {
        if f.text.len() > max_len {
            continue;
        }
        for d in DIALECTS {
            if d != f.dialect {
                cross_all.push(Item { dialect: d.to_string(), cls: "cross-dialect-all", name: f.name.clone(), sql: f.text.clone() });
            }
        }
    }
    let big_bufs = std::thread::scope(|sc| {
        let (sh, bigs) = (&sh, &bigs);
        let conc = if args.thorough() { 6 } else { 12 };
        let h = sc.spawn(move || run_bigs(sh, bigs, conc));
        par_run(&mut out, &items, || (), |_, it, buf| run_item(sh, it, buf));
        par_run(&mut out, &cross_all, || (), |_, it, buf| run_item_light(sh, it, buf));
        par_run(&mut out, &aimed, || (), |_, it, buf| run_item_light(sh, it, buf));
        par_run(&mut out, &templated, ext::Linters::new, |st, it, buf| ext::run_templated(st, it, buf));
        par_run(&mut out, &histories, || (), |_, t, buf| ext::run_history(t, buf));
        h.join().unwrap()
    });
    for b in big_bufs {
        out.absorb(b);
    }

    // correspondence: recorded longest_match calls of a sample of the inputs
    let step = if args.thorough() { 6 } else { 12 };
    let rec_items: Vec<Item> = items.iter().step_by(step).cloned().collect();
    par_run(&mut out, &rec_items, || (), |_, it, buf| record_item(&sh, it, 6, buf));

    // concurrent parses of the same inputs on threads sharing one dialect instance
    let sample: Vec<&Item> = items.iter().filter(|i| i.cls == "corpus").step_by(if args.thorough() { 2 } else { 8 }).collect();
    let nthreads = 8;
    let results: Vec<Vec<String>> = std::thread::scope(|sc| {
        let hs: Vec<_> = (0..nthreads)
            .map(|t| {
                let sample = &sample;
                let sh = &sh;
                sc.spawn(move || {
                    verif_switches::set(false, false);
                    // different threads walk the list from different offsets so that the shared
                    // dialect's lazily initialised hints are raced
                    let n = sample.len();
                    let mut res = vec![String::new(); n];
                    for j in 0..n {
                        let i = (j + t * n / nthreads) % n;
                        res[i] = outcome(&parse_with(&sh.dialects[&sample[i].dialect], &sample[i].sql));
                    }
                    res
                })
            })
            .collect();
        hs.into_iter().map(|h| h.join().unwrap()).collect()
    });
    let mut buf = Buf::default();
    for (i, it) in sample.iter().enumerate() {
        let same = results.iter().all(|r| r[i] == results[0][i]);
        let key = format!("threads:{}:{:016x}", it.dialect, h64(&it.sql));
        buf.direct("parallel-shared-dialect", same, &key, "parse results differ between threads sharing one dialect", json!({"dialect": it.dialect, "sql": it.sql, "results": results.iter().map(|r| r[i].clone()).collect::<Vec<_>>()}));
    }
    out.absorb(buf);
    out.finish();
}
