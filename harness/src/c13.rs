//! C13 — parser shortcuts do not change the result.
//!
//! Direct observation: every input is parsed with the shortcuts on (baseline, dialect instance shared by
//! all worker threads) and again with the parse cache off, pruning off, both off (thread-local
//! `cfg(sqruff_verif)` switches), on a fresh dialect instance, and a second time on the shared instance;
//! the serialised trees must be identical.  A separate phase parses the same inputs concurrently on
//! several threads that share one dialect instance.
//! Correspondence: `longest_match` calls recorded through the `verif_lm` recorder are replayed on the
//! Gallina model (Cache/Model.v): evaluated options, cache hits, chosen option.
//! Static part: the cache keys of all nodes that can be options of `longest_match` (set K) are written
//! to coq/gen/Keys_<d>.v where `keys_inj_b` is evaluated by vm_compute.
use std::collections::{BTreeMap, BTreeSet, HashMap};
use std::hash::{Hash, Hasher};
use std::sync::Arc;

use serde_json::{Value, json};
use sqruff_lib_core::dialects::base::Dialect;
use sqruff_lib_core::parser::match_algorithms::verif_switches::{self, LmFrame};

use crate::c14::{Graph, Node, dialect_of, parse_with};
use crate::common::*;

#[derive(Clone)]
struct Item {
    dialect: String,
    cls: &'static str,
    name: String,
    sql: String,
}

fn h64(s: &str) -> u64 {
    let mut h = std::collections::hash_map::DefaultHasher::new();
    s.hash(&mut h);
    h.finish()
}

/// class of a parse outcome: tree hash, or the abort class
fn outcome(r: &Result<String, String>) -> String {
    match r {
        Ok(t) => format!("tree:{:016x}", h64(t)),
        Err(m) => {
            if let Some(i) = m.find("Grammar refers to") {
                let rest = &m[i..];
                let name = rest.split('\'').nth(1).unwrap_or("?");
                format!("abort-dangling:{}", name)
            } else {
                format!("abort:{}", trunc(m, 80))
            }
        }
    }
}

fn words(sql: &str) -> Vec<String> {
    // split into alternating runs of whitespace / non-whitespace, keeping everything
    let mut out = vec![];
    let mut cur = String::new();
    let mut ws: Option<bool> = None;
    for ch in sql.chars() {
        let w = ch.is_whitespace();
        if ws.is_some() && ws != Some(w) {
            out.push(std::mem::take(&mut cur));
        }
        ws = Some(w);
        cur.push(ch);
    }
    if !cur.is_empty() {
        out.push(cur);
    }
    out
}

const KEYWORDS: &[&str] = &["SELECT", "FROM", "WHERE", "(", ")", ",", "AND", "JOIN", "ON", "AS", "BY", "GROUP", "ORDER", ";", "CASE", "END", "NOT", "NULL", "UNION", "WITH", "INSERT", "INTO", "VALUES", "CREATE", "TABLE", "x", "1", "'s'", "*", "."];

fn corrupt(rng: &mut Rng, sql: &str) -> String {
    let mut w = words(sql);
    let code: Vec<usize> = (0..w.len()).filter(|&i| !w[i].trim().is_empty()).collect();
    if code.is_empty() {
        return sql.to_string();
    }
    let n = rng.range(1, 3);
    for _ in 0..n {
        let code: Vec<usize> = (0..w.len()).filter(|&i| !w[i].trim().is_empty()).collect();
        if code.is_empty() {
            break;
        }
        let i = *rng.pick(&code);
        match rng.below(6) {
            0 => {
                w.remove(i);
            }
            1 => {
                let x = w[i].clone();
                w.insert(i, " ".into());
                w.insert(i, x);
            }
            2 => {
                let j = *rng.pick(&code);
                w.swap(i, j);
            }
            3 => {
                w.insert(i, " ".into());
                w.insert(i, rng.pick(KEYWORDS).to_string());
            }
            4 => {
                w.truncate(i + 1);
            }
            _ => {
                // split a word in the middle / drop a character
                let s = w[i].clone();
                if s.len() > 1 && s.is_ascii() {
                    let k = rng.range(1, s.len() - 1);
                    w[i] = format!("{} {}", &s[..k], &s[k..]);
                }
            }
        }
    }
    w.concat()
}

fn gen_items(args: &Args) -> Vec<Item> {
    let mut rng = Rng::new(args.seed);
    let files = corpus();
    let snippets = rule_snippets();
    let max_len = if args.thorough() { 6000 } else { 2500 };
    let mut items = vec![];
    // corpus under its own dialect
    for f in &files {
        if f.text.len() <= max_len && DIALECTS.contains(&f.dialect.as_str()) {
            items.push(Item { dialect: f.dialect.clone(), cls: "corpus", name: f.name.clone(), sql: f.text.clone() });
        }
    }
    // cross-dialect: every file under k other dialects
    let k_cross = if args.thorough() { 12 } else { 1 };
    for f in &files {
        if f.text.len() > max_len {
            continue;
        }
        let mut others: Vec<&str> = DIALECTS.iter().copied().filter(|d| *d != f.dialect).collect();
        rng.shuffle(&mut others);
        for d in others.into_iter().take(k_cross) {
            items.push(Item { dialect: d.to_string(), cls: "cross-dialect", name: f.name.clone(), sql: f.text.clone() });
        }
    }
    // rule snippets under a random dialect
    let n_snip = if args.thorough() { snippets.len() } else { snippets.len().min(400) };
    for (name, s) in snippets.iter().take(n_snip) {
        if s.len() <= max_len {
            let d = DIALECTS[rng.below(DIALECTS.len())];
            items.push(Item { dialect: d.to_string(), cls: "rule-snippet", name: name.clone(), sql: s.clone() });
        }
    }
    // corrupted corpus files
    let n_corrupt = if args.thorough() { 6000 } else { 1200 };
    let small: Vec<&CorpusFile> = files.iter().filter(|f| f.text.len() <= 1500 && DIALECTS.contains(&f.dialect.as_str())).collect();
    for i in 0..n_corrupt {
        let f = small[rng.below(small.len())];
        let d = if rng.chance(3, 4) { f.dialect.clone() } else { DIALECTS[rng.below(DIALECTS.len())].to_string() };
        let sql = corrupt(&mut rng, &f.text);
        items.push(Item { dialect: d, cls: "corrupted", name: format!("{}#{}", f.name, i), sql });
    }
    // hand-written stress inputs for the shortcut mechanisms
    for d in DIALECTS {
        for (i, s) in [
            "SELECT a, b, c FROM t WHERE a IN (1, 2, 3) AND b = (SELECT max(b) FROM u WHERE u.a = t.a)\n",
            "SELECT a FROM (SELECT a FROM (SELECT a FROM t) x) y ORDER BY a, a, a\n",
            "SELECT CASE WHEN a THEN b WHEN c THEN d ELSE e END, CASE WHEN a THEN b END FROM t\n",
            "SELECT f(a, g(b, h(c))), f(a, g(b, h(c))) FROM t JOIN u ON t.a = u.a JOIN v ON u.a = v.a\n",
            "SELECT 1;\nSELECT 1;\nSELECT 1;\n",
            "select a from t where a = 1 or a = 1 or a = 1 or (a = 1 and (a = 1 or a = 1))\n",
            "",
            ";;\n",
            "SELECT\n",
            ")(\n",
        ]
        .iter()
        .enumerate()
        {
            items.push(Item { dialect: d.to_string(), cls: "stress", name: format!("stress{}", i), sql: s.to_string() });
        }
    }
    items
}

struct Shared {
    dialects: HashMap<String, Arc<Dialect>>,
}

// ---- watchdog: a parse that does not come back is itself a difference (the baseline did)
static WATCH: std::sync::Mutex<Option<HashMap<std::thread::ThreadId, (std::time::Instant, Value)>>> = std::sync::Mutex::new(None);
fn watch_set(v: Value) {
    if let Some(m) = WATCH.lock().unwrap().as_mut() {
        m.insert(std::thread::current().id(), (std::time::Instant::now(), v));
    }
}
fn watch_clear() {
    if let Some(m) = WATCH.lock().unwrap().as_mut() {
        m.remove(&std::thread::current().id());
    }
}
fn watchdog(out_path: std::path::PathBuf, limit_s: u64) {
    *WATCH.lock().unwrap() = Some(HashMap::new());
    std::thread::spawn(move || {
        loop {
            std::thread::sleep(std::time::Duration::from_secs(2));
            let stuck: Option<Value> = WATCH.lock().unwrap().as_ref().and_then(|m| m.values().find(|(t, _)| t.elapsed().as_secs() > limit_s).map(|(_, v)| v.clone()));
            if let Some(v) = stuck {
                use std::io::Write;
                let key = format!("hang:{}:{}:{:016x}", v["variant"].as_str().unwrap_or("?"), v["dialect"].as_str().unwrap_or("?"), h64(v["sql"].as_str().unwrap_or("")));
                let mut f = std::fs::OpenOptions::new().create(true).write(true).truncate(true).open(&out_path).unwrap();
                let _ = writeln!(f, "{}", json!({"t":"direct_fail","cls":"watchdog","key":key,"msg":format!("parse did not finish within {} s (the harness stopped here; other inputs were not run)", limit_s),"input":v}));
                let _ = writeln!(f, "{}", json!({"t":"counts","v":{},"direct_by_class":{"watchdog":1}}));
                let _ = writeln!(f, "{}", json!({"t":"done","cases":0,"direct":1,"direct_fail":1}));
                let _ = f.flush();
                std::process::exit(0);
            }
        }
    });
}

fn watched_parse(d: &Dialect, it: &Item, variant: &str) -> String {
    watch_set(json!({"dialect": it.dialect, "sql": it.sql, "name": it.name, "variant": variant}));
    let o = outcome(&parse_with(d, &it.sql));
    watch_clear();
    o
}

fn run_item(sh: &Shared, it: &Item, buf: &mut Buf) {
    let shared = &sh.dialects[&it.dialect];
    let input = json!({"dialect": it.dialect, "sql": it.sql, "name": it.name});
    verif_switches::set(false, false);
    let base = watched_parse(shared, it, "baseline");
    let mut variants: Vec<(&str, String)> = vec![];
    verif_switches::set(true, false);
    variants.push(("cache-off", watched_parse(shared, it, "cache-off")));
    verif_switches::set(false, true);
    variants.push(("prune-off", watched_parse(shared, it, "prune-off")));
    verif_switches::set(true, true);
    variants.push(("both-off", watched_parse(shared, it, "both-off")));
    verif_switches::set(false, false);
    variants.push(("repeat", watched_parse(shared, it, "repeat")));
    let fresh = dialect_of(&it.dialect);
    variants.push(("fresh-dialect", watched_parse(&fresh, it, "fresh-dialect")));
    let nontrivial = base.starts_with("tree:") && it.sql.split_whitespace().count() >= 4;
    if nontrivial {
        buf.count("nontrivial_inputs", 1);
    }
    buf.count(&format!("inputs_{}", it.cls), 1);
    if base.starts_with("abort") {
        buf.count("baseline_aborts", 1);
    }
    for (v, o) in variants {
        let same = o == base;
        // an abort in Dialect::ref is the C14 defect (dangling keyword reference), not a shortcut
        // difference: with a shortcut off the parser may enter an alternative it otherwise skips
        let masked = !same && (o.starts_with("abort-dangling:") || base.starts_with("abort-dangling:"));
        if masked {
            buf.count("differences_masked_by_C14_dangling_abort", 1);
            buf.direct(&format!("{}:{}", it.cls, v), true, "", "", Value::Null);
            continue;
        }
        let key = format!("{}:{}:{:016x}", v, it.dialect, h64(&it.sql));
        let mut inp = input.clone();
        inp["variant"] = json!(v);
        inp["baseline"] = json!(base);
        inp["observed"] = json!(o);
        buf.direct(&format!("{}:{}", it.cls, v), same, &key, &format!("parse result with {} differs from the baseline (shortcuts on, shared dialect)", v), inp);
    }
}

// ------------------------------------------------------------------------------------ correspondence: recorded longest_match calls
fn g_res(r: &(u32, bool, u32)) -> String {
    format!("({},{},{})", r.0, g_bool(r.1), r.2)
}

fn frame_case(f: &LmFrame, it: &Item, buf: &mut Buf) {
    // intern the raw strings of this frame
    let mut ids: HashMap<String, usize> = HashMap::new();
    let mut intern = |s: &str| -> usize {
        let n = ids.len();
        *ids.entry(s.to_string()).or_insert(n)
    };
    let tok = match &f.tok {
        Some((raw, types)) => format!("(Some ({},{}))", intern(raw), g_list(types.iter().map(|t| t.to_string()))),
        None => "None".to_string(),
    };
    let options = g_list(f.options.iter().map(|(k, h)| {
        let hs = match h {
            Some((raws, types)) => format!("(Some ({},{}))", g_list(raws.iter().map(|r| intern(r).to_string())), g_list(types.iter().map(|t| t.to_string()))),
            None => "None".to_string(),
        };
        format!("({},{})", k, hs)
    }));
    let results = g_list(f.evals.iter().map(|(k, _, r)| format!("({},{})", k, g_res(r))));
    let cached = g_list(f.evals.iter().filter(|e| e.1).map(|e| e.0.to_string()));
    let probes = g_list(f.probes.iter().map(|(k, b)| format!("({},{})", k, g_bool(*b))));
    let args = format!(
        "({},{},{},{},{},{},{},{},{},{},{})",
        f.idx,
        f.max_idx,
        f.loc,
        g_bool(f.has_terms),
        g_bool(!f.cache_off),
        g_bool(!f.prune_off),
        tok,
        options,
        results,
        cached,
        probes
    );
    let fresh = g_list(f.evals.iter().filter(|e| !e.1).map(|e| e.0.to_string()));
    let exp = format!("({},{},{})", g_opt(f.chosen.map(|k| k.to_string())), g_res(&f.result), fresh);
    let hits = f.evals.iter().filter(|e| e.1).count();
    let pruned = f.options.len() - f.avail.len();
    let nontrivial = f.options.len() >= 2 && (hits > 0 || pruned > 0 || !f.probes.is_empty());
    let cls = format!(
        "{}{}{}{}",
        if f.cache_off { "cache-off" } else { "cache-on" },
        if f.prune_off { "/prune-off" } else { "/prune-on" },
        if hits > 0 { "/hit" } else { "" },
        if pruned > 0 { "/pruned" } else { "" }
    );
    let sample = json!({"input": {"dialect": it.dialect, "sql": it.sql, "name": it.name},
        "call": {"idx": f.idx, "max_idx": f.max_idx, "loc": f.loc, "options": f.options.len(), "available": f.avail.len(), "evaluated": f.evals.len(), "hits": hits, "probes": f.probes.len(), "chosen": f.chosen, "result": [f.result.0, f.result.1, f.result.2]}});
    buf.case("lm", &cls, nontrivial, args, exp, sample);
}

fn record_item(sh: &Shared, it: &Item, per_parse: usize, buf: &mut Buf) {
    let shared = &sh.dialects[&it.dialect];
    let mut rng = Rng::new(h64(&it.sql));
    // monitor of the cache invariant (H_mfn / H_ctx): every cache hit of one ordinary parse is
    // compared with what matching the same option at the same place returns now
    verif_switches::set(false, false);
    verif_switches::audit_start();
    watch_set(json!({"dialect": it.dialect, "sql": it.sql, "name": it.name, "variant": "audit"}));
    let _ = parse_with(shared, &it.sql);
    watch_clear();
    let (hits, bad, ex) = verif_switches::audit_take();
    buf.count("cache_hits_audited", hits);
    buf.count("cache_hits_differing_from_recomputation", bad);
    buf.hyp("H_mfn_cache_hit_equals_recomputation(Inv)", "diagnostic", bad == 0, json!({"dialect": it.dialect, "sql": trunc(&it.sql, 400), "hits": hits, "differing": bad, "first": ex}));
    for (co, po) in [(false, false), (true, true), (false, true)] {
        verif_switches::set(co, po);
        verif_switches::rec_start(4000);
        watch_set(json!({"dialect": it.dialect, "sql": it.sql, "name": it.name, "variant": "recording"}));
        let _ = parse_with(shared, &it.sql);
        watch_clear();
        let frames = verif_switches::rec_take();
        verif_switches::set(false, false);
        buf.count("lm_calls_recorded", frames.len());
        let interesting: Vec<&LmFrame> = frames.iter().filter(|f| f.options.len() >= 2 && (f.evals.iter().any(|e| e.1) || f.avail.len() < f.options.len() || !f.probes.is_empty())).collect();
        let mut chosen: Vec<&LmFrame> = vec![];
        for _ in 0..per_parse.min(interesting.len()) {
            chosen.push(interesting[rng.below(interesting.len())]);
        }
        for _ in 0..(per_parse / 3).min(frames.len()) {
            chosen.push(&frames[rng.below(frames.len())]);
        }
        for f in chosen {
            frame_case(f, it, buf);
        }
    }
}

// ------------------------------------------------------------------------------------ static: key injectivity on K
/// K: the nodes that can be direct options of `longest_match` (elements of AnyNumberOf/Delimited,
/// delimiters, every terminator, the NonCodeMatcher pushed by Delimited).
pub fn option_set(g: &Graph, reach: &[usize]) -> BTreeSet<usize> {
    let mut k = BTreeSet::new();
    for &n in reach {
        match &g.nodes[n] {
            Node::AnyOf { elems, terms, .. } => {
                k.extend(elems.iter().copied());
                k.extend(terms.iter().copied());
            }
            Node::Delim { delim, elems, terms } => {
                k.insert(*delim);
                k.extend(elems.iter().copied());
                k.extend(terms.iter().copied());
            }
            Node::Ref { terms, .. } | Node::Seq { terms, .. } | Node::Brack { terms, .. } | Node::Anything { terms } => k.extend(terms.iter().copied()),
            _ => {}
        }
        // Bracketed pushes its end bracket as a terminator
        if let Node::Brack { .. } = &g.nodes[n] {
            let (refs, _) = g.node_refs(n);
            if refs.len() >= 2 {
                if let Some(e) = g.deref(refs[1]) {
                    k.insert(e);
                }
            }
        }
    }
    k
}

/// behaviour class of a node: the smallest node id among the nodes that share its cache key and
/// have the same `Debug` rendering (a struct `clone()` keeps the key and every field; `copy()`
/// keeps the key but changes elements/terminators).
pub fn behaviour_classes(g: &Graph, nodes: &BTreeSet<usize>) -> HashMap<usize, usize> {
    let mut by_key: BTreeMap<u32, Vec<usize>> = BTreeMap::new();
    for &n in nodes {
        if let Some(key) = g.keys[n] {
            by_key.entry(key).or_default().push(n);
        }
    }
    let mut cls = HashMap::new();
    for (_, ns) in by_key {
        if ns.len() == 1 {
            cls.insert(ns[0], ns[0]);
            continue;
        }
        let mut seen: Vec<(String, usize)> = vec![];
        for n in ns {
            let d = format!("{:?}", g.handles[n]);
            match seen.iter().find(|(s, _)| *s == d) {
                Some((_, rep)) => {
                    cls.insert(n, *rep);
                }
                None => {
                    seen.push((d, n));
                    cls.insert(n, n);
                }
            }
        }
    }
    cls
}

fn static_keys(out: &mut Out, gen_dir: &str) {
    let mut buf = Buf::default();
    for d in DIALECTS {
        let dialect = dialect_of(d);
        let g = Graph::build(d, &dialect);
        let (order, _) = g.reach();
        let k = option_set(&g, &order);
        let mut by_key: BTreeMap<u32, Vec<usize>> = BTreeMap::new();
        let mut nokey = vec![];
        for &n in &k {
            match g.keys[n] {
                Some(key) => by_key.entry(key).or_default().push(n),
                None => nokey.push(n),
            }
        }
        let cls = behaviour_classes(&g, &k);
        let clashes: Vec<(u32, Vec<String>)> = by_key
            .iter()
            .filter(|(_, v)| v.iter().map(|n| cls[n]).collect::<BTreeSet<_>>().len() > 1)
            .map(|(k, v)| (*k, v.iter().map(|n| format!("{}#{}(class {})", g.describe(*n), n, cls[n])).collect()))
            .collect();
        let cloned_groups = by_key.values().filter(|v| v.len() > 1).count();
        buf.count("K_key_groups_with_identical_clones", cloned_groups - clashes.len());
        // all reachable nodes sharing a key (copy() clones the key) - informational
        let mut all_by_key: BTreeMap<u32, Vec<usize>> = BTreeMap::new();
        for &n in &order {
            if let Some(key) = g.keys[n] {
                all_by_key.entry(key).or_default().push(n);
            }
        }
        let shared_any = all_by_key.values().filter(|v| v.len() > 1).count();
        buf.hyp("H_key_inj_on_option_set_K(static)", "diagnostic", clashes.is_empty(), json!({"dialect": d, "clashes": clashes}));
        buf.count("option_set_K_nodes", k.len());
        buf.count("K_nodes_without_cache_key", nokey.len());
        buf.count("reachable_key_groups_shared_by_several_nodes(copy)", shared_any);
        let mut t = String::new();
        t.push_str("(* generated by `sqv c13`: (behaviour class, cache key) of the nodes that can be options of longest_match;\n   class = representative of the nodes with the same key and the same Debug rendering (struct clones) *)\n");
        t.push_str("From Sq Require Import Base.Bytes Cache.Model Cache.Proofs.\nOpen Scope N_scope.\n");
        t.push_str(&format!(
            "Definition option_keys : list (N * N) := {}.\n",
            g_list(k.iter().filter_map(|&n| g.keys[n].map(|key| format!("({},{})", cls[&n], key))))
        ));
        t.push_str(&format!("Theorem keys_injective_{d} : keys_inj_b option_keys = true.\nProof. vm_compute. reflexivity. Qed.\n"));
        t.push_str(&format!(
            "Theorem {d}_key_determines_option : forall c1 c2 k, In (c1, k) option_keys -> In (c2, k) option_keys -> c1 = c2.\nProof. exact (keys_inj_sound option_keys keys_injective_{d}). Qed.\nPrint Assumptions {d}_key_determines_option.\n"
        ));
        std::fs::write(format!("{}/Keys_{}.v", gen_dir, d), t).unwrap();
        out.stat(json!({"dialect": d, "option_set_K": k.len(), "K_without_key": nokey.len(), "K_key_clashes": clashes.len(), "reachable_shared_key_groups": shared_any}));
    }
    out.absorb(buf);
}

fn deep(g: &Graph, n: usize, depth: usize) -> String {
    let kids = |v: &Vec<usize>| v.iter().map(|&c| deep(g, c, depth.saturating_sub(1))).collect::<Vec<_>>().join(", ");
    if depth == 0 {
        return format!("{}#{}", g.describe(n), n);
    }
    match &g.nodes[n] {
        Node::Seq { elems, terms, .. } => format!("Seq#{}[{}]{{T:{}}}", n, kids(elems), kids(terms)),
        Node::AnyOf { elems, terms, .. } => format!("AnyOf#{}[{}]{{T:{}}}", n, kids(elems), kids(terms)),
        Node::Delim { elems, .. } => format!("Delim#{}[{}]", n, kids(elems)),
        Node::Brack { elems, .. } => format!("Brack#{}[{}]", n, kids(elems)),
        Node::NodeM { g: gr, .. } => format!("{}#{} -> {}", g.describe(n), n, deep(g, *gr, depth - 1)),
        _ => format!("{}#{}", g.describe(n), n),
    }
}

fn explain_clashes(d: &str) {
    let dialect = dialect_of(d);
    let g = Graph::build(d, &dialect);
    let (order, parent) = g.reach();
    let k = option_set(&g, &order);
    let mut by_key: BTreeMap<u32, Vec<usize>> = BTreeMap::new();
    for &n in &k {
        if let Some(key) = g.keys[n] {
            by_key.entry(key).or_default().push(n);
        }
    }
    let cls = behaviour_classes(&g, &k);
    for (key, ns) in by_key.iter().filter(|(_, v)| v.iter().map(|n| cls[n]).collect::<BTreeSet<_>>().len() > 1) {
        println!("== key {}", key);
        for &n in ns {
            let path: Vec<String> = g.path_to(&parent, n).iter().map(|&p| format!("{}#{}", g.describe(p), p)).collect();
            println!("  node {}: {}", n, deep(&g, n, 2));
            println!("     path: {}", path.join(" > "));
            // who holds it as an option
            for &m in &order {
                let holds = match &g.nodes[m] {
                    Node::AnyOf { elems, terms, .. } => elems.contains(&n) || terms.contains(&n),
                    Node::Delim { delim, elems, terms } => *delim == n || elems.contains(&n) || terms.contains(&n),
                    Node::Ref { terms, .. } | Node::Seq { terms, .. } | Node::Brack { terms, .. } | Node::Anything { terms } => terms.contains(&n),
                    _ => false,
                };
                if holds {
                    println!("     option/terminator of {}#{}", g.describe(m), m);
                }
            }
        }
    }
}

pub fn main(args: &Args) {
    silence_panics();
    let mut out = Out::new(&args.out);
    let gen_dir = args.flag("--gen-dir").unwrap_or_else(|| "/tmp/sqv-c13-gen".into());
    std::fs::create_dir_all(&gen_dir).unwrap();
    let mut dialects = HashMap::new();
    for d in DIALECTS {
        dialects.insert(d.to_string(), Arc::new(dialect_of(d)));
    }
    let sh = Shared { dialects };

    if let Some(path) = args.flag("--replay-input") {
        let v: Value = serde_json::from_str(&std::fs::read_to_string(path).unwrap()).unwrap();
        let it = Item { dialect: v["dialect"].as_str().unwrap_or("ansi").to_string(), cls: "replay", name: "replay".into(), sql: v["sql"].as_str().unwrap_or("").to_string() };
        let mut buf = Buf::default();
        run_item(&sh, &it, &mut buf);
        record_item(&sh, &it, 40, &mut buf);
        out.absorb(buf);
        out.finish();
        return;
    }

    if let Some(d) = args.flag("--explain-clashes") {
        explain_clashes(&d);
        return;
    }
    static_keys(&mut out, &gen_dir);
    watchdog(args.out.clone(), if args.thorough() { 600 } else { 240 });

    let items = gen_items(args);
    par_run(&mut out, &items, || (), |_, it, buf| run_item(&sh, it, buf));

    // correspondence: recorded longest_match calls of a sample of the inputs
    let step = if args.thorough() { 6 } else { 12 };
    let rec_items: Vec<Item> = items.iter().step_by(step).cloned().collect();
    par_run(&mut out, &rec_items, || (), |_, it, buf| record_item(&sh, it, 6, buf));

    // concurrent parses of the same inputs on threads sharing one dialect instance
    let sample: Vec<&Item> = items.iter().filter(|i| i.cls == "corpus").step_by(if args.thorough() { 2 } else { 8 }).collect();
    let nthreads = 8;
    let results: Vec<Vec<String>> = std::thread::scope(|sc| {
        let hs: Vec<_> = (0..nthreads)
            .map(|t| {
                let sample = &sample;
                let sh = &sh;
                sc.spawn(move || {
                    verif_switches::set(false, false);
                    // different threads walk the list from different offsets so that the shared
                    // dialect's lazily initialised hints are raced
                    let n = sample.len();
                    let mut res = vec![String::new(); n];
                    for j in 0..n {
                        let i = (j + t * n / nthreads) % n;
                        res[i] = outcome(&parse_with(&sh.dialects[&sample[i].dialect], &sample[i].sql));
                    }
                    res
                })
            })
            .collect();
        hs.into_iter().map(|h| h.join().unwrap()).collect()
    });
    let mut buf = Buf::default();
    for (i, it) in sample.iter().enumerate() {
        let same = results.iter().all(|r| r[i] == results[0][i]);
        let key = format!("threads:{}:{:016x}", it.dialect, h64(&it.sql));
        buf.direct("parallel-shared-dialect", same, &key, "parse results differ between threads sharing one dialect", json!({"dialect": it.dialect, "sql": it.sql, "results": results.iter().map(|r| r[i].clone()).collect::<Vec<_>>()}));
    }
    out.absorb(buf);
    out.finish();
}
