//! C09 — only selected rules report, and rules do not interfere.
//! * `--dump-registry FILE`: translator; prints the registry of the freshly built code as Gallina.
//! * group `select`: the real `get_rulepack` under a generated `rules` / `exclude_rules` config vs the
//!   model's `select` on the dumped registry (plus a direct comparison with the declarative spec
//!   "code, else name, else group", re-implemented here independently of the model).
//! * group `lint`: the violations of a subset run vs the model's lint loop fed with the `rules = all` run;
//!   direct observations: every reported code is selected, skipped rules never report,
//!   subset run = filtered all run (monitor of H_indep).
use std::collections::{BTreeMap, BTreeSet};

use serde_json::{Value, json};
use sqruff_lib::core::config::FluffConfig;
use sqruff_lib::core::linter::core::Linter;
use sqruff_lib::core::rules::base::LintPhase;
use sqruff_lib_core::errors::SQLBaseError;

use crate::common::*;

#[derive(Clone)]
struct RuleInfo {
    code: String,
    name: String,
    groups: Vec<String>,
    skip: Vec<String>,
    fix: bool,
    post: bool,
}

fn registry() -> Vec<RuleInfo> {
    sqruff_lib::rules::rules()
        .iter()
        .map(|r| RuleInfo {
            code: r.code().to_string(),
            name: r.name().to_string(),
            groups: r.groups().iter().map(|g| g.as_ref().to_string()).collect(),
            skip: r.dialect_skip().iter().map(|d| d.as_ref().to_string()).collect(),
            fix: r.is_fix_compatible(),
            post: r.lint_phase() == LintPhase::Post,
        })
        .collect()
}

fn g_rule(r: &RuleInfo) -> String {
    format!(
        "{{| r_code := {}; r_name := {}; r_groups := {}; r_skip := {}; r_fix := {}; r_post := {} |}}",
        g_str(&r.code),
        g_str(&r.name),
        g_list(r.groups.iter().map(|g| g_str(g))),
        g_list(r.skip.iter().map(|g| g_str(g))),
        g_bool(r.fix),
        g_bool(r.post)
    )
}

fn config_src(dialect: &str, rules: Option<&str>, excl: Option<&str>, extra: &str) -> String {
    let mut s = format!("[sqruff]\ndialect = {}\n", dialect);
    if let Some(r) = rules {
        s.push_str(&format!("rules = {}\n", r));
    }
    if let Some(e) = excl {
        s.push_str(&format!("exclude_rules = {}\n", e));
    }
    s.push_str(extra);
    s
}

fn mk_linter(src: &str) -> Linter {
    Linter::new(FluffConfig::from_source(src, None), None, None, true)
}

/// codes selected by the real code, `None` when it panics (unknown reference)
fn real_selection(src: &str) -> Option<Vec<String>> {
    catch(|| mk_linter(src).get_rulepack().rules().iter().map(|r| r.code().to_string()).collect::<Vec<_>>()).ok()
}

// ---------------------------------------------------------------- the declarative specification, in Rust
struct Spec {
    reg: Vec<RuleInfo>,
}
impl Spec {
    fn is_code(&self, x: &str) -> bool {
        self.reg.iter().any(|r| r.code == x)
    }
    fn is_name(&self, x: &str) -> bool {
        self.reg.iter().any(|r| r.name == x)
    }
    fn known(&self, x: &str) -> bool {
        self.is_code(x) || self.is_name(x) || self.reg.iter().any(|r| r.groups.iter().any(|g| g == x))
    }
    fn refers(&self, x: &str, r: &RuleInfo) -> bool {
        if self.is_code(x) {
            r.code == x
        } else if self.is_name(x) {
            r.name == x
        } else {
            r.groups.iter().any(|g| g == x)
        }
    }
    fn items(v: Option<&str>) -> Option<Vec<String>> {
        let s = v?;
        if s.trim().eq_ignore_ascii_case("none") {
            return None;
        }
        Some(s.split(',').map(|x| x.trim().to_string()).filter(|x| !x.is_empty()).collect())
    }
    /// `None` = some reference is unknown (the implementation panics)
    fn select(&self, rules: Option<&str>, excl: Option<&str>) -> Option<Vec<String>> {
        let allow = Self::items(rules);
        let deny = Self::items(excl).unwrap_or_default();
        if let Some(a) = &allow {
            if a.iter().any(|x| !self.known(x)) {
                return None;
            }
        }
        if deny.iter().any(|x| !self.known(x)) {
            return None;
        }
        Some(
            self.reg
                .iter()
                .filter(|r| allow.as_ref().is_none_or(|a| a.iter().any(|x| self.refers(x, r))) && !deny.iter().any(|x| self.refers(x, r)))
                .map(|r| r.code.clone())
                .collect(),
        )
    }
}

// ---------------------------------------------------------------- generators
struct Vocab {
    codes: Vec<String>,
    names: Vec<String>,
    groups: Vec<String>,
}
const UNKNOWN: &[&str] = &["XX99", "L001", "cp01", "Core", "ALL", "layout.nosuch", "capitalisation", "LT", "LT0", "all ", "c ore"];

fn vocab(reg: &[RuleInfo]) -> Vocab {
    let mut groups = BTreeSet::new();
    for r in reg {
        for g in &r.groups {
            groups.insert(g.clone());
        }
    }
    Vocab { codes: reg.iter().map(|r| r.code.clone()).collect(), names: reg.iter().map(|r| r.name.clone()).collect(), groups: groups.into_iter().collect() }
}

fn token(rng: &mut Rng, v: &Vocab, unknown_pct: usize) -> String {
    if rng.chance(unknown_pct, 100) {
        return UNKNOWN[rng.below(UNKNOWN.len())].trim().to_string();
    }
    match rng.below(10) {
        0..=4 => rng.pick(&v.codes).clone(),
        5..=7 => rng.pick(&v.names).clone(),
        _ => rng.pick(&v.groups).clone(),
    }
}

/// join tokens the way a user might write them: optional blanks, stray commas
fn join(rng: &mut Rng, toks: &[String], messy: bool) -> String {
    let mut s = String::new();
    for (i, t) in toks.iter().enumerate() {
        if i > 0 {
            s.push(',');
            if messy && rng.chance(1, 6) {
                s.push_str([" ,", ",", "  , "][rng.below(3)]);
            }
        }
        if messy {
            s.push_str(["", " ", "  ", "\t"][rng.below(4)]);
        }
        s.push_str(t);
        if messy {
            s.push_str(["", " ", "\t"][rng.below(3)]);
        }
    }
    if messy && rng.chance(1, 5) {
        s.push(',');
    }
    s.trim().to_string()
}

#[derive(Clone)]
struct Sel {
    cls: &'static str,
    rules: Option<String>,
    excl: Option<String>,
}

fn gen_selection(rng: &mut Rng, v: &Vocab) -> Sel {
    let k = rng.below(100);
    let messy = rng.chance(1, 3);
    let list = |rng: &mut Rng, lo: usize, hi: usize, unk: usize| -> String {
        let n = rng.range(lo, hi);
        let toks: Vec<String> = (0..n).map(|_| token(rng, v, unk)).collect();
        join(rng, &toks, messy)
    };
    if k < 10 {
        Sel { cls: "single-code", rules: Some(rng.pick(&v.codes).clone()), excl: None }
    } else if k < 18 {
        Sel { cls: "single-name", rules: Some(rng.pick(&v.names).clone()), excl: None }
    } else if k < 26 {
        Sel { cls: "single-group", rules: Some(rng.pick(&v.groups).clone()), excl: None }
    } else if k < 46 {
        Sel { cls: "mixed", rules: Some(list(rng, 1, 8, 0)), excl: None }
    } else if k < 70 {
        Sel { cls: "mixed-with-exclusions", rules: Some(list(rng, 1, 6, 0)), excl: Some(list(rng, 1, 5, 0)) }
    } else if k < 80 {
        let g = rng.pick(&v.groups).clone();
        Sel { cls: "group-minus", rules: Some(g), excl: Some(list(rng, 1, 6, 0)) }
    } else if k < 86 {
        Sel { cls: "default-rules-with-exclusions", rules: None, excl: Some(list(rng, 1, 4, 0)) }
    } else if k < 92 {
        let unk_in_excl = rng.chance(1, 2);
        if unk_in_excl {
            Sel { cls: "unknown-reference", rules: Some(list(rng, 1, 4, 0)), excl: Some(list(rng, 1, 3, 40)) }
        } else {
            Sel { cls: "unknown-reference", rules: Some(list(rng, 1, 4, 40)), excl: if rng.chance(1, 2) { Some(list(rng, 1, 3, 0)) } else { None } }
        }
    } else if k < 96 {
        let none = ["None", "none", "NONE"][rng.below(3)].to_string();
        if rng.chance(1, 2) {
            Sel { cls: "none-keyword", rules: Some(none), excl: if rng.chance(1, 2) { Some(list(rng, 1, 4, 0)) } else { None } }
        } else {
            Sel { cls: "none-keyword", rules: Some(list(rng, 1, 4, 0)), excl: Some(none) }
        }
    } else {
        Sel { cls: "only-commas", rules: Some([",", ", ,", ",,"][rng.below(3)].to_string()), excl: None }
    }
}

// ---------------------------------------------------------------- select cases
fn default_rules_value() -> Option<String> {
    let cfg = FluffConfig::from_source("[sqruff]\ndialect = ansi\n", None);
    cfg.raw["core"]["rules"].as_string().map(|s| s.to_string())
}

fn sel_input(dialect: &str, s: &Sel, extra: &str) -> Value {
    json!({"dialect": dialect, "rules": s.rules, "exclude_rules": s.excl, "extra_config": extra, "config": config_src(dialect, s.rules.as_deref(), s.excl.as_deref(), extra)})
}

fn run_select(spec: &Spec, default_rules: &Option<String>, s: &Sel, out: &mut Buf) {
    let src = config_src("ansi", s.rules.as_deref(), s.excl.as_deref(), "");
    let real = real_selection(&src);
    let eff_rules: Option<String> = match &s.rules {
        Some(r) => Some(r.clone()),
        None => default_rules.clone(),
    };
    let want = spec.select(eff_rules.as_deref(), s.excl.as_deref());
    let input = sel_input("ansi", s, "");
    out.count("selections", 1);
    match &real {
        None => out.count("selections_rejected_unknown_reference", 1),
        Some(v) if v.is_empty() => out.count("selections_empty", 1),
        Some(v) => out.count("selected_rules_total", v.len()),
    }
    let key = format!("c09-select:{}|{}", s.rules.clone().unwrap_or("<default>".into()), s.excl.clone().unwrap_or("<unset>".into()));
    out.direct(
        "select-vs-spec",
        real == want,
        &key,
        &format!("get_rulepack selects {:?} but the selection means {:?}", real, want),
        input.clone(),
    );
    let args = g_tuple(&["rules_dump".to_string(), g_opt(eff_rules.as_ref().map(|r| g_str(r))), g_opt(s.excl.as_ref().map(|r| g_str(r)))]);
    let exp = g_opt(real.as_ref().map(|v| g_list(v.iter().map(|c| g_str(c)))));
    let nontrivial = real.as_ref().is_some_and(|v| !v.is_empty() && v.len() < spec.reg.len());
    out.case("select", s.cls, nontrivial, args, exp, json!({"input": input, "selected": real}));
}

// ---------------------------------------------------------------- lint cases
fn fnv(s: &str) -> usize {
    let mut h: u32 = 0x811c9dc5;
    for b in s.as_bytes() {
        h ^= *b as u32;
        h = h.wrapping_mul(0x01000193);
    }
    h as usize
}
type V = (Option<String>, usize, usize, usize);
/// the unattributed error `Rule::crawl` pushes when a rule body panics (no rule code; C03's subject)
fn is_rule_exception(v: &SQLBaseError) -> bool {
    v.rule.is_none() && v.description.starts_with("Unexpected exception")
}
/// violations without the rule-exception errors, and how many of those there were
fn viols(vs: &[SQLBaseError]) -> (Vec<V>, usize) {
    (vs.iter().filter(|v| !is_rule_exception(v)).map(viol).collect(), vs.iter().filter(|v| is_rule_exception(v)).count())
}
fn viol(v: &SQLBaseError) -> V {
    (v.rule.as_ref().map(|r| r.code.to_string()), v.line_no, v.line_pos, fnv(&v.description))
}
fn viol_g(v: &V) -> String {
    g_tuple(&[g_opt(v.0.as_ref().map(|c| g_str(c))), g_tuple(&[g_n(v.1), g_n(v.2), g_n(v.3)])])
}
fn viol_j(v: &V) -> Value {
    json!([v.0, v.1, v.2])
}

struct LintItem {
    cls: &'static str,
    dialect: String,
    extra: &'static str,
    sql: String,
    sels: Vec<Sel>,
}

const FORCE: &str = "[sqruff:rules:references.from]\nforce_enable = True\n[sqruff:rules:references.consistent]\nforce_enable = True\n";

fn lint_all(dialect: &str, extra: &str, sql: &str) -> Result<((Vec<V>, usize), Vec<String>), String> {
    let src = config_src(dialect, Some("all"), None, extra);
    catch(|| {
        let l = mk_linter(&src);
        let forced: Vec<String> = l.get_rulepack().rules().iter().filter(|r| r.force_enable()).map(|r| r.code().to_string()).collect();
        let f = l.lint_string(sql, None, false);
        (viols(&f.violations), forced)
    })
}

fn run_lint(spec: &Spec, default_rules: &Option<String>, it: &LintItem, out: &mut Buf) {
    out.count("files", 1);
    let ((all_vs, n_exc), forced) = match lint_all(&it.dialect, it.extra, &it.sql) {
        Ok(x) => x,
        Err(msg) => {
            out.count("all_run_panicked", 1);
            let _ = msg;
            return; // crashes are C03's subject
        }
    };
    out.hyp("H_noexc", "diagnostic", n_exc == 0, json!({"dialect": it.dialect, "rules": "all", "sql": it.sql, "rule_exception_errors": n_exc}));
    let by_code: BTreeMap<&str, &RuleInfo> = spec.reg.iter().map(|r| (r.code.as_str(), r)).collect();
    let base_input = json!({"dialect": it.dialect, "extra_config": it.extra, "sql": it.sql});
    // skipped rules never report (also in the all run)
    let skipped: Vec<&RuleInfo> = spec.reg.iter().filter(|r| r.skip.iter().any(|d| d == &it.dialect) && !forced.contains(&r.code)).collect();
    for r in &skipped {
        let bad = all_vs.iter().any(|v| v.0.as_deref() == Some(r.code.as_str()));
        out.direct(
            "skipped-never-reports",
            !bad,
            &format!("c09-skip:{}:{}", r.code, it.dialect),
            &format!("rule {} is skipped for dialect {} but reported", r.code, it.dialect),
            json!({"dialect": it.dialect, "rules": "all", "exclude_rules": null, "extra_config": it.extra, "sql": it.sql}),
        );
    }
    if !forced.is_empty() {
        out.count("files_with_force_enable", 1);
        if all_vs.iter().any(|v| v.0.as_ref().is_some_and(|c| forced.contains(c) && by_code[c.as_str()].skip.iter().any(|d| d == &it.dialect))) {
            out.count("force_enabled_rule_reported_in_skipped_dialect", 1);
        }
    }
    if !all_vs.is_empty() {
        out.count("files_with_violations", 1);
    }
    for s in &it.sels {
        let src = config_src(&it.dialect, s.rules.as_deref(), s.excl.as_deref(), it.extra);
        let eff_rules: Option<String> = match &s.rules {
            Some(r) => Some(r.clone()),
            None => default_rules.clone(),
        };
        let want_sel = spec.select(eff_rules.as_deref(), s.excl.as_deref());
        let sql = it.sql.clone();
        let sub: Option<Vec<V>> = catch(|| {
            let l = mk_linter(&src);
            let _ = l.get_rulepack(); // unknown references panic here, before linting
            viols(&l.lint_string(&sql, None, false).violations).0
        })
        .ok();
        let mut input = base_input.clone();
        input["rules"] = json!(s.rules);
        input["exclude_rules"] = json!(s.excl);
        input["config"] = json!(src);
        out.count("subset_runs", 1);
        let key_base = format!("{}:{:08x}", it.dialect, fnv(&format!("{}|{:?}|{:?}|{}", it.sql, s.rules, s.excl, it.extra)));
        if let (Some(sub), Some(sel)) = (&sub, &want_sel) {
            // (a) every reported rule violation belongs to a selected rule
            let stray: Vec<&V> = sub.iter().filter(|v| v.0.as_ref().is_some_and(|c| !sel.contains(c))).collect();
            out.direct(
                "reported-in-selection",
                stray.is_empty(),
                &format!("c09-stray:{}", key_base),
                &format!("violations of unselected rules reported: {:?}", stray.iter().map(|v| viol_j(v)).collect::<Vec<_>>()),
                input.clone(),
            );
            // (b) skipped rules never report
            let bad: Vec<&V> = sub.iter().filter(|v| v.0.as_ref().is_some_and(|c| skipped.iter().any(|r| &r.code == c))).collect();
            out.direct("skipped-never-reports", bad.is_empty(), &format!("c09-skip-sub:{}", key_base), &format!("skipped rule reported: {:?}", bad.iter().map(|v| viol_j(v)).collect::<Vec<_>>()), input.clone());
            // (c) subset run = filtered all run
            let filtered: Vec<V> = all_vs.iter().filter(|v| v.0.as_ref().is_none_or(|c| sel.contains(c))).cloned().collect();
            let ok = &filtered == sub;
            out.hyp("H_indep", "blocking", ok, json!({"input": input, "subset_run": sub.iter().map(viol_j).collect::<Vec<_>>(), "filtered_all_run": filtered.iter().map(viol_j).collect::<Vec<_>>()}));
            out.direct(
                "subset-equals-filtered-all",
                ok,
                &format!("c09-subset:{}", key_base),
                &format!("subset run {:?} differs from the filtered all-rules run {:?}", sub.iter().map(viol_j).collect::<Vec<_>>(), filtered.iter().map(viol_j).collect::<Vec<_>>()),
                input.clone(),
            );
            if !filtered.is_empty() && filtered.len() < all_vs.len() {
                out.count("subset_runs_proper_nonempty", 1);
            }
        }
        let args = g_tuple(&[
            "rules_dump".to_string(),
            g_str(&it.dialect),
            g_opt(eff_rules.as_ref().map(|r| g_str(r))),
            g_opt(s.excl.as_ref().map(|r| g_str(r))),
            g_list(forced.iter().map(|c| g_str(c))),
            g_list(all_vs.iter().map(viol_g)),
        ]);
        let exp = g_opt(sub.as_ref().map(|v| g_list(v.iter().map(viol_g))));
        let nontrivial = sub.as_ref().is_some_and(|v| !v.is_empty() && v.len() < all_vs.len());
        out.case(
            "lint",
            it.cls,
            nontrivial,
            args,
            exp,
            json!({"input": input, "all_run": all_vs.iter().map(viol_j).collect::<Vec<_>>(), "subset_run": sub.as_ref().map(|v| v.iter().map(viol_j).collect::<Vec<_>>())}),
        );
    }
}

// ---------------------------------------------------------------- main
enum Item {
    Select(Sel),
    Lint(LintItem),
}

pub fn main(args: &Args) {
    silence_panics();
    let reg = registry();
    if let Some(path) = args.flag("--dump-registry") {
        let keys = real_selection(&config_src("ansi", Some("None"), None, "")).unwrap_or_default();
        let v = vocab(&reg);
        let mut toks: Vec<String> = vec![];
        toks.extend(v.codes.iter().cloned());
        toks.extend(v.names.iter().cloned());
        toks.extend(v.groups.iter().cloned());
        let mut s = String::new();
        s.push_str(&format!("Definition rules_dump : list rule := [\n{}\n].\n", reg.iter().map(g_rule).collect::<Vec<_>>().join(";\n")));
        s.push_str(&format!("Definition real_keys : list str := {}.\n", g_list(keys.iter().map(|c| g_str(c)))));
        s.push_str(&format!("Definition generator_tokens : list str := {}.\n", g_list(toks.iter().map(|c| g_str(c)))));
        s.push_str(&format!("Definition default_rules : option str := {}.\n", g_opt(default_rules_value().map(|r| g_str(&r)))));
        std::fs::write(&path, s).unwrap();
        let mut out = Out::new(&args.out);
        out.stat(json!({"registry_rules": reg.len(), "real_keys": keys.len(), "groups": v.groups}));
        out.finish();
        return;
    }
    let spec = Spec { reg: reg.clone() };
    let v = vocab(&reg);
    let default_rules = default_rules_value();
    let mut out = Out::new(&args.out);
    let mut rng = Rng::new(args.seed);
    let mut items: Vec<Item> = vec![];

    if let Some(path) = args.flag("--replay-input") {
        let j: Value = serde_json::from_str(&std::fs::read_to_string(path).unwrap()).unwrap();
        let j = if j.get("input").is_some() { j["input"].clone() } else { j };
        let s = Sel { cls: "replay", rules: j["rules"].as_str().map(|s| s.to_string()), excl: j["exclude_rules"].as_str().map(|s| s.to_string()) };
        match j.get("sql").and_then(|s| s.as_str()) {
            Some(sql) => {
                let extra: &'static str = if j["extra_config"].as_str().unwrap_or("").is_empty() { "" } else { FORCE };
                items.push(Item::Lint(LintItem { cls: "replay", dialect: j["dialect"].as_str().unwrap_or("ansi").to_string(), extra, sql: sql.to_string(), sels: vec![s] }));
            }
            None => items.push(Item::Select(s)),
        }
    } else {
        // ---- selections
        // every single code, name and group; the documented special cases
        for c in &v.codes {
            items.push(Item::Select(Sel { cls: "each-code", rules: Some(c.clone()), excl: None }));
        }
        for c in &v.names {
            items.push(Item::Select(Sel { cls: "each-name", rules: Some(c.clone()), excl: None }));
        }
        for g in &v.groups {
            items.push(Item::Select(Sel { cls: "each-group", rules: Some(g.clone()), excl: None }));
            items.push(Item::Select(Sel { cls: "each-group", rules: Some("all".into()), excl: Some(g.clone()) }));
        }
        items.push(Item::Select(Sel { cls: "default", rules: None, excl: None }));
        items.push(Item::Select(Sel { cls: "none-keyword", rules: Some("None".into()), excl: None }));
        let n_sel = if args.thorough() { 20000 } else { 1500 };
        for _ in 0..n_sel {
            items.push(Item::Select(gen_selection(&mut rng, &v)));
        }
        // the same reference sequence split at every point between `rules` and `exclude_rules`: each split is a different
        // selection, whatever was computed for another one in this process
        let n_split = if args.thorough() { 1500 } else { 120 };
        for _ in 0..n_split {
            let n = rng.range(2, 5);
            let toks: Vec<String> = (0..n).map(|_| token(&mut rng, &v, 0)).collect();
            for k in 0..=n {
                let rules = if k == 0 { None } else { Some(toks[..k].join(",")) };
                let excl = if k == n { None } else { Some(toks[k..].join(",")) };
                items.push(Item::Select(Sel { cls: "same-sequence-split", rules, excl }));
            }
        }
        // ---- lint runs
        let corpus = corpus();
        let snippets = rule_snippets();
        let (n_corpus, n_cross, n_snip, sels_per) = if args.thorough() { (corpus.len(), 600, snippets.len(), 12) } else { (90, 40, 160, 5) };
        let mk_sels = |rng: &mut Rng, n: usize| -> Vec<Sel> {
            let mut sels = vec![];
            while sels.len() < n {
                let s = gen_selection(rng, &v);
                if s.cls == "unknown-reference" && rng.chance(3, 4) {
                    continue;
                }
                sels.push(s);
            }
            sels
        };
        let mut idx: Vec<usize> = (0..corpus.len()).collect();
        rng.shuffle(&mut idx);
        for &i in idx.iter().take(n_corpus) {
            let f = &corpus[i];
            if f.text.len() > 6000 {
                continue;
            }
            let sels = mk_sels(&mut rng, sels_per);
            items.push(Item::Lint(LintItem { cls: "corpus-own-dialect", dialect: f.dialect.clone(), extra: "", sql: f.text.clone(), sels }));
        }
        for _ in 0..n_cross {
            let f = &corpus[rng.below(corpus.len())];
            if f.text.len() > 6000 {
                continue;
            }
            let d = DIALECTS[rng.below(DIALECTS.len())];
            let sels = mk_sels(&mut rng, sels_per);
            items.push(Item::Lint(LintItem { cls: "corpus-cross-dialect", dialect: d.to_string(), extra: "", sql: f.text.clone(), sels }));
        }
        let mut sidx: Vec<usize> = (0..snippets.len()).collect();
        rng.shuffle(&mut sidx);
        for &i in sidx.iter().take(n_snip) {
            let (_, sql) = &snippets[i];
            let d = if rng.chance(1, 2) { "ansi" } else { DIALECTS[rng.below(DIALECTS.len())] };
            let sels = mk_sels(&mut rng, sels_per);
            items.push(Item::Lint(LintItem { cls: "rule-fixture-snippet", dialect: d.to_string(), extra: "", sql: sql.clone(), sels }));
        }
        // rules with a dialect_skip on the fixtures written for them, under every skipped dialect,
        // with and without force_enable
        for r in reg.iter().filter(|r| !r.skip.is_empty()) {
            let fname = format!("{}.yml", r.code);
            let mine: Vec<&(String, String)> = snippets.iter().filter(|(f, _)| f == &fname).collect();
            let take = if args.thorough() { mine.len() } else { 6 };
            for (_, sql) in mine.into_iter().take(take) {
                for d in r.skip.iter().map(|s| s.as_str()).chain(["ansi"]) {
                    for extra in ["", FORCE] {
                        let sels = vec![
                            Sel { cls: "skip-rule-only", rules: Some(r.code.clone()), excl: None },
                            Sel { cls: "skip-rule-group", rules: Some(r.groups.last().cloned().unwrap_or("all".into())), excl: None },
                        ];
                        items.push(Item::Lint(LintItem { cls: "dialect-skip-fixture", dialect: d.to_string(), extra, sql: sql.clone(), sels }));
                    }
                }
            }
        }
    }
    par_run(&mut out, &items, || (), |_, it, buf| match it {
        Item::Select(s) => run_select(&spec, &default_rules, s, buf),
        Item::Lint(l) => run_lint(&spec, &default_rules, l, buf),
    });
    out.stat(json!({"registry_rules": reg.len(), "groups": v.groups, "rules_with_dialect_skip": reg.iter().filter(|r| !r.skip.is_empty()).map(|r| format!("{}:{}", r.code, r.skip.join("/"))).collect::<Vec<_>>()}));
    out.finish();
}
