//! C04 — the fixed file is exactly the fixed tree; templated code is untouched.
//!
//! For every generated input the real `lint_parsed(.., fix = true)` is run with the fix-loop hook
//! installed; the hook's `End` event gives the linter's final tree. Recorded: the `TemplatedFile`
//! (source, templated text, raw slices), the final tree with positions, the real patch list and the
//! real `fix_string()`. Emitted:
//!   * group `tree`    — the Gallina `iter_patches` + `fix_string` on the recorded tree must give the
//!                       recorded patch list and fixed text;
//!   * group `patches` — the Gallina `fix_string_so` on arbitrary patch lists / source-only slices
//!                       must give what the real `LintedFile::fix_string` returns;
//!   * direct          — untemplated: fixed text == raw of the final tree; placeholder templating:
//!                       placeholders of the fixed source == placeholders of the source (same, in
//!                       order) and re-rendering the fixed source gives the raw of the final tree;
//!   * hypothesis monitors for the premises of the theorems.
use std::cell::RefCell;
use std::rc::Rc;

use serde_json::{Value, json};
use sqruff_lib::core::config::FluffConfig;
use sqruff_lib::core::linter::core::{Linter, verif_hook};
use sqruff_lib::core::linter::linted_file::LintedFile;
use sqruff_lib_core::parser::segments::base::{ErasedSegment, Tables};
use sqruff_lib_core::parser::segments::fix::FixPatch;
use sqruff_lib_core::dialects::syntax::SyntaxKind;
use sqruff_lib_core::templaters::base::{RawFileSlice, TemplatedFile, TemplatedFileSlice};

use crate::common::*;

pub const RULESETS: &[&str] = &[
    "all",
    "core",
    "LT01,LT02,LT03,LT04,LT05,LT06,LT07,LT08,LT09,LT10,LT11,LT12,LT13",
    "CP01,CP02,CP03,CP04,CP05",
    "AL01,AL02,AL05,AL07,AL09,ST01,ST02,ST03,ST05,ST06,ST08",
    "LT01,LT02,CP01,AL01",
    "CV01,CV02,CV03,CV04,CV05,CV06,CV07,CV10,CV11,RF03,RF06,ST07,ST09",
    "LT01",
    "LT02,LT12,CP01",
];

#[derive(Clone)]
pub struct Templ {
    pub style: String,
    pub params: Vec<(String, String)>,
}

pub struct Item {
    pub cls: &'static str,
    pub dialect: String,
    pub rules: String,
    pub sql: String,
    pub templ: Option<Templ>,
}

pub fn cfg_text(dialect: &str, rules: &str, templ: Option<&Templ>) -> String {
    let mut s = format!("[sqruff]\ndialect = {}\nrules = {}\n", dialect, rules);
    if let Some(t) = templ {
        s.push_str("templater = placeholder\n\n[sqruff:templater:placeholder]\n");
        s.push_str(&format!("param_style = {}\n", t.style));
        for (k, v) in &t.params {
            s.push_str(&format!("{} = {}\n", k, v));
        }
    }
    s
}
pub fn mk_linter(dialect: &str, rules: &str, templ: Option<&Templ>) -> Linter {
    Linter::new(FluffConfig::from_source(&cfg_text(dialect, rules, templ), None), None, None, true)
}
pub fn item_json(it: &Item) -> Value {
    json!({"kind":"file","cls":it.cls,"dialect":it.dialect,"rules":it.rules,"sql":it.sql,
        "templ": it.templ.as_ref().map(|t| json!({"style":t.style,"params":t.params}))})
}
pub fn item_from_json(v: &Value) -> Item {
    let templ = if v["templ"].is_object() {
        Some(Templ {
            style: v["templ"]["style"].as_str().unwrap().to_string(),
            params: v["templ"]["params"].as_array().unwrap().iter().map(|p| (p[0].as_str().unwrap().to_string(), p[1].as_str().unwrap().to_string())).collect(),
        })
    } else {
        None
    };
    Item { cls: "replay", dialect: v["dialect"].as_str().unwrap().into(), rules: v["rules"].as_str().unwrap().into(), sql: v["sql"].as_str().unwrap().into(), templ }
}

// ---------------------------------------------------------------- generators
fn is_ident(b: u8) -> bool {
    b.is_ascii_alphanumeric() || b == b'_'
}

/// Layout / case perturbation of a corpus file (keeps the token sequence mostly intact).
pub fn perturb(rng: &mut Rng, text: &str) -> String {
    if !text.is_ascii() {
        return text.to_string();
    }
    let b = text.as_bytes();
    let mut out = String::with_capacity(b.len() + 32);
    let mut i = 0;
    let mut in_str = false;
    while i < b.len() {
        let c = b[i];
        if c == b'\'' {
            in_str = !in_str;
        }
        if in_str {
            out.push(c as char);
            i += 1;
            continue;
        }
        if c == b' ' && rng.chance(1, 6) {
            out.push_str(["  ", "   ", " \n", "\n  ", " "][rng.below(5)]);
        } else if c == b',' && rng.chance(1, 3) {
            out.push_str([" ,", ",  ", ", ", ","][rng.below(4)]);
            if i + 1 < b.len() && b[i + 1] == b' ' && rng.chance(1, 2) {
                i += 1;
            }
        } else if c == b'\n' && rng.chance(1, 8) {
            out.push_str(["  \n", "\n\n\n", "\n    ", " "][rng.below(4)]);
        } else if c.is_ascii_alphabetic() && (i == 0 || !is_ident(b[i - 1])) {
            let mut j = i;
            while j < b.len() && is_ident(b[j]) {
                j += 1;
            }
            let w = &text[i..j];
            match rng.below(8) {
                0 => out.push_str(&w.to_ascii_lowercase()),
                1 => out.push_str(&w.to_ascii_uppercase()),
                2 => {
                    let mut cs = w.to_ascii_lowercase();
                    if let Some(f) = cs.get_mut(0..1) {
                        f.make_ascii_uppercase();
                    }
                    out.push_str(&cs)
                }
                _ => out.push_str(w),
            }
            i = j;
            continue;
        } else if (c == b'=' || c == b'+') && rng.chance(1, 3) {
            out.push(c as char);
            if i + 1 < b.len() && b[i + 1] == b' ' {
                i += 1;
            }
        } else {
            out.push(c as char);
        }
        i += 1;
    }
    match rng.below(6) {
        0 => {
            while out.ends_with('\n') {
                out.pop();
            }
        }
        1 => out.push_str("\n\n"),
        2 => out.push_str("  "),
        _ => {}
    }
    out
}

const STYLES: &[&str] = &["colon", "colon_nospaces", "numeric_colon", "pyformat", "dollar", "question_mark", "numeric_dollar", "percent", "ampersand", "flyway_var"];

/// Replace some literals (integers, simple quoted strings) of `text` by placeholders of `style`,
/// each placeholder standing as its own token; the parameter value is the literal's text, so the
/// replacement is shorter, equal or longer than the placeholder depending on the drawn name.
pub fn templatise(rng: &mut Rng, text: &str, style: &str) -> Option<(String, Templ)> {
    if !text.is_ascii() {
        return None;
    }
    let b = text.as_bytes();
    let mut out = String::new();
    let mut params: Vec<(String, String)> = vec![];
    let mut i = 0;
    let mut n = 0usize;
    let positional = matches!(style, "question_mark" | "percent");
    // positional styles number every match, also those already in the file
    let mut in_comment = false;
    while i < b.len() {
        let c = b[i];
        if c == b'-' && i + 1 < b.len() && b[i + 1] == b'-' {
            in_comment = true;
        }
        if c == b'\n' {
            in_comment = false;
        }
        if in_comment {
            out.push(c as char);
            i += 1;
            continue;
        }
        let prev_ok = i == 0 || matches!(b[i - 1], b' ' | b'\n' | b'(' | b',' | b'=' | b'<' | b'>');
        let mut lit: Option<usize> = None;
        if prev_ok && c.is_ascii_digit() {
            let mut j = i;
            while j < b.len() && b[j].is_ascii_digit() {
                j += 1;
            }
            if (j == b.len() || matches!(b[j], b' ' | b'\n' | b')' | b',' | b';')) && j - i <= 9 && (b[i] != b'0' || j - i == 1) {
                lit = Some(j);
            }
        } else if prev_ok && c == b'\'' {
            let mut j = i + 1;
            while j < b.len() && (is_ident(b[j])) {
                j += 1;
            }
            if j < b.len() && b[j] == b'\'' && j > i + 1 && (j + 1 == b.len() || matches!(b[j + 1], b' ' | b'\n' | b')' | b',' | b';')) {
                lit = Some(j + 1);
            }
        } else if c == b'\'' {
            // skip other quoted strings untouched
            let mut j = i + 1;
            while j < b.len() && b[j] != b'\'' && b[j] != b'\n' {
                j += 1;
            }
            let j = (j + 1).min(b.len());
            out.push_str(&text[i..j]);
            i = j;
            continue;
        }
        if let Some(j) = lit {
            if rng.chance(2, 3) {
                n += 1;
                let value = text[i..j].to_string();
                let name = if positional || style.starts_with("numeric") {
                    format!("{}", n)
                } else {
                    match rng.below(3) {
                        0 => format!("p{}", n),
                        1 => format!("param_{}", n),
                        _ => format!("a_rather_long_parameter_name_{}", n),
                    }
                };
                let ph = match style {
                    "colon" | "colon_nospaces" | "numeric_colon" => format!(":{}", name),
                    "pyformat" => format!("%({})s", name),
                    "dollar" | "numeric_dollar" => {
                        if rng.chance(1, 2) { format!("${}", name) } else { format!("${{{}}}", name) }
                    }
                    "question_mark" => "?".to_string(),
                    "percent" => "%s".to_string(),
                    "ampersand" => {
                        if rng.chance(1, 2) { format!("&{}", name) } else { format!("&{{{}}}", name) }
                    }
                    "flyway_var" => format!("${{v:{}}}", name),
                    _ => return None,
                };
                let key = if style == "flyway_var" { format!("v:{}", name) } else { name };
                if !positional {
                    params.push((key, value));
                } else {
                    params.push((key, value));
                }
                out.push_str(&ph);
                i = j;
                continue;
            }
            out.push_str(&text[i..j]);
            i = j;
            continue;
        }
        out.push(c as char);
        i += 1;
    }
    if n == 0 {
        return None;
    }
    if positional {
        // pre-existing '?' / '%s' shift the numbering: give up naming, values default to the index
        let marker = if style == "question_mark" { "?" } else { "%s" };
        if text.contains(marker) {
            params.clear();
        }
    }
    Some((out, Templ { style: style.to_string(), params }))
}

// ---------------------------------------------------------------- recording
/// Text as a Gallina term: `(S "...")` (Coq string literal, decoded to bytes in Corr/C04.v) when the
/// text has no control characters other than tab/newline, else the explicit byte list.
fn g_text(s: &str) -> String {
    if s.bytes().all(|b| b >= 32 && b != 127 || b == 9 || b == 10) {
        format!("(S \"{}\")", s.replace('"', "\"\""))
    } else {
        g_str(s)
    }
}
fn tree_g(seg: &ErasedSegment, ok: &mut bool, nodes: &mut usize) -> String {
    *nodes += 1;
    let Some(pm) = seg.get_position_marker() else {
        *ok = false;
        return "(L false [] 0 0 0 0)".into();
    };
    let strip = matches!(seg.get_type(), SyntaxKind::EndOfFile | SyntaxKind::Indent | SyntaxKind::Dedent | SyntaxKind::Implicit);
    let p = format!("{} {} {} {}", pm.source_slice.start, pm.source_slice.end, pm.templated_slice.start, pm.templated_slice.end);
    if !seg.get_source_fixes().is_empty() {
        *ok = false;
    }
    if seg.segments().is_empty() {
        format!("(L {} {} {})", g_bool(strip), g_text(seg.raw()), p)
    } else {
        let cs = g_list(seg.segments().iter().map(|c| tree_g(c, ok, nodes)));
        format!("(Nd {} {} {})", g_bool(strip), p, cs)
    }
}

fn patches_g(ps: &[(usize, usize, String)]) -> String {
    g_list(ps.iter().map(|(s, e, r)| g_tuple(&[g_n(*s), g_n(*e), g_text(r)])))
}

/// (wf_ranges, sorted_disjoint) of a real patch list — the Coq predicates of Patch/Proofs.v.
fn patch_preds(ps: &[(usize, usize, String)]) -> (bool, bool) {
    let wf = ps.iter().all(|(s, e, _)| s <= e);
    let mut sd = wf;
    let mut idx = 0usize;
    for (i, (s, e, _)) in ps.iter().enumerate() {
        if *s < idx {
            sd = false;
        }
        if ps[i + 1..].iter().any(|(s2, e2, r2)| s2 == s && e2 == e && *r2 == ps[i].2) {
            sd = false;
        }
        idx = *e;
    }
    (wf, sd)
}

/// usize subtractions of iter_patches that wrap when negative (modelled as `<>`); follows only the
/// branches iter_patches takes (unchanged and literal nodes are not descended into).
fn underflow_free(seg: &ErasedSegment, tpl: &str) -> bool {
    let Some(pos) = seg.get_position_marker() else { return true };
    if tpl.get(pos.templated_slice.clone()).map(|t| t == seg.raw().as_str()).unwrap_or(false) {
        return true;
    }
    if pos.is_literal() || seg.segments().is_empty() {
        return true;
    }
    let mut tidx = pos.templated_slice.start;
    let mut segs = seg.segments();
    while !segs.is_empty() && matches!(segs.last().unwrap().get_type(), SyntaxKind::EndOfFile | SyntaxKind::Indent | SyntaxKind::Dedent | SyntaxKind::Implicit) {
        segs = &segs[..segs.len() - 1];
    }
    for c in segs {
        let Some(pm) = c.get_position_marker() else { return true };
        if !c.raw().is_empty() && pm.source_slice.is_empty() && pm.templated_slice.is_empty() {
            continue;
        }
        if pm.templated_slice.start < tidx {
            return false;
        }
        if !underflow_free(c, tpl) {
            return false;
        }
        tidx = pm.templated_slice.end;
    }
    pos.templated_slice.end >= tidx
}

fn placeholders(tf: &TemplatedFile) -> Vec<String> {
    tf.verif_raw_sliced_idx().into_iter().filter(|(_, t, _)| t == "templated").map(|(i, _, l)| tf.source_str[i..i + l].to_string()).collect()
}

/// Generator restriction for templated inputs: every placeholder is its own token (separators on
/// both sides in the source, non-empty value). Anything else is C15 territory.
pub fn own_token(tf: &TemplatedFile) -> bool {
    let sb = tf.source_str.as_bytes();
    let sep = |b: u8| matches!(b, b' ' | b'\n' | b'\t' | b'(' | b')' | b',' | b';' | b'=' | b'<' | b'>');
    tf.sliced_file.iter().filter(|t| t.slice_type == "templated").all(|t| {
        let (a, b) = (t.source_slice.start, t.source_slice.end);
        (a == 0 || sep(sb[a - 1])) && (b >= sb.len() || sep(sb[b])) && !t.templated_slice.is_empty()
    })
}

pub struct FixRun {
    pub tf: TemplatedFile,
    pub start: Option<ErasedSegment>,
    pub end: Option<ErasedSegment>,
    pub patches: Vec<(usize, usize, String)>,
    pub fixed: String,
}

pub enum RunErr {
    Parse(String),
    Loop(String),
    Patches(String),
    NoTree,
    NotOwnToken,
}

/// Run the real pipeline once: parse, lint_parsed(fix = true) with the hook, fix_string.
pub fn fix_run(linter: &Linter, sql: &str) -> Result<FixRun, RunErr> {
    let tables = Tables::default();
    let parsed = match catch(|| linter.parse_string(&tables, sql, None)) {
        Ok(Ok(p)) => p,
        Ok(Err(e)) => return Err(RunErr::Parse(format!("{:?}", e.value))),
        Err(m) => return Err(RunErr::Parse(m)),
    };
    if parsed.tree.is_none() {
        return Err(RunErr::NoTree);
    }
    let tf = parsed.templated_file.clone();
    if !own_token(&tf) {
        return Err(RunErr::NotOwnToken);
    }
    let trees: Rc<RefCell<(Option<ErasedSegment>, Option<ErasedSegment>)>> = Rc::new(RefCell::new((None, None)));
    let t2 = trees.clone();
    verif_hook::FIX_HOOK.with(|h| {
        *h.borrow_mut() = Some(Box::new(move |ev| match ev {
            verif_hook::FixEvent::Start { tree, .. } => t2.borrow_mut().0 = Some(tree.clone()),
            verif_hook::FixEvent::End { tree } => t2.borrow_mut().1 = Some(tree.clone()),
            _ => {}
        }))
    });
    let r = catch(|| linter.lint_parsed(&tables, parsed, true));
    verif_hook::FIX_HOOK.with(|h| *h.borrow_mut() = None);
    let (start, end) = {
        let mut b = trees.borrow_mut();
        (b.0.take(), b.1.take())
    };
    let linted = match r {
        Ok(l) => l,
        Err(m) => {
            return if end.is_some() { Err(RunErr::Patches(m)) } else { Err(RunErr::Loop(m)) };
        }
    };
    let patches: Vec<(usize, usize, String)> = linted.patches.iter().map(|p| (p.source_slice.start, p.source_slice.end, p.fixed_raw.to_string())).collect();
    let fixed = match catch(|| linted.fix_string()) {
        Ok(s) => s,
        Err(m) => return Err(RunErr::Patches(format!("fix_string: {}", m))),
    };
    Ok(FixRun { tf, start, end, patches, fixed })
}

const TREE_CASE_MAX: usize = 2500;

type Linters = std::collections::HashMap<String, Linter>;

fn run_file(ls: &mut Linters, it: &Item, out: &mut Buf) {
    let input = item_json(it);
    let key = cfg_text(&it.dialect, &it.rules, it.templ.as_ref());
    if it.templ.is_some() {
        // parameter sets differ per file: do not cache
        ls.remove(&key);
    }
    let lint = match catch(|| mk_linter(&it.dialect, &it.rules, it.templ.as_ref())) {
        Ok(l) => l,
        Err(_) => {
            out.count("config_rejected", 1);
            return;
        }
    };
    let linter: &Linter = if it.templ.is_some() { &lint } else { ls.entry(key).or_insert(lint) };
    out.count("fix_runs", 1);
    let templated = it.templ.is_some();
    let run = match fix_run(linter, &it.sql) {
        Ok(r) => r,
        Err(RunErr::Parse(_)) => {
            out.count(if templated { "skipped_lex_parse_panic_templated" } else { "skipped_lex_parse_panic" }, 1);
            return;
        }
        Err(RunErr::NoTree) => {
            out.count("skipped_no_tree", 1);
            return;
        }
        Err(RunErr::NotOwnToken) => {
            out.count("skipped_placeholder_not_own_token (C15 territory)", 1);
            return;
        }
        Err(RunErr::Loop(m)) => {
            out.count(if templated { "skipped_rule_panic_templated" } else { "skipped_rule_panic" }, 1);
            out.count(&format!("loop_panic: {}", trunc(m.lines().next().unwrap_or(""), 70)), 1);
            return;
        }
        Err(RunErr::Patches(m)) => {
            out.direct(it.cls, false, &format!("c04-patch-panic-{}", it.cls), &format!("iter_patches/fix_string panicked after the fix loop finished: {}", m), input);
            return;
        }
    };
    let Some(end) = run.end.as_ref() else {
        out.count("no_end_event", 1);
        return;
    };
    let tf = &run.tf;
    let src = tf.source_str.clone();
    let tpl = tf.templated_str.clone().unwrap_or_default();
    let tree_raw = end.raw().to_string();
    let changed = run.start.as_ref().map(|s| s.raw() != end.raw()).unwrap_or(false);
    if changed {
        out.count("runs_with_changed_tree", 1);
    }
    if !run.patches.is_empty() {
        out.count("runs_with_patches", 1);
    }
    if run.patches.len() > 1 {
        out.count("runs_with_several_patches", 1);
    }

    // ---- precondition owned by C01/C02: the tree the loop starts from reads as the templated text
    let lossless = run.start.as_ref().map(|s| s.raw().as_str() == tpl).unwrap_or(false);
    if !lossless {
        out.count(if templated { "skipped_lossy_lex_templated (C01/C15: start tree raw != templated text)" } else { "skipped_lossy_lex (C01: start tree raw != source)" }, 1);
        return;
    }

    // ---- hypothesis monitors
    let (wf, sd) = patch_preds(&run.patches);
    let mut ok_tree = true;
    let mut nodes = 0usize;
    let tree_term = tree_g(end, &mut ok_tree, &mut nodes);
    out.hyp("final tree: every segment has a position marker and no source fixes", "blocking", ok_tree, json!({"input":input}));
    out.hyp("iter_patches: no usize underflow in start_diff/end_diff on the branches taken (would panic with overflow checks)", "diagnostic", underflow_free(end, &tpl), json!({"input":input}));
    if !templated {
        out.hyp("wf_ranges(real patches), untemplated", "blocking", wf, json!({"input":input,"patches":run.patches}));
        let pm = end.get_position_marker();
        let spans = pm.map(|p| p.source_slice == (0..src.len()) && p.templated_slice == (0..tpl.len())).unwrap_or(false) && tpl == src;
        out.hyp("untemplated: root of the final tree spans the file and templated text = source (premise of C04_untemplated)", "blocking", spans, json!({"input":input}));
    } else {
        out.hyp("templated: real patches have well-formed ranges (premise of C04_fix_string_spec)", "diagnostic", wf, json!({"input":input,"patches":run.patches}));
        out.hyp("templated: patches of the final tree are sorted and disjoint (premise of C04_templated_keeps_partial)", "diagnostic", sd, json!({"input":input,"patches":run.patches}));
    }

    // ---- direct observation of the property
    if !templated {
        let ok = run.fixed == tree_raw;
        let key = format!("c04-untemplated-{:016x}", fnv(&format!("{}|{}|{}", it.dialect, it.rules, it.sql)));
        out.direct(it.cls, ok, &key, &format!("fixed text differs from the final tree's raw: fixed={:?} tree={:?}", trunc(&run.fixed, 300), trunc(&tree_raw, 300)), input.clone());
    } else {
        let ph_src = placeholders(tf);
        if ph_src.is_empty() {
            out.count("templated_without_placeholder", 1);
        } else {
            out.count("templated_runs_with_placeholders", 1);
            if changed {
                out.count("templated_runs_changed", 1);
            }
        }
        let rendered = catch(|| linter.render_string(&run.fixed, "<string>".into(), linter.config()));
        match rendered {
            Ok(Ok(r)) => {
                let ph_fixed = placeholders(&r.templated_file);
                let key = format!("c04-templated-{:016x}", fnv(&format!("{}|{}|{}|{}", it.dialect, it.rules, it.sql, cfg_text("", "", it.templ.as_ref()))));
                let ok1 = ph_fixed == ph_src;
                out.direct("templated-placeholders", ok1, &key, &format!("placeholders changed: source {:?} fixed {:?}; fixed text {:?}", ph_src, ph_fixed, trunc(&run.fixed, 300)), input.clone());
                let re = r.templated_file.templated_str.clone().unwrap_or_default();
                let ok2 = re == tree_raw;
                out.direct("templated-rerender", ok2, &key, &format!("re-rendered fixed source differs from the final tree's raw: rerender={:?} tree={:?} fixed={:?}", trunc(&re, 300), trunc(&tree_raw, 300), trunc(&run.fixed, 300)), input.clone());
            }
            _ => {
                out.count("rerender_failed", 1);
            }
        }
    }

    // ---- correspondence case
    if !ok_tree {
        return;
    }
    if run.patches.is_empty() && fnv(&it.sql) % 4 != 0 {
        out.count("tree_case_sampled_out (no patch: 1 in 4 kept)", 1);
        return;
    }
    if src.len() > TREE_CASE_MAX {
        out.count("tree_case_skipped_large", 1);
        return;
    }
    let raws: Vec<(usize, bool)> = tf.verif_raw_sliced_idx().into_iter().map(|(i, t, _)| (i, t == "literal")).collect();
    let args = g_tuple(&[
        g_text(&src),
        if tpl == src { "None".to_string() } else { g_opt(Some(g_text(&tpl))) },
        g_list(raws.iter().map(|(i, l)| g_tuple(&[g_n(*i), g_bool(*l)]))),
        tree_term,
    ]);
    let exp = g_tuple(&[patches_g(&run.patches), g_text(&run.fixed)]);
    let sample = json!({"input":input,"n_nodes":nodes,"patches":run.patches.iter().map(|(s,e,r)| json!([s,e,trunc(r,80)])).collect::<Vec<_>>(),"fixed":trunc(&run.fixed,200)});
    out.case("tree", it.cls, !run.patches.is_empty(), args, exp, sample);
}

pub fn fnv(s: &str) -> u64 {
    let mut h = 0xcbf29ce484222325u64;
    for b in s.as_bytes() {
        h ^= *b as u64;
        h = h.wrapping_mul(0x100000001b3);
    }
    h
}

// ---------------------------------------------------------------- group `patches`
struct PItem {
    src: String,
    /// source-only comment slices (start, end), sorted, disjoint
    so: Vec<(usize, usize)>,
    patches: Vec<(usize, usize, String)>,
}

fn gen_pitem(rng: &mut Rng) -> PItem {
    let n = rng.range(0, 30);
    let src: String = (0..n).map(|_| *rng.pick(&[b'a', b'b', b'c', b' ', b'\n', b'x', b'1', b',']) as char).collect();
    let mut so = vec![];
    if rng.chance(1, 2) && n >= 4 {
        let k = rng.range(1, 3);
        let mut cuts: Vec<usize> = (0..2 * k).map(|_| rng.below(n + 1)).collect();
        cuts.sort();
        for w in cuts.chunks(2) {
            if w[0] < w[1] && so.last().map(|l: &(usize, usize)| l.1 <= w[0]).unwrap_or(true) {
                so.push((w[0], w[1]));
            }
        }
    }
    let k = rng.range(0, 6);
    let mut patches: Vec<(usize, usize, String)> = vec![];
    let sorted_mode = rng.chance(1, 3);
    let mut cursor = 0usize;
    for _ in 0..k {
        let (s, e) = if sorted_mode {
            let s = (cursor + rng.below(4)).min(n);
            let e = (s + rng.below(4)).min(n);
            cursor = e;
            (s, e)
        } else if !patches.is_empty() && rng.chance(1, 5) {
            let p = rng.pick(&patches).clone();
            (p.0, p.1)
        } else if !so.is_empty() && rng.chance(1, 4) {
            *rng.pick(&so)
        } else {
            let s = rng.below(n + 1);
            let e = (s + rng.below(5)).min(n);
            (s, e)
        };
        let raw: String = (0..rng.below(4)).map(|_| *rng.pick(&[b'X', b'Y', b'Z', b' ']) as char).collect();
        patches.push((s, e, raw));
    }
    PItem { src, so, patches }
}

fn pitem_json(p: &PItem) -> Value {
    json!({"kind":"patches","src":p.src,"so":p.so,"patches":p.patches})
}
fn pitem_from_json(v: &Value) -> PItem {
    PItem {
        src: v["src"].as_str().unwrap().to_string(),
        so: v["so"].as_array().unwrap().iter().map(|x| (x[0].as_u64().unwrap() as usize, x[1].as_u64().unwrap() as usize)).collect(),
        patches: v["patches"].as_array().unwrap().iter().map(|x| (x[0].as_u64().unwrap() as usize, x[1].as_u64().unwrap() as usize, x[2].as_str().unwrap().to_string())).collect(),
    }
}

fn run_patches(_: &mut (), p: &PItem, out: &mut Buf) {
    let input = pitem_json(p);
    // TemplatedFile with "comment" raw slices for the source-only ranges
    let tf = if p.so.is_empty() {
        TemplatedFile::from(p.src.clone())
    } else {
        let mut sliced = vec![];
        let mut raws = vec![];
        let mut tpl = String::new();
        let mut pos = 0usize;
        let mut lit = |a: usize, b: usize, tpl: &mut String, sliced: &mut Vec<TemplatedFileSlice>, raws: &mut Vec<RawFileSlice>| {
            if a < b {
                sliced.push(TemplatedFileSlice::new("literal", a..b, tpl.len()..tpl.len() + (b - a)));
                raws.push(RawFileSlice::new(p.src[a..b].to_string(), "literal".into(), a, None, None));
                tpl.push_str(&p.src[a..b]);
            }
        };
        for (a, b) in &p.so {
            lit(pos, *a, &mut tpl, &mut sliced, &mut raws);
            sliced.push(TemplatedFileSlice::new("comment", *a..*b, tpl.len()..tpl.len()));
            raws.push(RawFileSlice::new(p.src[*a..*b].to_string(), "comment".into(), *a, None, None));
            pos = *b;
        }
        lit(pos, p.src.len(), &mut tpl, &mut sliced, &mut raws);
        match catch(|| TemplatedFile::new(p.src.clone(), "<p>".into(), Some(tpl), Some(sliced), Some(raws))) {
            Ok(Ok(tf)) => tf,
            _ => {
                out.count("patches_tf_rejected", 1);
                return;
            }
        }
    };
    let patches: Vec<FixPatch> = p.patches.iter().map(|(s, e, r)| FixPatch::new(0..0, r.as_str().into(), *s..*e, String::new(), String::new())).collect();
    let lf = LintedFile { path: String::new(), patches, templated_file: tf, violations: vec![], ignore_mask: None };
    let real = match catch(|| lf.fix_string()) {
        Ok(s) => s,
        Err(_) => {
            out.count("patches_real_panicked", 1);
            return;
        }
    };
    let (wf, sd) = patch_preds(&p.patches);
    out.count(if sd { "patches_sorted_disjoint" } else if wf { "patches_wf_unsorted_or_overlapping" } else { "patches_ill_formed" }, 1);
    if !p.so.is_empty() {
        out.count("patches_with_source_only_slices", 1);
    }
    let args = g_tuple(&[g_text(&p.src), g_list(p.so.iter().map(|(a, b)| g_tuple(&[g_n(*a), g_n(*b)]))), patches_g(&p.patches)]);
    out.case("patches", if p.so.is_empty() { "random-patches" } else { "random-patches-source-only" }, !p.patches.is_empty(), args, g_text(&real), json!({"input":input,"real":real}));
}

// ---------------------------------------------------------------- main
pub fn main(args: &Args) {
    silence_panics();
    let mut out = Out::new(&args.out);
    let mut rng = Rng::new(args.seed);
    let mut items: Vec<Item> = vec![];
    let mut pitems: Vec<PItem> = vec![];

    if let Some(path) = args.flag("--replay-input") {
        let v: Value = serde_json::from_str(&std::fs::read_to_string(path).unwrap()).unwrap();
        let v = if v.get("input").is_some() { v["input"].clone() } else { v };
        if v["kind"] == "patches" {
            pitems.push(pitem_from_json(&v));
        } else {
            items.push(item_from_json(&v));
        }
    } else {
        // regression corpus first
        for (d, r, s, t) in [
            ("ansi", "all", "SELECT a  from  tbl\n", None),
            ("ansi", "LT01,CP01", "select  a,b FROM t where x=1", None),
            ("ansi", "all", "SELECT a , b  from  t WHERE c = :p1\n", Some(("colon", vec![("p1", "1")]))),
            ("ansi", "LT01,CP01", "select  a from t where x = :a_rather_long_parameter_name_1  and y =  :p2\n", Some(("colon", vec![("a_rather_long_parameter_name_1", "1"), ("p2", "'abcdefgh'")]))),
            ("ansi", "all", "SELECT a  from  t WHERE c = ?  and d = ?\n", Some(("question_mark", vec![("1", "10"), ("2", "'x'")]))),
            // fixed e89ae00: AL02 inserts "AS " at the start of the alias node, LT02 an indent before it:
            // two insertions at one source position, the second was lost
            ("ansi", "all", "SELECT :a\n\n\n:b;\n", Some(("colon", vec![("a", "1"), ("b", "bar")]))),
        ] {
            items.push(Item {
                cls: "regression",
                dialect: d.into(),
                rules: r.into(),
                sql: s.into(),
                templ: t.map(|(st, ps): (&str, Vec<(&str, &str)>)| Templ { style: st.into(), params: ps.into_iter().map(|(k, v)| (k.to_string(), v.to_string())).collect() }),
            });
        }
        let corpus = corpus();
        let snippets = rule_snippets();
        let thorough = args.thorough();
        // corpus x rule selections
        for (i, f) in corpus.iter().enumerate() {
            if f.text.len() > 20000 {
                continue;
            }
            let nsel = if thorough { RULESETS.len() } else { 1 };
            for k in 0..nsel {
                let rules = RULESETS[(i + k) % RULESETS.len()];
                items.push(Item { cls: "corpus", dialect: f.dialect.clone(), rules: rules.into(), sql: f.text.clone(), templ: None });
            }
        }
        // perturbed corpus
        let n_pert = if thorough { 6000 } else { 500 };
        for _ in 0..n_pert {
            let f = &corpus[rng.below(corpus.len())];
            if f.text.len() > 6000 {
                continue;
            }
            let rules = RULESETS[rng.below(RULESETS.len())];
            let sql = perturb(&mut rng, &f.text);
            items.push(Item { cls: "perturbed-corpus", dialect: f.dialect.clone(), rules: rules.into(), sql, templ: None });
        }
        // rule fixture snippets (pass/fail/fix strings), ansi, all rules and one random selection
        for (i, (_, s)) in snippets.iter().enumerate() {
            if s.len() > 4000 || (!thorough && i % 2 == 1) {
                continue;
            }
            items.push(Item { cls: "rule-snippet", dialect: "ansi".into(), rules: "all".into(), sql: s.clone(), templ: None });
            if thorough {
                items.push(Item { cls: "rule-snippet", dialect: "ansi".into(), rules: RULESETS[rng.below(RULESETS.len())].into(), sql: s.clone(), templ: None });
            }
        }
        // placeholder templating
        let n_templ = if thorough { 8000 } else { 800 };
        let mut made = 0;
        let mut tries = 0;
        while made < n_templ && tries < n_templ * 20 {
            tries += 1;
            let f = &corpus[rng.below(corpus.len())];
            if f.text.len() > 5000 {
                continue;
            }
            let style = STYLES[rng.below(STYLES.len())];
            let base = if rng.chance(1, 2) { perturb(&mut rng, &f.text) } else { f.text.clone() };
            if let Some((sql, templ)) = templatise(&mut rng, &base, style) {
                let rules = RULESETS[rng.below(RULESETS.len())];
                items.push(Item { cls: "templated-corpus", dialect: f.dialect.clone(), rules: rules.into(), sql, templ: Some(templ) });
                made += 1;
            }
        }
        let n_p = if thorough { 20000 } else { 2000 };
        for _ in 0..n_p {
            pitems.push(gen_pitem(&mut rng));
        }
    }
    par_run(&mut out, &items, Linters::new, run_file);
    par_run(&mut out, &pitems, || (), run_patches);
    out.finish();
}
