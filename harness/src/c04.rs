//! C04 — the fixed file is exactly the fixed tree; templated code is untouched.
//!
//! For every generated input the real `lint_parsed(.., fix = true)` is run with the fix-loop hook
//! installed; the hook's `End` event gives the linter's final tree. Recorded: the `TemplatedFile`
//! (source, templated text, raw slices), the final tree with positions, the real patch list and the
//! real `fix_string()`. Emitted:
//!   * group `tree`    — the Gallina `iter_patches` + `fix_string` on the recorded tree must give the
//!                       recorded patch list and fixed text;
//!   * group `patches` — the Gallina `fix_string_so` on arbitrary patch lists / source-only slices
//!                       must give what the real `LintedFile::fix_string` returns;
//!   * direct          — untemplated: fixed text == raw of the final tree; placeholder templating:
//!                       placeholders of the fixed source == placeholders of the source (same, in
//!                       order) and re-rendering the fixed source gives the raw of the final tree;
//!   * group `span`    — the real `raw_slices_spanning_source_slice` (conflict side) vs the Gallina `spanning`;
//!   * monitors        — premises of the theorems; the conflict filter asked about synthetic fixes at
//!                       every segment x edit type (`synth_conflicts`, blocking) and about the fixes the
//!                       loop really applied (`touches_templated`, diagnostic).
//! Templated generators: `templatise` (corpus literals -> placeholders; `wide`: glued / partial
//! identifiers, multi-token and padded values, file ending in a placeholder) and `gen_shape`
//! (synthetic statements around placeholders in chosen syntactic roles).
use std::cell::RefCell;
use std::rc::Rc;

use serde_json::{Value, json};
use sqruff_lib::core::config::{FluffConfig, Value as CfgValue};
use sqruff_lib::core::linter::core::{Linter, verif_hook};
use sqruff_lib::core::linter::linted_file::LintedFile;
use sqruff_lib_core::parser::segments::base::{ErasedSegment, Tables};
use sqruff_lib_core::parser::segments::fix::FixPatch;
use sqruff_lib_core::dialects::syntax::SyntaxKind;
use sqruff_lib_core::lint_fix::LintFix;
use sqruff_lib_core::templaters::base::{RawFileSlice, TemplatedFile, TemplatedFileSlice};

use crate::common::*;

pub const RULESETS: &[&str] = &[
    "all",
    "core",
    "LT01,LT02,LT03,LT04,LT05,LT06,LT07,LT08,LT09,LT10,LT11,LT12,LT13",
    "CP01,CP02,CP03,CP04,CP05",
    "AL01,AL02,AL05,AL07,AL09,ST01,ST02,ST03,ST05,ST06,ST08",
    "LT01,LT02,CP01,AL01",
    "CV01,CV02,CV03,CV04,CV05,CV06,CV07,CV10,CV11,RF03,RF06,ST07,ST09",
    "LT01",
    "LT02,LT12,CP01",
];

#[derive(Clone)]
pub struct Templ {
    pub style: String,
    /// custom `param_regex` (then `style` is only a label)
    pub regex: Option<String>,
    pub params: Vec<(String, String)>,
    /// set every value through the configuration object (`FluffConfig::raw`) instead of the ini text
    pub api: bool,
}

pub struct Item {
    pub cls: &'static str,
    pub dialect: String,
    pub rules: String,
    pub sql: String,
    pub templ: Option<Templ>,
}

/// Can the value be written as `key = value` in the ini text (the reader trims, cuts at comment
/// signs and has no multi-line values)? Whatever the answer, `mk_config` reads every value back.
fn ini_ok(k: &str, v: &str) -> bool {
    !v.is_empty() && v.trim() == v && !v.contains(['\n', '#', ';', '%']) && !k.is_empty() && !k.contains([':', '=', ' ', '}', '{', '#', ';'])
}

pub fn cfg_text(dialect: &str, rules: &str, templ: Option<&Templ>) -> String {
    let mut s = format!("[sqruff]\ndialect = {}\nrules = {}\n", dialect, rules);
    if let Some(t) = templ {
        s.push_str("templater = placeholder\n\n[sqruff:templater:placeholder]\n");
        match &t.regex {
            Some(r) => s.push_str(&format!("param_regex = {}\n", r)),
            None => s.push_str(&format!("param_style = {}\n", t.style)),
        }
        for (k, v) in &t.params {
            if !t.api && ini_ok(k, v) {
                s.push_str(&format!("{} = {}\n", k, v));
            }
        }
    }
    s
}
fn value_text(v: &CfgValue) -> Option<String> {
    match (v.as_string(), v.as_int(), v.as_bool()) {
        (Some(s), None, None) => Some(s.to_string()),
        (None, Some(i), None) => Some(i.to_string()),
        (None, None, Some(b)) => Some(if b { "true" } else { "false" }.to_string()),
        _ => None,
    }
}
/// The configuration: ini text for everything the ini reader can carry; every parameter value is
/// read back and, where the reader did not deliver exactly the intended text (multi-line, empty,
/// padded values, keys holding ':' ...), set through the configuration object.
pub fn mk_config(dialect: &str, rules: &str, templ: Option<&Templ>) -> FluffConfig {
    let mut cfg = FluffConfig::from_source(&cfg_text(dialect, rules, templ), None);
    if let Some(t) = templ {
        if let Some(m) = cfg.raw.get_mut("templater").and_then(|x| x.as_map_mut()).and_then(|x| x.get_mut("placeholder")).and_then(|x| x.as_map_mut()) {
            if let Some(r) = &t.regex {
                if m.get("param_regex").and_then(|v| v.as_string()) != Some(r.as_str()) {
                    m.insert("param_regex".into(), CfgValue::String(r.as_str().into()));
                }
            }
            for (k, v) in &t.params {
                if k == "param_style" || k == "param_regex" {
                    continue;
                }
                if m.get(k.as_str()).and_then(value_text).as_deref() != Some(v.as_str()) {
                    m.insert(k.clone(), CfgValue::String(v.as_str().into()));
                }
            }
        }
    }
    cfg
}
pub fn mk_linter(dialect: &str, rules: &str, templ: Option<&Templ>) -> Linter {
    Linter::new(mk_config(dialect, rules, templ), None, None, true)
}
pub fn item_json(it: &Item) -> Value {
    json!({"kind":"file","cls":it.cls,"dialect":it.dialect,"rules":it.rules,"sql":it.sql,
        "templ": it.templ.as_ref().map(|t| json!({"style":t.style,"regex":t.regex,"params":t.params,"api":t.api}))})
}
pub fn item_from_json(v: &Value) -> Item {
    let templ = if v["templ"].is_object() {
        Some(Templ {
            style: v["templ"]["style"].as_str().unwrap().to_string(),
            regex: v["templ"]["regex"].as_str().map(|x| x.to_string()),
            params: v["templ"]["params"].as_array().unwrap().iter().map(|p| (p[0].as_str().unwrap().to_string(), p[1].as_str().unwrap().to_string())).collect(),
            api: v["templ"]["api"].as_bool().unwrap_or(false),
        })
    } else {
        None
    };
    Item { cls: "replay", dialect: v["dialect"].as_str().unwrap().into(), rules: v["rules"].as_str().unwrap().into(), sql: v["sql"].as_str().unwrap().into(), templ }
}

// ---------------------------------------------------------------- generators
fn is_ident(b: u8) -> bool {
    b.is_ascii_alphanumeric() || b == b'_'
}

/// Layout / case perturbation of a corpus file (keeps the token sequence mostly intact).
pub fn perturb(rng: &mut Rng, text: &str) -> String {
    if !text.is_ascii() {
        return text.to_string();
    }
    let b = text.as_bytes();
    let mut out = String::with_capacity(b.len() + 32);
    let mut i = 0;
    let mut in_str = false;
    while i < b.len() {
        let c = b[i];
        if c == b'\'' {
            in_str = !in_str;
        }
        if in_str {
            out.push(c as char);
            i += 1;
            continue;
        }
        if c == b' ' && rng.chance(1, 6) {
            out.push_str(["  ", "   ", " \n", "\n  ", " "][rng.below(5)]);
        } else if c == b',' && rng.chance(1, 3) {
            out.push_str([" ,", ",  ", ", ", ","][rng.below(4)]);
            if i + 1 < b.len() && b[i + 1] == b' ' && rng.chance(1, 2) {
                i += 1;
            }
        } else if c == b'\n' && rng.chance(1, 8) {
            out.push_str(["  \n", "\n\n\n", "\n    ", " "][rng.below(4)]);
        } else if c.is_ascii_alphabetic() && (i == 0 || !is_ident(b[i - 1])) {
            let mut j = i;
            while j < b.len() && is_ident(b[j]) {
                j += 1;
            }
            let w = &text[i..j];
            match rng.below(8) {
                0 => out.push_str(&w.to_ascii_lowercase()),
                1 => out.push_str(&w.to_ascii_uppercase()),
                2 => {
                    let mut cs = w.to_ascii_lowercase();
                    if let Some(f) = cs.get_mut(0..1) {
                        f.make_ascii_uppercase();
                    }
                    out.push_str(&cs)
                }
                _ => out.push_str(w),
            }
            i = j;
            continue;
        } else if (c == b'=' || c == b'+') && rng.chance(1, 3) {
            out.push(c as char);
            if i + 1 < b.len() && b[i + 1] == b' ' {
                i += 1;
            }
        } else {
            out.push(c as char);
        }
        i += 1;
    }
    match rng.below(6) {
        0 => {
            while out.ends_with('\n') {
                out.pop();
            }
        }
        1 => out.push_str("\n\n"),
        2 => out.push_str("  "),
        _ => {}
    }
    out
}

const STYLES: &[&str] = &["colon", "colon_nospaces", "numeric_colon", "pyformat", "dollar", "question_mark", "numeric_dollar", "percent", "ampersand", "flyway_var"];
/// every built-in style, plus two custom `param_regex` configurations (named / positional)
const STYLES_ALL: &[&str] = &[
    "colon", "colon_nospaces", "numeric_colon", "pyformat", "dollar", "question_mark", "numeric_dollar", "percent", "ampersand", "flyway_var",
    "apache_camel", "custom_named", "custom_positional",
    // drawn more often: the styles whose regex also matches inside a word
    "colon", "colon_nospaces", "ampersand", "dollar", "question_mark",
];
fn custom_regex(style: &str) -> Option<String> {
    match style {
        "custom_named" => Some(r"__(?P<param_name>[a-z0-9]+)__".to_string()),
        "custom_positional" => Some("@@".to_string()),
        _ => None,
    }
}
fn positional(style: &str) -> bool {
    matches!(style, "question_mark" | "percent" | "custom_positional")
}
fn numeric(style: &str) -> bool {
    style.starts_with("numeric")
}
/// Text of a placeholder of `style` for parameter `name` and the configuration key of its value.
fn mk_ph(rng: &mut Rng, style: &str, name: &str) -> Option<(String, String)> {
    let ph = match style {
        "colon" | "colon_nospaces" | "numeric_colon" => format!(":{}", name),
        "pyformat" => format!("%({})s", name),
        "dollar" | "numeric_dollar" => {
            if rng.chance(1, 2) { format!("${}", name) } else { format!("${{{}}}", name) }
        }
        "question_mark" => "?".to_string(),
        "percent" => "%s".to_string(),
        "ampersand" => {
            if rng.chance(1, 2) { format!("&{}", name) } else { format!("&{{{}}}", name) }
        }
        "flyway_var" => format!("${{v:{}}}", name),
        "apache_camel" => format!(":#${{{}}}", name),
        "custom_named" => format!("__{}__", name),
        "custom_positional" => "@@".to_string(),
        _ => return None,
    };
    let key = if style == "flyway_var" { format!("v:{}", name) } else { name.to_string() };
    Some((ph, key))
}
/// Does a placeholder of this style still match directly after an identifier character?
fn glues_after_word(style: &str) -> bool {
    matches!(style, "colon_nospaces" | "ampersand" | "flyway_var" | "apache_camel" | "custom_positional")
}

/// Replace some literals (integers, simple quoted strings) of `text` by placeholders of `style`;
/// the parameter value is the literal's text, so the replacement is shorter, equal or longer than
/// the placeholder depending on the drawn name.
///
/// `wide = false`: every placeholder stands as its own token between separators (the original
/// generator). `wide = true` additionally: literals next to any operator, identifiers holding `_`
/// replaced as a whole or only in part (placeholder glued to the rest of the identifier), values that
/// lex into several tokens / carry padding or a line break around the literal, and (one file in
/// three) the file cut back so that it *ends* in a placeholder with nothing behind it.
pub fn templatise(rng: &mut Rng, text: &str, style: &str, wide: bool) -> Option<(String, Templ)> {
    if !text.is_ascii() {
        return None;
    }
    let mut text = text.to_string();
    let end_in_ph = wide && rng.chance(1, 3);
    if end_in_ph {
        let t = text.trim_end_matches(|c: char| c.is_ascii_whitespace() || c == ';');
        text = t.to_string();
    }
    let b = text.as_bytes();
    let mut out = String::new();
    let mut params: Vec<(String, String)> = vec![];
    let mut i = 0;
    let mut n = 0usize;
    let positional = positional(style);
    // positional styles number every match, also those already in the file
    let mut in_comment = false;
    // start of the last token if the file ends in an identifier / number (for `end_in_ph`)
    let last_tok = {
        let mut j = b.len();
        while j > 0 && is_ident(b[j - 1]) {
            j -= 1;
        }
        if end_in_ph && j < b.len() && (j == 0 || matches!(b[j - 1], b' ' | b'\n' | b'(' | b',' | b'=' | b'<' | b'>' | b'.')) { Some(j) } else { None }
    };
    let sep_before = |c: u8| matches!(c, b' ' | b'\n' | b'(' | b',' | b'=' | b'<' | b'>');
    let sep_after = |c: u8| matches!(c, b' ' | b'\n' | b')' | b',' | b';');
    let wide_before = |c: u8| !is_ident(c) && !matches!(c, b'.' | b'\'' | b'"' | b'`' | b'$' | b'@' | b':' | b'&' | b'%' | b'#' | b'\\' | b'{' | b'[');
    let wide_after = |c: u8| !is_ident(c) && !matches!(c, b'.' | b'\'' | b'"' | b'`' | b'(' | b'[');
    while i < b.len() {
        let c = b[i];
        if c == b'-' && i + 1 < b.len() && b[i + 1] == b'-' {
            in_comment = true;
        }
        if c == b'\n' {
            in_comment = false;
        }
        if in_comment {
            out.push(c as char);
            i += 1;
            continue;
        }
        let prev_ok = i == 0 || sep_before(b[i - 1]) || (wide && wide_before(b[i - 1]));
        let next_ok = |j: usize| j == b.len() || sep_after(b[j]) || (wide && wide_after(b[j]));
        // (end of the replaced text, is an identifier)
        let mut lit: Option<(usize, bool)> = None;
        if prev_ok && c.is_ascii_digit() {
            let mut j = i;
            while j < b.len() && b[j].is_ascii_digit() {
                j += 1;
            }
            if next_ok(j) && j - i <= 9 && (b[i] != b'0' || j - i == 1) {
                lit = Some((j, false));
            }
        } else if prev_ok && c == b'\'' {
            let mut j = i + 1;
            while j < b.len() && (is_ident(b[j])) {
                j += 1;
            }
            if j < b.len() && b[j] == b'\'' && j > i + 1 && next_ok(j + 1) {
                lit = Some((j + 1, false));
            }
        } else if c == b'\'' {
            // skip other quoted strings untouched
            let mut j = i + 1;
            while j < b.len() && b[j] != b'\'' && b[j] != b'\n' {
                j += 1;
            }
            let j = (j + 1).min(b.len());
            out.push_str(&text[i..j]);
            i = j;
            continue;
        } else if wide && (c.is_ascii_alphabetic() || c == b'_') && (i == 0 || !is_ident(b[i - 1])) {
            let mut j = i;
            while j < b.len() && is_ident(b[j]) {
                j += 1;
            }
            let forced = last_tok == Some(i);
            if forced || (text[i..j].contains('_') && prev_ok && next_ok(j) && rng.chance(1, 2)) {
                lit = Some((j, true));
            } else {
                out.push_str(&text[i..j]);
                i = j;
                continue;
            }
        }
        if let Some((j, ident)) = lit {
            let forced = last_tok.map(|l| l == i && j == b.len()).unwrap_or(false) || (end_in_ph && j == b.len());
            if forced || rng.chance(2, 3) {
                n += 1;
                let mut from = i;
                // identifier: keep a prefix up to an inner '_' in front of the placeholder
                if ident && glues_after_word(style) && rng.chance(1, 2) {
                    if let Some(k) = text[i..j].rfind('_') {
                        if k > 0 && i + k + 1 < j {
                            from = i + k + 1;
                            out.push_str(&text[i..from]);
                        }
                    }
                }
                let lit_text = &text[from..j];
                let value = if !wide || ident {
                    lit_text.to_string()
                } else {
                    match rng.below(12) {
                        0 => format!("{}+1", lit_text),
                        1 => format!("{} +1", lit_text),
                        2 => format!("{} + 1", lit_text),
                        3 => format!("({})", lit_text),
                        4 => format!("{} ", lit_text),
                        5 => format!(" {}", lit_text),
                        6 => format!("{}\n", lit_text),
                        7 => format!("{}*2", lit_text),
                        _ => lit_text.to_string(),
                    }
                };
                let name = if positional || numeric(style) {
                    format!("{}", n)
                } else {
                    match rng.below(3) {
                        0 => format!("p{}", n),
                        1 => format!("param_{}", n),
                        _ => format!("a_rather_long_parameter_name_{}", n),
                    }
                };
                let name = if style == "custom_named" { name.replace('_', "") } else { name };
                let (ph, key) = mk_ph(rng, style, &name)?;
                params.push((key, value));
                out.push_str(&ph);
                i = j;
                continue;
            }
            out.push_str(&text[i..j]);
            i = j;
            continue;
        }
        out.push(c as char);
        i += 1;
    }
    if n == 0 {
        return None;
    }
    if positional {
        // pre-existing '?' / '%s' shift the numbering: give up naming, values default to the index
        let marker = match style {
            "question_mark" => "?",
            "percent" => "%s",
            _ => "@@",
        };
        if text.contains(marker) {
            params.clear();
        }
    }
    Some((out, Templ { style: style.to_string(), regex: custom_regex(style), params, api: wide && rng.chance(1, 4) }))
}

// ---------------------------------------------------------------- synthetic statements around placeholders
/// What a placeholder in a given syntactic role may stand for: single tokens, values that lex into
/// several tokens (with and without layout/capitalisation defects inside), padded and multi-line
/// values. Every role also draws the empty / blank values of `ODD`.
const V_COL: &[&str] = &["a", "b+1", "b +1", "b + 1", "a,b", "a , b", "a, b", "a AS x", "a as x", "a x", "Foo", "t.a", "count(*)", "COUNT( a )  AS n", "a  ", "a,\n    b", "*", "1", "'x'", "a||b", "a\n", "sum(a)/2"];
const V_TBL: &[&str] = &["users", "s.users", "users AS u", "users as u", "users u", "users, other", "(SELECT 1 AS a) AS q", "Users", "users\n", "t1 JOIN t2 ON t1.a=t2.a", "t1  join  t2 using (a)"];
const V_ALIAS: &[&str] = &["u", "al", "U", "some_long_alias", "u -- c\n"];
const V_VAL: &[&str] = &["1", "b+1", "b +1", "b + 1", "b+ 1", "'x'", "(1, 2, 3)", "(1,2,3)", "( 1 , 2 )", "1 AND c = 2", "1 and c=2", "b\n    AND c = 1", "NULL", "null", "-1", "1  ", " 1", "f(b)", "f( b )", "b::int", "CAST(b AS int)", "cast(b as INT)", "1 -- one\n", "b*(c+1)", "x.b", "a.b+c.d", "'2020-01-01'"];
const V_NAME: &[&str] = &["a", "col", "some_long_column_name", "Col", "x1"];
const V_NUM: &[&str] = &["10", "5+5", "1", "10 OFFSET 5", "10  offset 5"];
const V_KW: &[&str] = &["ASC", "desc", "DESC NULLS LAST", "asc", "DESC"];
const V_CLAUSE: &[&str] = &["WHERE a = 1", "where a=1", "ORDER BY a", "order by a  desc", "LIMIT 1", "-- c", "WHERE a = 1\n", "WHERE a=1 AND b=2", "GROUP BY a\nORDER BY a"];
const V_STMT: &[&str] = &["SELECT 1", "select a from t", "SELECT a  FROM t", "SELECT a,b FROM t WHERE a=b", "SELECT a FROM t AS u", "SELECT a\nFROM t\n", "SELECT a FROM t;"];
const ODD: &[&str] = &["", " ", "\n", "  \n  ", "\t"];

/// Statement skeletons; `{role}` is a slot that becomes a placeholder or literal text of that role.
const SKELETONS: &[&str] = &[
    "SELECT {col} FROM {tbl}",
    "SELECT {col} FROM {tbl} AS {alias}",
    "SELECT {col} FROM {tbl} {alias}",
    "SELECT a FROM users AS {alias}",
    "SELECT a FROM users {alias}",
    "SELECT a FROM s.{name}",
    "SELECT a AS {alias}",
    "SELECT a, b AS {alias}",
    "SELECT {col}, {col} FROM {tbl} WHERE {name} = {val}",
    "SELECT a FROM t WHERE a = {val}",
    "SELECT a FROM t WHERE a={val}",
    "SELECT a FROM t WHERE {val} = a",
    "SELECT a FROM t WHERE a IN {val}",
    "SELECT a FROM t WHERE a > {val} AND b < {val}",
    "SELECT a FROM t WHERE a = {val}{val}",
    "SELECT a, b FROM t ORDER BY {col}",
    "SELECT a, count(*) FROM t GROUP BY {col}",
    "SELECT a FROM t ORDER BY a {kw}",
    "SELECT a FROM t LIMIT {num}",
    "SELECT a FROM t1 JOIN {tbl} ON t1.a = {val}",
    "SELECT a FROM t1 AS x JOIN t2 AS y USING ({name})",
    "SELECT x.a FROM t1 AS x INNER JOIN t2 AS {alias}",
    "INSERT INTO t (a, b) VALUES ({val}, {val})",
    "UPDATE t SET a = {val} WHERE b = {val}",
    "UPDATE t SET a = {val}",
    "DELETE FROM {tbl} WHERE a = {val}",
    "DELETE FROM {tbl}",
    "SELECT CASE WHEN a = {val} THEN {val} ELSE {val} END AS c FROM t",
    "SELECT f({val}), count({col}) FROM {tbl}",
    "CREATE TABLE {tbl} (a int, b int)",
    "DROP TABLE {name}",
    "SELECT * FROM {name}.tbl",
    "SELECT * FROM db.tbl_{name}",
    "SELECT a FROM {name}_tbl AS {alias}",
    "WITH c AS (SELECT {col} FROM {tbl}) SELECT * FROM c",
    "SELECT a FROM t WHERE a = {val} UNION ALL SELECT b FROM u WHERE b = {val}",
    "SELECT a FROM t {clause}",
    "SELECT a FROM t WHERE b = 2 {clause}",
    "{stmt}",
    "{stmt};\n{stmt}",
    "SELECT a FROM t; {stmt}",
    "SELECT a FROM t WHERE a = {val} -- trailing {val}",
    "SELECT a FROM t -- {name}",
    "SELECT '{name}' FROM t",
    "SELECT {col}\nFROM {tbl}\nWHERE a = {val}\n  AND b = {val}",
    "select {col} from {tbl} where a={val}",
    "SELECT\n    a,\n    {col}\nFROM {tbl}",
    "{col}",
    "SELECT a FROM t WHERE a BETWEEN {val} AND {val}",
    "SELECT a FROM t WHERE a LIKE {val}",
    "SELECT a FROM t AS {alias} WHERE {alias}.a = {val}",
    "SELECT t.a FROM t HAVING count(*) > {val}",
];
fn role_values(role: &str) -> &'static [&'static str] {
    match role {
        "col" => V_COL,
        "tbl" => V_TBL,
        "alias" => V_ALIAS,
        "val" => V_VAL,
        "name" => V_NAME,
        "num" => V_NUM,
        "kw" => V_KW,
        "clause" => V_CLAUSE,
        "stmt" => V_STMT,
        _ => V_VAL,
    }
}
const PH_NAMES: &[&str] = &["x", "v", "al", "p1", "id", "param_2", "start_date", "a_rather_long_parameter_name", "n", "tbl"];

/// A short statement with placeholders in chosen syntactic positions: as a whole token, glued to an
/// identifier on either side, adjacent to another placeholder, at the very start / very end of the
/// file (no trailing newline), in a comment or a quoted literal; values single-token, multi-token,
/// multi-line, padded or empty; every style.
pub fn gen_shape(rng: &mut Rng, matches: &dyn Fn(&str, &str) -> Option<usize>) -> Option<Item> {
    let style = *rng.pick(STYLES_ALL);
    let skel = *rng.pick(SKELETONS);
    // split into literal pieces and slots
    let mut pieces: Vec<(bool, String)> = vec![];
    let mut rest = skel;
    while let Some(a) = rest.find('{') {
        let b = rest[a..].find('}')? + a;
        pieces.push((false, rest[..a].to_string()));
        pieces.push((true, rest[a + 1..b].to_string()));
        rest = &rest[b + 1..];
    }
    pieces.push((false, rest.to_string()));
    let n_slots = pieces.iter().filter(|p| p.0).count();
    let ends_in_slot = rest.is_empty();
    let forced = rng.below(n_slots.max(1));
    let end_ph = ends_in_slot && rng.chance(2, 3);
    let mut sql = String::new();
    let mut params: Vec<(String, String)> = vec![];
    let mut n_ph = 0usize;
    let mut slot = 0usize;
    let mut last_was_ph = false;
    for (is_slot, p) in &pieces {
        if !*is_slot {
            if !p.is_empty() {
                let lit = if rng.chance(1, 3) { perturb(rng, p) } else { p.clone() };
                // perturb may pad the end of a piece; keep glue positions ('_', '.', quotes) intact
                let lit = if p.ends_with(['_', '.', '\'', '(']) || p.starts_with(['_', '.', '\'', ')']) { p.clone() } else { lit };
                sql.push_str(&lit);
                last_was_ph = false;
            }
            continue;
        }
        let vals = role_values(p);
        let is_last = slot + 1 == n_slots;
        let make_ph = slot == forced || (is_last && end_ph) || rng.chance(1, 2);
        slot += 1;
        let value = if rng.chance(1, 12) { rng.pick(ODD).to_string() } else { rng.pick(vals).to_string() };
        if !make_ph {
            // literal text of the role (never empty: the statement should stay a statement)
            let v = rng.pick(vals).to_string();
            sql.push_str(v.trim_end_matches('\n'));
            last_was_ph = false;
            continue;
        }
        n_ph += 1;
        let name = if positional(style) {
            format!("{}", n_ph)
        } else if numeric(style) {
            format!("{}", rng.range(1, 3))
        } else if style == "custom_named" {
            format!("{}{}", ["x", "al", "param", "averylongparametername"][rng.below(4)], rng.below(3))
        } else {
            let base = *rng.pick(PH_NAMES);
            if rng.chance(1, 2) { base.to_string() } else { format!("{}_{}", base, rng.below(3)) }
        };
        let (ph, key) = mk_ph(rng, style, &name)?;
        // glue an identifier fragment in front (only for the styles whose regex still matches behind a
        // word character: elsewhere the text would not be a placeholder at all, but literal code that
        // a fix may turn into one by inserting a blank - outside this property's quantifier) / behind
        let glue_front = glues_after_word(style) && !last_was_ph && rng.chance(1, 4) && sql.ends_with([' ', '\n', '(', '.', ',']);
        if glue_front {
            sql.push_str(["u_", "x", "tbl_", "T_"][rng.below(4)]);
        }
        sql.push_str(&ph);
        if rng.chance(1, 8) && (ph.ends_with('}') || ph.ends_with(')') || ph.ends_with('?') || ph.ends_with('@')) {
            sql.push_str(["_x", "_suffix", "1"][rng.below(3)]);
        }
        if !params.iter().any(|(k, _)| *k == key) && key != "param_style" && key != "param_regex" {
            // 1 in 10: no value configured, the placeholder renders as its own name
            if !rng.chance(1, 10) {
                params.push((key, value));
            }
        }
        last_was_ph = true;
    }
    if n_ph == 0 {
        return None;
    }
    let end = if end_ph { "" } else { *rng.pick(&["", "", "\n", "\n", ";", ";\n", " ", "\n\n", " -- c", "\n-- c\n", "  \n"]) };
    sql.push_str(end);
    if rng.chance(1, 10) {
        sql.insert_str(0, ["\n", "  ", "-- head\n"][rng.below(3)]);
    }
    // every generated placeholder must be one for the templater, and nothing else in the file
    // (e.g. `tbl_?`: the built-in regexes do not match behind a word character; that text is literal
    // code which a fix may turn into a placeholder by inserting a blank - not an input of this property)
    if let Some(k) = matches(style, &sql) {
        if k != n_ph {
            return None;
        }
    }
    let dialect = if rng.chance(3, 5) { "ansi" } else { *rng.pick(&DIALECTS) };
    let rules = if rng.chance(1, 2) { "all" } else { RULESETS[rng.below(RULESETS.len())] };
    let api = rng.chance(1, 4);
    Some(Item { cls: "templated-shapes", dialect: dialect.into(), rules: rules.into(), sql, templ: Some(Templ { style: style.to_string(), regex: custom_regex(style), params, api }) })
}

// ---------------------------------------------------------------- recording
/// Text as a Gallina term: `(S "...")` (Coq string literal, decoded to bytes in Corr/C04.v) when the
/// text has no control characters other than tab/newline, else the explicit byte list.
fn g_text(s: &str) -> String {
    if s.bytes().all(|b| b >= 32 && b != 127 || b == 9 || b == 10) {
        format!("(S \"{}\")", s.replace('"', "\"\""))
    } else {
        g_str(s)
    }
}
fn tree_g(seg: &ErasedSegment, ok: &mut bool, nodes: &mut usize) -> String {
    *nodes += 1;
    let Some(pm) = seg.get_position_marker() else {
        *ok = false;
        return "(L false [] 0 0 0 0)".into();
    };
    let strip = matches!(seg.get_type(), SyntaxKind::EndOfFile | SyntaxKind::Indent | SyntaxKind::Dedent | SyntaxKind::Implicit);
    let p = format!("{} {} {} {}", pm.source_slice.start, pm.source_slice.end, pm.templated_slice.start, pm.templated_slice.end);
    if !seg.get_source_fixes().is_empty() {
        *ok = false;
    }
    if seg.segments().is_empty() {
        format!("(L {} {} {})", g_bool(strip), g_text(seg.raw()), p)
    } else {
        let cs = g_list(seg.segments().iter().map(|c| tree_g(c, ok, nodes)));
        format!("(Nd {} {} {})", g_bool(strip), p, cs)
    }
}

fn patches_g(ps: &[(usize, usize, String)]) -> String {
    g_list(ps.iter().map(|(s, e, r)| g_tuple(&[g_n(*s), g_n(*e), g_text(r)])))
}

/// (wf_ranges, sorted_disjoint) of a real patch list — the Coq predicates of Patch/Proofs.v.
fn patch_preds(ps: &[(usize, usize, String)]) -> (bool, bool) {
    let wf = ps.iter().all(|(s, e, _)| s <= e);
    let mut sd = wf;
    let mut idx = 0usize;
    for (i, (s, e, _)) in ps.iter().enumerate() {
        if *s < idx {
            sd = false;
        }
        if ps[i + 1..].iter().any(|(s2, e2, r2)| s2 == s && e2 == e && *r2 == ps[i].2) {
            sd = false;
        }
        idx = *e;
    }
    (wf, sd)
}

/// Templated side in reading order on the branches iter_patches takes (unchanged and literal nodes are not
/// descended into): no child starts before the running templated index and the node's templated end is not
/// before it. Where this fails the unrepaired code subtracted with underflow (`start - templated_idx` on usize:
/// a panic with overflow checks, a wrapped "gap" without); the repaired code compares.
fn underflow_free(seg: &ErasedSegment, tpl: &str) -> bool {
    let Some(pos) = seg.get_position_marker() else { return true };
    if tpl.get(pos.templated_slice.clone()).map(|t| t == seg.raw().as_str()).unwrap_or(false) {
        return true;
    }
    if pos.is_literal() || seg.segments().is_empty() {
        return true;
    }
    let mut tidx = pos.templated_slice.start;
    let mut segs = seg.segments();
    while !segs.is_empty() && matches!(segs.last().unwrap().get_type(), SyntaxKind::EndOfFile | SyntaxKind::Indent | SyntaxKind::Dedent | SyntaxKind::Implicit) {
        segs = &segs[..segs.len() - 1];
    }
    for c in segs {
        let Some(pm) = c.get_position_marker() else { return true };
        if !c.raw().is_empty() && pm.source_slice.is_empty() && pm.templated_slice.is_empty() {
            continue;
        }
        if pm.templated_slice.start < tidx {
            return false;
        }
        if !underflow_free(c, tpl) {
            return false;
        }
        tidx = pm.templated_slice.end;
    }
    pos.templated_slice.end >= tidx
}

fn placeholders(tf: &TemplatedFile) -> Vec<String> {
    tf.verif_raw_sliced_idx().into_iter().filter(|(_, t, _)| t == "templated").map(|(i, _, l)| tf.source_str[i..i + l].to_string()).collect()
}

/// Is every placeholder its own token (separators on both sides in the source, non-empty value)?
/// Used to be a generator restriction (lexer defects repaired since, see notes/C15.md); now only
/// counted, to show how many runs have glued / empty placeholders.
pub fn own_token(tf: &TemplatedFile) -> bool {
    let sb = tf.source_str.as_bytes();
    let sep = |b: u8| matches!(b, b' ' | b'\n' | b'\t' | b'(' | b')' | b',' | b';' | b'=' | b'<' | b'>');
    tf.sliced_file.iter().filter(|t| t.slice_type == "templated").all(|t| {
        let (a, b) = (t.source_slice.start, t.source_slice.end);
        (a == 0 || sep(sb[a - 1])) && (b >= sb.len() || sep(sb[b])) && !t.templated_slice.is_empty()
    })
}

/// Failure classes recorded as known findings (notes/C04.md "Findings"), decided from the outcome:
///  * fused: every placeholder of the source is still in the fixed text, in order, but the templater no
///    longer recognises the same list - a fix removed literal white space next to a placeholder and the
///    style's regex (look-behind on word characters / greedy name) now reads the place differently
///    (`DROP TABLE $t` -> `DROP TABLE$t`, `:v FROM` -> `:vFROM`, `:p ::int` -> `:p::int`);
///  * empty value: the only placeholders missing from the fixed text are ones whose sample value is
///    empty (no token carries them; the gap patch of `iter_patches` swallows them), or nothing is
///    missing but such a placeholder exists and the texts differ around it.
///  * out of order: the patches of the final tree are not sorted / disjoint, or a child starts before the
///    running templated index on a branch `iter_patches` takes (a rule moved code, e.g. ST06, under an
///    ancestor that holds a placeholder; positions run backwards, a gap is not seen and `fix_string` drops the
///    patch that starts before the running index).
/// Anything else (a placeholder with a value lost, changed, reordered; an edit inside a rendering) keeps
/// its per-input key.
pub fn known_class(tf: &TemplatedFile, tpl: &str, fixed: &str, same_list: bool, sorted_disjoint: bool) -> Option<&'static str> {
    // greedy in-order search of the placeholders' source texts in the fixed text
    let found_in_order = |with_empty: bool| -> bool {
        let mut cur = 0usize;
        for t in tf.sliced_file.iter().filter(|t| t.slice_type == "templated") {
            if !with_empty && t.templated_slice.is_empty() {
                continue;
            }
            let p = &tf.source_str[t.source_slice.clone()];
            match fixed[cur..].find(p) {
                Some(k) => cur += k + p.len(),
                None => return false,
            }
        }
        true
    };
    let _ = tpl;
    let has_empty = tf.sliced_file.iter().any(|t| t.slice_type == "templated" && t.templated_slice.is_empty());
    if !sorted_disjoint {
        // the premise of C04_templated_keeps_partial fails: positions of the final tree run backwards
        Some("c04-templated-patches-out-of-order")
    } else if !found_in_order(false) {
        None
    } else if !found_in_order(true) || (same_list && has_empty) {
        Some("c04-placeholder-with-empty-value")
    } else if !same_list {
        Some("c04-placeholder-fused-with-neighbour")
    } else {
        None
    }
}

/// The conflict filter itself, independent of which fixes the rules happen to propose: for every
/// segment of the parsed tree (tokens and nodes) and every edit type a fix anchored there is built
/// through the public constructors and `LintFix::has_template_conflicts` is asked. Soundness only:
/// whenever `touches_templated` says the fix would edit templated code the filter must say "conflict".
/// Returns (fixes asked, fixes that touch templated code, descriptions of the unsound answers).
pub fn synth_conflicts(tf: &TemplatedFile, root: &ErasedSegment) -> (usize, usize, Vec<String>) {
    fn walk(seg: &ErasedSegment, out: &mut Vec<ErasedSegment>) {
        out.push(seg.clone());
        for c in seg.segments() {
            walk(c, out);
        }
    }
    let mut segs = vec![];
    walk(root, &mut segs);
    let (mut asked, mut touching) = (0usize, 0usize);
    let mut bad = vec![];
    for seg in &segs {
        let Some(pm) = seg.get_position_marker() else { continue };
        let (src, tpl) = ((pm.source_slice.start, pm.source_slice.end), (pm.templated_slice.start, pm.templated_slice.end));
        for edit in ["Delete", "Replace", "CreateBefore", "CreateAfter"] {
            let a = Applied { rule: "synthetic", pass: 0, edit: edit.to_string(), anchor_raw: seg.raw().to_string(), src: Some(src), tpl: Some(tpl), n_edit: 1, source_edit: false };
            let Some(why) = touches_templated(tf, &a) else { continue };
            touching += 1;
            let fix = match edit {
                "Delete" => LintFix::delete(seg.clone()),
                "Replace" => LintFix::replace(seg.clone(), vec![seg.clone()], None),
                "CreateBefore" => LintFix::create_before(seg.clone(), vec![seg.clone()]),
                _ => LintFix::create_after(seg.clone(), vec![seg.clone()], None),
            };
            asked += 1;
            match catch(|| fix.has_template_conflicts(tf)) {
                Ok(true) => {}
                Ok(false) => bad.push(format!("{} [{:?}]: has_template_conflicts = false", why, seg.get_type())),
                Err(m) => bad.push(format!("{} [{:?}]: has_template_conflicts panicked: {}", why, seg.get_type(), trunc(&m, 80))),
            }
        }
    }
    (asked, touching, bad)
}

pub struct FixRun {
    pub tf: TemplatedFile,
    pub start: Option<ErasedSegment>,
    pub end: Option<ErasedSegment>,
    pub patches: Vec<(usize, usize, String)>,
    pub fixed: String,
    /// every fix of an accepted batch of the fix loop
    pub applied: Vec<Applied>,
}

/// One fix the loop applied to the tree (it passed `has_template_conflicts`).
#[derive(Clone)]
pub struct Applied {
    pub rule: &'static str,
    pub pass: usize,
    pub edit: String,
    pub anchor_raw: String,
    pub src: Option<(usize, usize)>,
    pub tpl: Option<(usize, usize)>,
    pub n_edit: usize,
    pub source_edit: bool,
}

/// The property's "templated code is untouched", stated on one applied fix from the slice list alone
/// (independent of `fix_slices` / `raw_slices_spanning_source_slice`): a deletion / replacement whose
/// anchor covers source text of a placeholder, or a creation whose insertion point lies strictly
/// inside the rendering of a placeholder, edits templated code.
pub fn touches_templated(tf: &TemplatedFile, a: &Applied) -> Option<String> {
    let (Some((s0, s1)), Some((t0, t1))) = (a.src, a.tpl) else { return None };
    for sl in tf.sliced_file.iter().filter(|t| t.slice_type == "templated") {
        let (ps, pe) = (sl.source_slice.start, sl.source_slice.end);
        let (qs, qe) = (sl.templated_slice.start, sl.templated_slice.end);
        match a.edit.as_str() {
            "Delete" | "Replace" => {
                if a.source_edit {
                    continue;
                }
                if s0 < s1 && s0 < pe && ps < s1 && ps < pe {
                    return Some(format!("{} of {:?} (source {}..{}) covers placeholder {:?} at source {}..{}", a.edit, trunc(&a.anchor_raw, 40), s0, s1, &tf.source_str[ps..pe], ps, pe));
                }
            }
            _ => {
                let p = if a.edit == "CreateBefore" { t0 } else { t1 };
                if qs < p && p < qe {
                    return Some(format!("{} at templated offset {} (anchor {:?}) lies inside the rendering {}..{} of placeholder {:?}", a.edit, p, trunc(&a.anchor_raw, 40), qs, qe, &tf.source_str[ps..pe]));
                }
            }
        }
    }
    None
}

pub enum RunErr {
    Parse(String),
    Loop(String),
    Patches(String),
    NoTree,
}

/// Run the real pipeline once: parse, lint_parsed(fix = true) with the hook, fix_string.
pub fn fix_run(linter: &Linter, sql: &str) -> Result<FixRun, RunErr> {
    let tables = Tables::default();
    let parsed = match catch(|| linter.parse_string(&tables, sql, None)) {
        Ok(Ok(p)) => p,
        Ok(Err(e)) => return Err(RunErr::Parse(format!("{:?}", e.value))),
        Err(m) => return Err(RunErr::Parse(m)),
    };
    if parsed.tree.is_none() {
        return Err(RunErr::NoTree);
    }
    let tf = parsed.templated_file.clone();
    let trees: Rc<RefCell<(Option<ErasedSegment>, Option<ErasedSegment>)>> = Rc::new(RefCell::new((None, None)));
    let t2 = trees.clone();
    let applied: Rc<RefCell<Vec<Applied>>> = Rc::new(RefCell::new(vec![]));
    let a2 = applied.clone();
    verif_hook::FIX_HOOK.with(|h| {
        *h.borrow_mut() = Some(Box::new(move |ev| match ev {
            verif_hook::FixEvent::Start { tree, .. } => t2.borrow_mut().0 = Some(tree.clone()),
            verif_hook::FixEvent::End { tree } => t2.borrow_mut().1 = Some(tree.clone()),
            verif_hook::FixEvent::Batch { pass, rule, fixes, accepted: true, .. } => {
                for f in fixes {
                    let pm = f.anchor.get_position_marker();
                    a2.borrow_mut().push(Applied {
                        rule,
                        pass,
                        edit: format!("{:?}", f.edit_type),
                        anchor_raw: f.anchor.raw().to_string(),
                        src: pm.map(|p| (p.source_slice.start, p.source_slice.end)),
                        tpl: pm.map(|p| (p.templated_slice.start, p.templated_slice.end)),
                        n_edit: f.edit.len(),
                        source_edit: f.is_just_source_edit() && f.edit.iter().all(|e| !e.get_source_fixes().is_empty()),
                    });
                }
            }
            _ => {}
        }))
    });
    let r = catch(|| linter.lint_parsed(&tables, parsed, true));
    verif_hook::FIX_HOOK.with(|h| *h.borrow_mut() = None);
    let (start, end) = {
        let mut b = trees.borrow_mut();
        (b.0.take(), b.1.take())
    };
    let linted = match r {
        Ok(l) => l,
        Err(m) => {
            return if end.is_some() { Err(RunErr::Patches(m)) } else { Err(RunErr::Loop(m)) };
        }
    };
    let patches: Vec<(usize, usize, String)> = linted.patches.iter().map(|p| (p.source_slice.start, p.source_slice.end, p.fixed_raw.to_string())).collect();
    let fixed = match catch(|| linted.fix_string()) {
        Ok(s) => s,
        Err(m) => return Err(RunErr::Patches(format!("fix_string: {}", m))),
    };
    let applied = applied.borrow().clone();
    Ok(FixRun { tf, start, end, patches, fixed, applied })
}

const TREE_CASE_MAX: usize = 2500;

type Linters = std::collections::HashMap<String, Linter>;

fn run_file(ls: &mut Linters, it: &Item, out: &mut Buf) {
    let input = item_json(it);
    let key = cfg_text(&it.dialect, &it.rules, it.templ.as_ref());
    if it.templ.is_some() {
        // parameter sets differ per file: do not cache
        ls.remove(&key);
    }
    let lint = match catch(|| mk_linter(&it.dialect, &it.rules, it.templ.as_ref())) {
        Ok(l) => l,
        Err(_) => {
            out.count("config_rejected", 1);
            return;
        }
    };
    let linter: &Linter = if it.templ.is_some() { &lint } else { ls.entry(key).or_insert(lint) };
    out.count("fix_runs", 1);
    let templated = it.templ.is_some();
    let run = match fix_run(linter, &it.sql) {
        Ok(r) => r,
        Err(RunErr::Parse(_)) => {
            out.count(if templated { "skipped_lex_parse_panic_templated" } else { "skipped_lex_parse_panic" }, 1);
            return;
        }
        Err(RunErr::NoTree) => {
            out.count("skipped_no_tree", 1);
            return;
        }
        Err(RunErr::Loop(m)) => {
            out.count(if templated { "skipped_rule_panic_templated" } else { "skipped_rule_panic" }, 1);
            out.count(&format!("loop_panic: {}", trunc(m.lines().next().unwrap_or(""), 70)), 1);
            return;
        }
        Err(RunErr::Patches(m)) => {
            out.direct(it.cls, false, &format!("c04-patch-panic-{}", it.cls), &format!("iter_patches/fix_string panicked after the fix loop finished: {}", m), input);
            return;
        }
    };
    let Some(end) = run.end.as_ref() else {
        out.count("no_end_event", 1);
        return;
    };
    let tf = &run.tf;
    let src = tf.source_str.clone();
    let tpl = tf.templated_str.clone().unwrap_or_default();
    let tree_raw = end.raw().to_string();
    let changed = run.start.as_ref().map(|s| s.raw() != end.raw()).unwrap_or(false);
    if changed {
        out.count("runs_with_changed_tree", 1);
    }
    if !run.patches.is_empty() {
        out.count("runs_with_patches", 1);
    }
    if run.patches.len() > 1 {
        out.count("runs_with_several_patches", 1);
    }

    // ---- precondition owned by C01/C02: the tree the loop starts from reads as the templated text
    let lossless = run.start.as_ref().map(|s| s.raw().as_str() == tpl).unwrap_or(false);
    if !lossless {
        out.count(if templated { "skipped_lossy_lex_templated (C01/C15: start tree raw != templated text)" } else { "skipped_lossy_lex (C01: start tree raw != source)" }, 1);
        return;
    }

    // ---- hypothesis monitors
    let (wf, sd) = patch_preds(&run.patches);
    let mut ok_tree = true;
    let mut nodes = 0usize;
    let tree_term = tree_g(end, &mut ok_tree, &mut nodes);
    out.hyp("final tree: every segment has a position marker and no source fixes", "blocking", ok_tree, json!({"input":input}));
    let in_order = underflow_free(end, &tpl);
    out.hyp("iter_patches: on the branches taken no child starts before the running templated index (code moved backwards; before the repair a usize underflow: panic with overflow checks)", "diagnostic", in_order, json!({"input":input}));
    if !templated {
        out.hyp("wf_ranges(real patches), untemplated", "blocking", wf, json!({"input":input,"patches":run.patches}));
        let pm = end.get_position_marker();
        let spans = pm.map(|p| p.source_slice == (0..src.len()) && p.templated_slice == (0..tpl.len())).unwrap_or(false) && tpl == src;
        out.hyp("untemplated: root of the final tree spans the file and templated text = source (premise of C04_untemplated)", "blocking", spans, json!({"input":input}));
    } else {
        out.hyp("templated: real patches have well-formed ranges (premise of C04_fix_string_spec)", "diagnostic", wf, json!({"input":input,"patches":run.patches}));
        out.hyp("templated: patches of the final tree are sorted and disjoint (premise of C04_templated_keeps_partial)", "diagnostic", sd, json!({"input":input,"patches":run.patches}));
    }

    // ---- templated code untouched, fix by fix (mechanism: has_template_conflicts must have dropped these)
    let touching: Vec<String> = if templated {
        run.applied.iter().filter_map(|a| touches_templated(tf, a).map(|m| format!("{} (pass {}): {}", a.rule, a.pass, m))).collect()
    } else {
        vec![]
    };
    if templated {
        out.count("templated_applied_fixes", run.applied.len());
        out.hyp(
            "templated: no fix applied by the loop deletes/replaces source text of a placeholder or inserts inside a placeholder's rendering (what has_template_conflicts is for)",
            "diagnostic",
            touching.is_empty(),
            json!({"input":input,"fixes":touching}),
        );
        if !own_token(tf) {
            out.count("templated_runs_with_glued_or_empty_placeholder", 1);
        }
        if tf.sliced_file.last().map(|t| t.slice_type == "templated").unwrap_or(false) {
            out.count("templated_runs_file_ends_in_placeholder", 1);
        }
        if tf.sliced_file.first().map(|t| t.slice_type == "templated" || t.source_slice.is_empty()).unwrap_or(false) {
            out.count("templated_runs_file_starts_with_placeholder", 1);
        }
        if let Some(st) = run.start.as_ref() {
            let multi = tf.sliced_file.iter().filter(|t| t.slice_type == "templated").any(|t| {
                st.get_raw_segments().iter().filter(|r| !r.raw().is_empty() && r.get_position_marker().map(|p| p.source_slice == t.source_slice).unwrap_or(false)).count() > 1
            });
            if multi {
                out.count("templated_runs_with_multi_token_placeholder", 1);
            }
        }
    }
    if templated && src.len() <= 4000 {
        if let Some(st) = run.start.as_ref() {
            let (asked, _, bad) = synth_conflicts(tf, st);
            out.count("synthetic_fixes_touching_templated_code_asked", asked);
            // next to a placeholder with an empty value the filter's window arithmetic is known to be off
            // (known finding c04-placeholder-with-empty-value): those files are monitored separately
            let has_empty = tf.sliced_file.iter().any(|t| t.slice_type == "templated" && t.templated_slice.is_empty());
            out.hyp(
                if has_empty {
                    "templated, files with an empty-valued placeholder (known finding): has_template_conflicts reports a conflict for every synthetic fix that would edit templated code"
                } else {
                    "templated: has_template_conflicts reports a conflict for every fix (any segment of the parsed tree x delete/replace/create_before/create_after) that would delete or replace source text of a placeholder or insert inside its rendering"
                },
                if has_empty { "diagnostic" } else { "blocking" },
                bad.is_empty(),
                json!({"input":input,"n_unsound":bad.len(),"unsound":bad.iter().take(5).collect::<Vec<_>>()}),
            );
        }
    }
    let why = if touching.is_empty() { String::new() } else { format!("; applied fixes editing templated code: {:?}", touching) };

    // ---- direct observation of the property
    // outcome of the templated observation for the `tok` group: 0 = placeholders kept and re-render == tree raw,
    // 1/2/3 = failed in the recorded class fused / empty value / out of order, 4 = failed otherwise, 5 = not observed
    let mut obs_code = 5usize;
    if !templated {
        let ok = run.fixed == tree_raw;
        let key = format!("c04-untemplated-{:016x}", fnv(&format!("{}|{}|{}", it.dialect, it.rules, it.sql)));
        out.direct(it.cls, ok, &key, &format!("fixed text differs from the final tree's raw: fixed={:?} tree={:?}", trunc(&run.fixed, 300), trunc(&tree_raw, 300)), input.clone());
    } else {
        let ph_src = placeholders(tf);
        if ph_src.is_empty() {
            out.count("templated_without_placeholder", 1);
        } else {
            out.count("templated_runs_with_placeholders", 1);
            if changed {
                out.count("templated_runs_changed", 1);
            }
        }
        let rendered = catch(|| linter.render_string(&run.fixed, "<string>".into(), linter.config()));
        match rendered {
            Ok(Ok(r)) => {
                let ph_fixed = placeholders(&r.templated_file);
                let key = match known_class(tf, &tpl, &run.fixed, ph_fixed == ph_src, sd && in_order) {
                    Some(k) => k.to_string(),
                    None => format!("c04-templated-{:016x}", fnv(&format!("{}|{}|{}|{}", it.dialect, it.rules, it.sql, cfg_text("", "", it.templ.as_ref())))),
                };
                let ok1 = ph_fixed == ph_src;
                let re0 = r.templated_file.templated_str.clone().unwrap_or_default();
                obs_code = if ok1 && re0 == tree_raw {
                    0
                } else {
                    match key.as_str() {
                        "c04-placeholder-fused-with-neighbour" => 1,
                        "c04-placeholder-with-empty-value" => 2,
                        "c04-templated-patches-out-of-order" => 3,
                        _ => 4,
                    }
                };
                out.direct("templated-placeholders", ok1, &key, &format!("placeholders changed: source {:?} fixed {:?}; fixed text {:?}{}", ph_src, ph_fixed, trunc(&run.fixed, 300), why), input.clone());
                let re = r.templated_file.templated_str.clone().unwrap_or_default();
                let ok2 = re == tree_raw;
                out.direct("templated-rerender", ok2, &key, &format!("re-rendered fixed source differs from the final tree's raw: rerender={:?} tree={:?} fixed={:?}{}", trunc(&re, 3000), trunc(&tree_raw, 3000), trunc(&run.fixed, 3000), why), input.clone());
            }
            _ => {
                out.count("rerender_failed", 1);
            }
        }
    }

    // ---- correspondence case, conflict side: raw_slices_spanning_source_slice vs the Gallina `spanning`
    if templated && src.len() <= TREE_CASE_MAX {
        let raws = tf.verif_raw_sliced_idx();
        let mut qs: Vec<(usize, usize)> = vec![];
        if let Some(st) = run.start.as_ref() {
            fn walk(seg: &ErasedSegment, qs: &mut Vec<(usize, usize)>) {
                if let Some(pm) = seg.get_position_marker() {
                    qs.push((pm.source_slice.start, pm.source_slice.end));
                }
                for c in seg.segments() {
                    walk(c, qs);
                }
            }
            walk(st, &mut qs);
        }
        qs.sort();
        qs.dedup();
        let mut r2 = Rng::new(fnv(&it.sql) ^ 0x5a5a);
        while qs.len() > 60 {
            let k = r2.below(qs.len());
            qs.swap_remove(k);
        }
        for _ in 0..20 {
            let a = r2.below(src.len() + 3);
            let b = if r2.chance(1, 5) { r2.below(src.len() + 3) } else { a + r2.below(12) };
            qs.push((a, b));
        }
        // around every slice border
        for (i, _, l) in &raws {
            qs.push((i.saturating_sub(1), *i));
            qs.push((*i, *i));
            qs.push((*i, i + 1));
            qs.push((i.saturating_sub(1), i + l + 1));
        }
        let real: Vec<Option<Vec<(usize, usize)>>> = qs.iter().map(|(a, b)| catch(|| tf.verif_raw_slices_spanning(&(*a..*b))).ok().map(|v| v.into_iter().map(|(i, l, _)| (i, l)).collect())).collect();
        let args = g_tuple(&[
            g_list(raws.iter().map(|(i, t, l)| g_tuple(&[g_n(*i), g_n(*l), g_bool(t == "templated")]))),
            g_list(qs.iter().map(|(a, b)| g_tuple(&[g_n(*a), g_n(*b)]))),
        ]);
        let exp = g_list(real.iter().map(|o| g_opt(o.as_ref().map(|v| g_list(v.iter().map(|(i, l)| g_tuple(&[g_n(*i), g_n(*l)])))))));
        let multi = real.iter().any(|o| o.as_ref().map(|v| v.len() > 1).unwrap_or(false));
        out.case("span", it.cls, multi, args, exp, json!({"input":input,"n_queries":qs.len()}));
        out.hyp(
            "raw slices of the TemplatedFile tile the source from 0 (premise of C04_conflict_slices_complete)",
            "blocking",
            {
                let mut pos = 0usize;
                let mut ok = true;
                for (i, _, l) in &raws {
                    ok &= *i == pos;
                    pos += l;
                }
                ok && pos == src.len()
            },
            json!({"input":input}),
        );
    }

    // ---- correspondence case
    if !ok_tree {
        return;
    }
    if run.patches.is_empty() && fnv(&it.sql) % 4 != 0 {
        out.count("tree_case_sampled_out (no patch: 1 in 4 kept)", 1);
        return;
    }
    // ---- group tok: the premise of C04_templated (tiling + tree_ok) evaluated in Coq on every templated final tree with a patch and 1 in 4 of those without
    if templated && src.len() <= TREE_CASE_MAX {
        let raws: Vec<(usize, bool)> = tf.verif_raw_sliced_idx().into_iter().map(|(i, t, _)| (i, t == "literal")).collect();
        let sliced = g_list(tf.sliced_file.iter().map(|t| {
            let ty = match t.slice_type.as_str() {
                "literal" => 0,
                "templated" => 1,
                _ => 2,
            };
            g_tuple(&[g_n(ty), g_n(t.source_slice.start), g_n(t.source_slice.end), g_n(t.templated_slice.start), g_n(t.templated_slice.end)])
        }));
        let args = g_tuple(&[
            g_text(&src),
            if tpl == src { "None".to_string() } else { g_opt(Some(g_text(&tpl))) },
            sliced,
            g_list(raws.iter().map(|(i, l)| g_tuple(&[g_n(*i), g_bool(*l)]))),
            tree_term.clone(),
        ]);
        let sample = json!({"input":input,"n_nodes":nodes,"observed":obs_code,"patches":run.patches.iter().map(|(s,e,r)| json!([s,e,trunc(r,80)])).collect::<Vec<_>>(),"fixed":trunc(&run.fixed,200)});
        // not a correspondence case: bin/propcfg/c04.py (post) evaluates Corr.C04.tok_stat on it and counts
        out.lines.push(json!({"t":"tok","cls":it.cls,"nontrivial":!run.patches.is_empty(),"args":args,"obs":obs_code,"sample":sample}));
    }
    if src.len() > TREE_CASE_MAX {
        out.count("tree_case_skipped_large", 1);
        return;
    }
    let raws: Vec<(usize, bool)> = tf.verif_raw_sliced_idx().into_iter().map(|(i, t, _)| (i, t == "literal")).collect();
    let args = g_tuple(&[
        g_text(&src),
        if tpl == src { "None".to_string() } else { g_opt(Some(g_text(&tpl))) },
        g_list(raws.iter().map(|(i, l)| g_tuple(&[g_n(*i), g_bool(*l)]))),
        tree_term,
    ]);
    let exp = g_tuple(&[patches_g(&run.patches), g_text(&run.fixed)]);
    let sample = json!({"input":input,"n_nodes":nodes,"patches":run.patches.iter().map(|(s,e,r)| json!([s,e,trunc(r,80)])).collect::<Vec<_>>(),"fixed":trunc(&run.fixed,200)});
    out.case("tree", it.cls, !run.patches.is_empty(), args, exp, sample);
}

pub fn fnv(s: &str) -> u64 {
    let mut h = 0xcbf29ce484222325u64;
    for b in s.as_bytes() {
        h ^= *b as u64;
        h = h.wrapping_mul(0x100000001b3);
    }
    h
}

// ---------------------------------------------------------------- group `patches`
struct PItem {
    src: String,
    /// source-only comment slices (start, end), sorted, disjoint
    so: Vec<(usize, usize)>,
    patches: Vec<(usize, usize, String)>,
}

fn gen_pitem(rng: &mut Rng) -> PItem {
    let n = rng.range(0, 30);
    let src: String = (0..n).map(|_| *rng.pick(&[b'a', b'b', b'c', b' ', b'\n', b'x', b'1', b',']) as char).collect();
    let mut so = vec![];
    if rng.chance(1, 2) && n >= 4 {
        let k = rng.range(1, 3);
        let mut cuts: Vec<usize> = (0..2 * k).map(|_| rng.below(n + 1)).collect();
        cuts.sort();
        for w in cuts.chunks(2) {
            if w[0] < w[1] && so.last().map(|l: &(usize, usize)| l.1 <= w[0]).unwrap_or(true) {
                so.push((w[0], w[1]));
            }
        }
    }
    let k = rng.range(0, 6);
    let mut patches: Vec<(usize, usize, String)> = vec![];
    let sorted_mode = rng.chance(1, 3);
    let mut cursor = 0usize;
    for _ in 0..k {
        let (s, e) = if sorted_mode {
            let s = (cursor + rng.below(4)).min(n);
            let e = (s + rng.below(4)).min(n);
            cursor = e;
            (s, e)
        } else if !patches.is_empty() && rng.chance(1, 5) {
            let p = rng.pick(&patches).clone();
            (p.0, p.1)
        } else if !so.is_empty() && rng.chance(1, 4) {
            *rng.pick(&so)
        } else {
            let s = rng.below(n + 1);
            let e = (s + rng.below(5)).min(n);
            (s, e)
        };
        let raw: String = (0..rng.below(4)).map(|_| *rng.pick(&[b'X', b'Y', b'Z', b' ']) as char).collect();
        patches.push((s, e, raw));
    }
    PItem { src, so, patches }
}

fn pitem_json(p: &PItem) -> Value {
    json!({"kind":"patches","src":p.src,"so":p.so,"patches":p.patches})
}
fn pitem_from_json(v: &Value) -> PItem {
    PItem {
        src: v["src"].as_str().unwrap().to_string(),
        so: v["so"].as_array().unwrap().iter().map(|x| (x[0].as_u64().unwrap() as usize, x[1].as_u64().unwrap() as usize)).collect(),
        patches: v["patches"].as_array().unwrap().iter().map(|x| (x[0].as_u64().unwrap() as usize, x[1].as_u64().unwrap() as usize, x[2].as_str().unwrap().to_string())).collect(),
    }
}

fn run_patches(_: &mut (), p: &PItem, out: &mut Buf) {
    let input = pitem_json(p);
    // TemplatedFile with "comment" raw slices for the source-only ranges
    let tf = if p.so.is_empty() {
        TemplatedFile::from(p.src.clone())
    } else {
        let mut sliced = vec![];
        let mut raws = vec![];
        let mut tpl = String::new();
        let mut pos = 0usize;
        let mut lit = |a: usize, b: usize, tpl: &mut String, sliced: &mut Vec<TemplatedFileSlice>, raws: &mut Vec<RawFileSlice>| {
            if a < b {
                sliced.push(TemplatedFileSlice::new("literal", a..b, tpl.len()..tpl.len() + (b - a)));
                raws.push(RawFileSlice::new(p.src[a..b].to_string(), "literal".into(), a, None, None));
                tpl.push_str(&p.src[a..b]);
            }
        };
        for (a, b) in &p.so {
            lit(pos, *a, &mut tpl, &mut sliced, &mut raws);
            sliced.push(TemplatedFileSlice::new("comment", *a..*b, tpl.len()..tpl.len()));
            raws.push(RawFileSlice::new(p.src[*a..*b].to_string(), "comment".into(), *a, None, None));
            pos = *b;
        }
        lit(pos, p.src.len(), &mut tpl, &mut sliced, &mut raws);
        match catch(|| TemplatedFile::new(p.src.clone(), "<p>".into(), Some(tpl), Some(sliced), Some(raws))) {
            Ok(Ok(tf)) => tf,
            _ => {
                out.count("patches_tf_rejected", 1);
                return;
            }
        }
    };
    let patches: Vec<FixPatch> = p.patches.iter().map(|(s, e, r)| FixPatch::new(0..0, r.as_str().into(), *s..*e, String::new(), String::new())).collect();
    let lf = LintedFile { path: String::new(), patches, templated_file: tf, violations: vec![], ignore_mask: None };
    let real = match catch(|| lf.fix_string()) {
        Ok(s) => s,
        Err(_) => {
            out.count("patches_real_panicked", 1);
            return;
        }
    };
    let (wf, sd) = patch_preds(&p.patches);
    out.count(if sd { "patches_sorted_disjoint" } else if wf { "patches_wf_unsorted_or_overlapping" } else { "patches_ill_formed" }, 1);
    if !p.so.is_empty() {
        out.count("patches_with_source_only_slices", 1);
    }
    let args = g_tuple(&[g_text(&p.src), g_list(p.so.iter().map(|(a, b)| g_tuple(&[g_n(*a), g_n(*b)]))), patches_g(&p.patches)]);
    out.case("patches", if p.so.is_empty() { "random-patches" } else { "random-patches-source-only" }, !p.patches.is_empty(), args, g_text(&real), json!({"input":input,"real":real}));
}

// ---------------------------------------------------------------- main
pub fn main(args: &Args) {
    silence_panics();
    let mut out = Out::new(&args.out);
    let mut rng = Rng::new(args.seed);
    let mut items: Vec<Item> = vec![];
    let mut pitems: Vec<PItem> = vec![];

    if let Some(path) = args.flag("--replay-input") {
        let v: Value = serde_json::from_str(&std::fs::read_to_string(path).unwrap()).unwrap();
        let v = if v.get("input").is_some() { v["input"].clone() } else { v };
        if v["kind"] == "patches" {
            pitems.push(pitem_from_json(&v));
        } else {
            items.push(item_from_json(&v));
        }
    } else {
        // regression corpus first
        for (d, r, s, t) in [
            ("ansi", "all", "SELECT a  from  tbl\n", None),
            ("ansi", "LT01,CP01", "select  a,b FROM t where x=1", None),
            ("ansi", "all", "SELECT a , b  from  t WHERE c = :p1\n", Some(("colon", vec![("p1", "1")]))),
            ("ansi", "LT01,CP01", "select  a from t where x = :a_rather_long_parameter_name_1  and y =  :p2\n", Some(("colon", vec![("a_rather_long_parameter_name_1", "1"), ("p2", "'abcdefgh'")]))),
            ("ansi", "all", "SELECT a  from  t WHERE c = ?  and d = ?\n", Some(("question_mark", vec![("1", "10"), ("2", "'x'")]))),
            // fixed e89ae00: AL02 inserts "AS " at the start of the alias node, LT02 an indent before it:
            // two insertions at one source position, the second was lost
            ("ansi", "all", "SELECT :a\n\n\n:b;\n", Some(("colon", vec![("a", "1"), ("b", "bar")]))),
            // fixed (iter_patches compares instead of subtracting): ST06 moves the cast in front of the placeholder
            // expression, the moved child starts before the running templated index: `start - templated_idx`
            // underflowed (debug builds: fix panicked). The file written is still wrong: known finding out-of-order.
            ("ansi", "all", "SELECT :b :: int, cast(a as int) FROM t\n", Some(("colon", vec![("b", "1")]))),
            // same repair, seen without overflow checks: the wrapped subtraction emitted an extra gap patch (29..29) here
            ("snowflake", "all", "SELECT DISTINCT TOP :p col1, t.* FROM t;\n", Some(("colon", vec![("p", "40")]))),
        ] {
            items.push(Item {
                cls: "regression",
                dialect: d.into(),
                rules: r.into(),
                sql: s.into(),
                templ: t.map(|(st, ps): (&str, Vec<(&str, &str)>)| Templ { style: st.into(), regex: None, params: ps.into_iter().map(|(k, v)| (k.to_string(), v.to_string())).collect(), api: false }),
            });
        }
        let corpus = corpus();
        let snippets = rule_snippets();
        let thorough = args.thorough();
        // corpus x rule selections
        for (i, f) in corpus.iter().enumerate() {
            if f.text.len() > 20000 {
                continue;
            }
            let nsel = if thorough { RULESETS.len() } else { 1 };
            for k in 0..nsel {
                let rules = RULESETS[(i + k) % RULESETS.len()];
                items.push(Item { cls: "corpus", dialect: f.dialect.clone(), rules: rules.into(), sql: f.text.clone(), templ: None });
            }
        }
        // perturbed corpus
        let n_pert = if thorough { 6000 } else { 500 };
        for _ in 0..n_pert {
            let f = &corpus[rng.below(corpus.len())];
            if f.text.len() > 6000 {
                continue;
            }
            let rules = RULESETS[rng.below(RULESETS.len())];
            let sql = perturb(&mut rng, &f.text);
            items.push(Item { cls: "perturbed-corpus", dialect: f.dialect.clone(), rules: rules.into(), sql, templ: None });
        }
        // rule fixture snippets (pass/fail/fix strings), ansi, all rules and one random selection
        for (i, (_, s)) in snippets.iter().enumerate() {
            if s.len() > 4000 || (!thorough && i % 2 == 1) {
                continue;
            }
            items.push(Item { cls: "rule-snippet", dialect: "ansi".into(), rules: "all".into(), sql: s.clone(), templ: None });
            if thorough {
                items.push(Item { cls: "rule-snippet", dialect: "ansi".into(), rules: RULESETS[rng.below(RULESETS.len())].into(), sql: s.clone(), templ: None });
            }
        }
        // placeholder templating
        let n_templ = if thorough { 8000 } else { 800 };
        let mut made = 0;
        let mut tries = 0;
        while made < n_templ && tries < n_templ * 20 {
            tries += 1;
            let f = &corpus[rng.below(corpus.len())];
            if f.text.len() > 5000 {
                continue;
            }
            let style = STYLES[rng.below(STYLES.len())];
            let base = if rng.chance(1, 2) { perturb(&mut rng, &f.text) } else { f.text.clone() };
            if let Some((sql, templ)) = templatise(&mut rng, &base, style, false) {
                let rules = RULESETS[rng.below(RULESETS.len())];
                items.push(Item { cls: "templated-corpus", dialect: f.dialect.clone(), rules: rules.into(), sql, templ: Some(templ) });
                made += 1;
            }
        }
        // the same with the wide generator: glued / partial identifiers, multi-token and padded values,
        // file ending in a placeholder, every style incl. apache_camel and custom regexes
        let n_wide = if thorough { 6000 } else { 500 };
        let (mut made, mut tries) = (0, 0);
        while made < n_wide && tries < n_wide * 20 {
            tries += 1;
            let f = &corpus[rng.below(corpus.len())];
            if f.text.len() > 3000 {
                continue;
            }
            let style = STYLES_ALL[rng.below(STYLES_ALL.len())];
            let base = if rng.chance(1, 2) { perturb(&mut rng, &f.text) } else { f.text.clone() };
            if let Some((sql, templ)) = templatise(&mut rng, &base, style, true) {
                let rules = if rng.chance(1, 3) { "all" } else { RULESETS[rng.below(RULESETS.len())] };
                items.push(Item { cls: "templated-corpus-wide", dialect: f.dialect.clone(), rules: rules.into(), sql, templ: Some(templ) });
                made += 1;
            }
        }
        // synthetic statements around placeholders
        let known = sqruff_lib::templaters::placeholder::get_known_styles();
        let matches = |style: &str, sql: &str| known.get(style).map(|re| re.find_iter(sql).filter(|m| m.is_ok()).count());
        let n_shapes = if thorough { 20000 } else { 1500 };
        let (mut made, mut tries) = (0, 0);
        while made < n_shapes && tries < n_shapes * 5 {
            tries += 1;
            if let Some(it) = gen_shape(&mut rng, &matches) {
                items.push(it);
                made += 1;
            }
        }
        let n_p = if thorough { 20000 } else { 2000 };
        for _ in 0..n_p {
            pitems.push(gen_pitem(&mut rng));
        }
    }
    par_run(&mut out, &items, Linters::new, run_file);
    par_run(&mut out, &pitems, || (), run_patches);
    out.finish();
}
